#!/bin/bash
# Refresh every evidence file: runs all claimed quick (or thorough) checks, 4 at a time.
cd "$(dirname "$0")"
TIER=${1:-quick}
PROPS=$(/venv/bin/python -c "import json;print(' '.join(c['property_id'] for c in json.load(open('MANIFEST.json'))['checks']))")
mkdir -p /tmp/verif_runall
printf '%s\n' $PROPS | xargs -P 4 -I{} sh -c "./check {} --tier $TIER > /tmp/verif_runall/{}.log 2>&1; echo {} exit \$?"
grep -l VIOLATION /tmp/verif_runall/*.log 2>/dev/null
