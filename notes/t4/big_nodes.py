import sys, time, json
sys.path.insert(0, __import__("os").path.join(__import__("os").path.dirname(__import__("os").path.abspath(__file__)), "..", "..", "tools"))
import common; common.quiet()
import t4, popgen
for date in ["2019-07-01", "2023-07-01"]:
    S = t4.system(date)
    df, k = popgen.population(common.rng("big/" + date), date, n_clusters=2)
    df2, K, nc = t4.cut_columns(df, date, S)
    C = t4.cones(date, K)
    T = sorted(n for n, c in C.items() if not c["outside"] and c["cost"] > 1_000_000)
    data, _ = t4.data_for_model(df2)
    t0 = time.time()
    ans = t4.run_model(S, [(data, T, True)])[0]
    dt = time.time() - t0
    real = popgen.simulate(df2, date, targets=T)
    m = dict(ans["ok"]) if "ok" in ans else {}
    print(date, k, len(df2), "rows", round(dt, 1), "s", {t: (t4.compare_column(t, real[t], m[t])["status"], t4.nontrivial(real[t])) for t in T} if m else ans, flush=True)
