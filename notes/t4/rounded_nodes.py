import sys, time, json, collections
sys.path.insert(0, __import__("os").path.join(__import__("os").path.dirname(__import__("os").path.abspath(__file__)), "..", "..", "tools"))
import common; common.quiet()
import t4, popgen
for date in ["2019-07-01", "2023-07-01"]:
    S = t4.system(date); C = t4.cones(date)
    keyed = {r["fun"]["name"] for r in S["rules"] if r["key"]}
    T = sorted(n for n, c in C.items() if not c["outside"] and (set(c["rules"]) & keyed))
    rnd = common.rng("rounded/" + date)
    pops = []
    for i in range(60):
        df, k = (popgen.near_copies(rnd, date, n=7) if i % 2 else popgen.population(rnd, date, n_clusters=4))
        pops.append((df, k))
    t0 = time.time()
    answers = t4.run_model(S, [(t4.data_for_model(df)[0], T, True) for df, _ in pops])
    st = collections.Counter(); cells = 0
    for (df, k), ans in zip(pops, answers):
        real = popgen.simulate(df, date, targets=T)
        m = dict(ans["ok"])
        for t in T:
            c = t4.compare_column(t, real[t], m[t]); cells += len(df)
            if c["status"] == "values" and t4.at_float_boundary(df, date, T, True, t, c["rows"], m[t]):
                st["float boundary"] += 1; print("BOUNDARY", date, t, k, c, flush=True)
            else:
                st[c["status"]] += 1
                if c["status"] != "agree": print("DIFF", date, t, k, c, flush=True)
    print(date, len(T), "targets downstream of a rounded rule (", len(keyed & set(C)), "rounded rules in the graph )", dict(st), cells, "cells", round(time.time() - t0, 1), "s", flush=True)
