import sys
def parse(path):
    d, cur = {}, None
    for line in open(path):
        line = line.rstrip("\n")
        if line.startswith("== "): cur = line[3:]; d[cur] = []
        elif line.startswith("#"): d[cur].append(line)
        elif cur is not None: d[cur].append(line)
    return d
r, m = parse("fuzz_real.txt"), parse("fuzz_model.txt")
bad = 0; stats = {}
for k in r:
    rr = [l for l in r[k] if not l.startswith("#")]
    key = rr[0].strip() if rr and "ERROR" in rr[0] else "ok"
    stats[key] = stats.get(key, 0) + 1
    if rr != m.get(k):
        bad += 1
        print("MISMATCH", k); print(" real :", r[k]); print(" model:", m.get(k))
print("systems", len(r), "mismatches", bad, stats)
