#!/bin/bash
# usage: runfuzz.sh SEED N
cd /tmp/agents/sim/scratch && /venv/bin/python fuzz.py $1 $2 && cd /tmp/agents/sim/lean && lake env lean /tmp/agents/sim/scratch/Fuzz.lean > /tmp/agents/sim/scratch/fuzz_model.txt 2>&1; cd /tmp/agents/sim/scratch && /venv/bin/python cmp.py
