"""Throw-away self-test: toy systems run through the REAL compute_taxes_and_transfers."""
import warnings, numpy as np, pandas as pd, sys
warnings.filterwarnings("ignore")
from gettsim import compute_taxes_and_transfers
from _gettsim.shared import policy_info

ERRMAP = {"ValueError": "ValueError", "KeyError": "KeyError", "TypeError": "TypeError",
          "ZeroDivisionError": "ZeroDivisionError", "IndexError": "ShapeError", "NameError": "NameError",
          "NotImplementedError": "NotImplementedError"}
def fmt(v):
    if isinstance(v, (bool, np.bool_)): return "True" if v else "False"
    if isinstance(v, (int, np.integer)): return str(int(v))
    return f"{float(v):.6f}"
def show(name, **kw):
    print(f"== {name}")
    try:
        with np.errstate(all="ignore"):
            res = compute_taxes_and_transfers(**kw)
        for c in res.columns:
            vals = res[c].tolist()
            kind = {"f": "float", "i": "int", "b": "bool", "O": "float"}[res[c].dtype.kind]
            print(f"   {c}: {kind} [{', '.join(fmt(v) for v in vals)}]")
    except Exception as e:
        print(f"   ERROR {ERRMAP.get(type(e).__name__, 'Error')}" + (f"   # {type(e).__name__}" if "-v" in sys.argv else ""))

I = lambda *xs: pd.Series(list(xs), dtype="int64")
F = lambda *xs: pd.Series(list(xs), dtype="float64")
B = lambda *xs: pd.Series(list(xs), dtype="bool")

base = dict(p_id=I(0,1,2,3,4), hh_id=I(0,0,1,1,1))

# ---------------------------------------------------------------- S1
def a_m(x: float) -> float:
    return x * 2
show("S1 time conv + automatic group sums",
     data={**base, "x": F(1, 2.5, 3, 4, 5)}, params={}, functions=[a_m],
     targets=["a_y", "a_m_hh", "a_y_hh", "a_m", "a_y", "a_w", "a_d"])
# ---------------------------------------------------------------- S2
def flag(x: float) -> bool:
    return x > 2
def cnt(x: float) -> int:
    return 1 if x > 2 else 0
show("S2 user group specs (max overrides automatic sum, mean, count, any, all, min, sum of bool)",
     data={**base, "x": F(1, 2.5, 3, 4, 5)}, params={}, functions=[a_m, flag, cnt],
     aggregate_by_group_specs={
         "a_m_hh": {"aggr": "max", "source_col": "a_m"},
         "amean_hh": {"aggr": "mean", "source_col": "a_m"},
         "n_hh": {"aggr": "count"},
         "fany_hh": {"aggr": "any", "source_col": "flag"},
         "fall_hh": {"aggr": "all", "source_col": "flag"},
         "xmin_hh": {"aggr": "min", "source_col": "x"},
         "cany_hh": {"aggr": "any", "source_col": "cnt"},
     },
     targets=["a_m_hh", "amean_hh", "n_hh", "fany_hh", "fall_hh", "xmin_hh", "flag_hh", "cnt_hh", "cany_hh"])
show("S2b mean of int -> TypeError", data={**base, "x": F(1, 2.5, 3, 4, 5)}, params={}, functions=[cnt],
     aggregate_by_group_specs={"cm_hh": {"aggr": "mean", "source_col": "cnt"}}, targets=["cm_hh"])
show("S2c max of bool -> TypeError", data={**base, "x": F(1, 2.5, 3, 4, 5)}, params={}, functions=[flag],
     aggregate_by_group_specs={"fm_hh": {"aggr": "max", "source_col": "flag"}}, targets=["fm_hh"])
show("S2d spec name without group suffix", data={**base, "x": F(1, 2.5, 3, 4, 5)}, params={}, functions=[flag],
     aggregate_by_group_specs={"fm": {"aggr": "max", "source_col": "flag"}}, targets=["flag"])
# ---------------------------------------------------------------- S3
show("S3 p_id aggregation (rule source and data source, bool source), + time conv + group sum of it",
     data={**base, "x": F(1, 2.5, 3, 4, 5), "p_id_recv": I(-1, 0, 0, 4, -1), "k": I(1, 2, 3, 4, 5)}, params={},
     functions=[a_m, flag],
     aggregate_by_p_id_specs={
         "got_m": {"p_id_to_aggregate_by": "p_id_recv", "source_col": "a_m", "aggr": "sum"},
         "gotk": {"p_id_to_aggregate_by": "p_id_recv", "source_col": "k", "aggr": "sum"},
         "gotf": {"p_id_to_aggregate_by": "p_id_recv", "source_col": "flag", "aggr": "sum"},
         "unused": {"p_id_to_aggregate_by": "p_id_recv", "source_col": "nonexistent", "aggr": "sum"},
     },
     targets=["got_m", "gotk", "gotf", "got_y", "got_m_hh"])
show("S3b p_id aggregation whose source does not exist requested", data={**base, "p_id_recv": I(-1, 0, 0, 4, -1)},
     params={}, functions=[],
     aggregate_by_p_id_specs={"unused": {"p_id_to_aggregate_by": "p_id_recv", "source_col": "nonexistent", "aggr": "sum"}},
     targets=["unused"])
# ---------------------------------------------------------------- S4
def b(a_m: float) -> float:
    return a_m + 1
def ci(x: float) -> int:
    return 7
def d(ci: int) -> int:
    return ci * 2
show("S4 data column overrides rule (a_m given), int-annotated rule overridden by integral float column",
     data={**base, "a_m": F(10, 20, 30, 40, 50), "ci": F(1, 2, 3, 4, 5)}, params={}, functions=[a_m, b, ci, d],
     targets=["b", "d", "a_y"])
show("S4b overriding column not convertible", data={**base, "ci": F(1.5, 2, 3, 4, 5)}, params={}, functions=[ci, d],
     targets=["d"])
show("S4c target is a data column", data={**base, "a_m": F(10, 20, 30, 40, 50)}, params={}, functions=[a_m, b],
     targets=["a_m", "b"])
# ---------------------------------------------------------------- S5
@policy_info(params_key_for_rounding="grp")
def r_up(x: float) -> float:
    return x * 1.5
@policy_info(params_key_for_rounding="grp")
def r_down(x: float) -> float:
    return x * 1.5
@policy_info(params_key_for_rounding="grp")
def r_near(x: float) -> float:
    return x * 1.5
@policy_info(params_key_for_rounding="grp")
def r_int(x: float) -> int:
    return 7
def uses(r_near: float) -> float:
    return r_near + 0.25
prm = {"grp": {"rounding": {
    "r_up": {"base": 0.5, "direction": "up"},
    "r_down": {"base": 2, "direction": "down", "to_add_after_rounding": 0.25},
    "r_near": {"base": 1, "direction": "nearest"},
    "r_int": {"base": 2, "direction": "nearest"},
}}}
dx = {**base, "x": F(1, 2.5, 3, 4.3, 5)}
show("S5 rounding on", data=dx, params=prm, functions=[r_up, r_down, r_near, r_int, uses],
     targets=["r_up", "r_down", "r_near", "r_int", "uses"])
show("S5b rounding off", data=dx, params=prm, functions=[r_up, r_down, r_near, r_int, uses],
     targets=["r_up", "r_down", "r_near", "r_int", "uses"], rounding=False)
show("S5c rounding spec missing (needed)", data=dx, params={"grp": {"rounding": {}}}, functions=[r_up, r_near, uses],
     targets=["uses"])
show("S5d rounding spec missing but function pruned", data=dx, params={"grp": {"rounding": {"r_near": {"base": 1, "direction": "nearest"}}}},
     functions=[r_up, r_near, uses], targets=["uses"])
show("S5e rounding spec missing, rounding off", data=dx, params={}, functions=[r_up, r_near, uses],
     targets=["uses", "r_up"], rounding=False)
show("S5f spec without direction", data=dx, params={"grp": {"rounding": {"r_up": {"base": 1}}}}, functions=[r_up],
     targets=["r_up"])
show("S5g bad direction", data=dx, params={"grp": {"rounding": {"r_up": {"base": 1, "direction": "sideways"}}}}, functions=[r_up],
     targets=["r_up"])
show("S5h time conversion of rounded rule is not rounded again", data=dx,
     params={"grp": {"rounding": {"rr_m": {"base": 1, "direction": "nearest"}}}},
     functions={"rr_m": policy_info(params_key_for_rounding="grp")(lambda x: x * 1.5)} if False else [],
     targets=[]) if False else None
@policy_info(params_key_for_rounding="grp")
def rr_m(x: float) -> float:
    return x * 1.5
show("S5h time conversion of rounded rule", data=dx,
     params={"grp": {"rounding": {"rr_m": {"base": 1, "direction": "nearest"}}}},
     functions=[rr_m], targets=["rr_m", "rr_y", "rr_w"])
# ---------------------------------------------------------------- S6
def const(grp_params: dict) -> float:
    return grp_params["c"] * 2
def const_i(grp_params: dict) -> int:
    return 3
def const_n(grp_params: dict):
    return grp_params["c"] > 1
def plus(x: float, const: float) -> float:
    return x + const
def plus2(const: float, const_i: int) -> float:
    return const + const_i
def pm_m(grp_params: dict) -> float:
    return grp_params["c"]
p6 = {"grp": {"c": 1.5}}
show("S6 parameter-only rules only", data=dx, params=p6, functions=[const, const_i, const_n], targets=["const", "const_i", "const_n"])
show("S6b parameter-only rule + consumer", data=dx, params=p6, functions=[const, const_i, plus, plus2, pm_m],
     targets=["plus", "const", "plus2", "pm_y"])
show("S6c params group missing", data=dx, params={}, functions=[const, plus], targets=["plus"])
show("S6d param key missing (KeyError in rule)", data=dx, params={"grp": {}}, functions=[const, plus], targets=["plus"])
show("S6e group sum of a parameter-only rule", data=dx, params=p6, functions=[const], targets=["const_hh"])
def zero_args() -> int:
    return 2.5
show("S6f zero-arg rule", data=dx, params=p6, functions=[zero_args], targets=["zero_args"])
# ---------------------------------------------------------------- S7 / S8
show("S7 missing input column", data=base, params={}, functions=[a_m, b], targets=["b"])
show("S8 target does not exist", data=dx, params={}, functions=[a_m], targets=["a_m", "nope"])
show("S8b no p_id", data={"hh_id": I(0, 1), "x": F(1, 2)}, params={}, functions=[a_m], targets=["a_m"])
show("S8c duplicate p_id", data={"p_id": I(0, 0), "hh_id": I(0, 1), "x": F(1, 2)}, params={}, functions=[a_m], targets=["a_m"])
# ---------------------------------------------------------------- S9
d9 = dict(p_id=I(0,1,2,3,4,5), hh_id=I(0,0,0,1,1,1), alter=I(40,38,10,50,20,30),
          p_id_einstandspartner=I(1,0,-1,-1,-1,-1), p_id_elternteil_1=I(-1,-1,0,-1,3,-1), p_id_elternteil_2=I(-1,-1,1,-1,-1,-1),
          p_id_ehepartner=I(1,0,-1,-1,-1,-1), gemeinsam_veranlagt=B(True,True,False,False,False,False),
          eigenbedarf_gedeckt=B(False,False,True,False,True,False),
          wohngeld_vorrang_bg=B(False,False,False,True,True,True), wohngeld_kinderzuschl_vorrang_bg=B(False,False,False,False,False,False),
          x=F(1,2,3,4,5,6))
show("S9 grouping ids + sums over them",
     data=d9, params={}, functions=[a_m],
     targets=["bg_id", "eg_id", "fg_id", "ehe_id", "sn_id", "wthh_id", "a_m_bg", "a_m_eg", "a_m_sn", "a_m_fg", "a_m_wthh", "a_m_ehe"])
show("S9b fg_id given as data (float) -> bg_id", data={**d9, "fg_id": F(5,5,5,6,6,7)}, params={}, functions=[a_m],
     targets=["bg_id", "a_m_fg"])
show("S9c invalid foreign key", data={**d9, "p_id_ehepartner": I(1,0,-1,-1,-1,77)}, params={}, functions=[a_m], targets=["ehe_id"])
show("S9d group var not constant", data={**dx, "z_hh": F(1,2,3,3,3)}, params={}, functions=[a_m], targets=["a_m"])
# ---------------------------------------------------------------- S10
def t_int(x: float) -> int:
    return x * 1.5
def t_bool(x: float) -> bool:
    return x - 1
def t_float(k: int) -> float:
    return k
def t_none(x: float, k: int):
    return k if x < 2 else x
def t_none2(x: float, k: int):
    return x if x < 2 else k
def t_neg(x: float) -> int:
    return -x * 1.5
show("S10 return annotations", data={**dx, "k": I(1, 2, 3, 4, 5)}, params={},
     functions=[t_int, t_bool, t_float, t_none, t_none2, t_neg],
     targets=["t_int", "t_bool", "t_float", "t_none", "t_none2", "t_neg", "t_int_hh"])
def q_m(k: int) -> int:
    return k
def qb_m(k: int) -> bool:
    return k > 2
show("S10b m->y keeps ints", data={**dx, "k": I(1, 2, 3, 4, 5)}, params={}, functions=[q_m, qb_m],
     targets=["q_y", "q_w", "qb_y", "qb_d", "q_y_hh"])
# ---------------------------------------------------------------- S11
def zd(x: float) -> float:
    return 1 / (x - 3)
def c1(c2: float) -> float:
    return c2
def c2(c1: float) -> float:
    return c1
show("S11 ZeroDivisionError in one row", data=dx, params={}, functions=[zd], targets=["zd"])
show("S11b cycle", data=dx, params={}, functions=[c1, c2, a_m], targets=["c1"])
show("S11c cycle not needed", data=dx, params={}, functions=[c1, c2, a_m], targets=["a_m"])
show("S11d cycle + missing rounding spec + missing column", data=base, params={}, functions=[c1, c2, r_up], targets=["c1", "r_up"])
show("S11e missing rounding spec + missing column", data=base, params={}, functions=[r_up], targets=["r_up"])
# ---------------------------------------------------------------- S12 suffix stripping
def v(x: float) -> float:
    return x
show("S12 remove_group_suffix: v_sn_hh -> v (sum by hh)", data={**dx, "sn_id": I(0, 0, 0, 1, 1)}, params={}, functions=[v],
     targets=["v_sn_hh", "v_hh", "v_sn"])
show("S12b remove_group_suffix: v_hh_sn -> v_hh, not a source", data={**dx, "sn_id": I(0, 0, 0, 1, 1)}, params={}, functions=[v],
     targets=["v_hh_sn"])
def w(v_hh_sn: float, v_hh: float) -> float:
    return v_hh_sn + v_hh
show("S12c v_hh_sn as argument while v_hh is not a function (missing column)", data={**dx, "sn_id": I(0, 0, 0, 1, 1)}, params={}, functions=[v, w],
     targets=["w"])
@policy_info(params_key_for_rounding="grp")
def z0() -> float:
    return 2.5
show("S13 zero-arg rule rounded up", data=dx, params={"grp": {"rounding": {"z0": {"base": 2, "direction": "up"}}}}, functions=[z0], targets=["z0"])
show("S13b zero-arg rule rounded nearest", data=dx, params={"grp": {"rounding": {"z0": {"base": 2, "direction": "nearest"}}}}, functions=[z0], targets=["z0"])
show("S13c max over a scalar", data=dx, params=p6, functions=[const], aggregate_by_group_specs={"const_hh": {"aggr": "max", "source_col": "const"}}, targets=["const_hh"])
show("S13d p_id sum of a scalar", data={**dx, "p_id_recv": I(-1, 0, 0, 4, -1)}, params=p6, functions=[const],
     aggregate_by_p_id_specs={"gotc": {"p_id_to_aggregate_by": "p_id_recv", "source_col": "const", "aggr": "sum"}}, targets=["gotc"])
def alter(grp_params: dict) -> int:
    return 30
show("S13e scalar fed to grouping", data={**d9, "alter": I(1,1,1,1,1,1)} if False else {k: v_ for k, v_ in d9.items() if k != "alter"}, params=p6, functions=[alter], targets=["bg_id"])
def two_errs_a(x: float) -> float:
    return 1 / (x - 3)
def two_errs_b(grp_params: dict, x: float) -> float:
    return grp_params["nokey"]
show("S14 two failing nodes: order", data=dx, params=p6, functions=[two_errs_a, two_errs_b], targets=["two_errs_b", "two_errs_a"])
def aa(zz: float) -> float:
    return zz
def zz(x: float) -> float:
    return 1 / (x - 3)
def bb(x: float, grp_params: dict) -> float:
    return grp_params["nokey"]
show("S14b two failing nodes: topological lexicographic order (bb before zz)", data=dx, params=p6, functions=[aa, zz, bb], targets=["aa", "bb"])

# ---------------------------------------------------------------- S15 rounding spec value checks
for nm, spec in [("base bool", {"base": True, "direction": "up"}), ("base str", {"base": "1", "direction": "up"}),
                 ("to_add str", {"base": 1.0, "direction": "up", "to_add_after_rounding": "x"}),
                 ("direction number", {"base": 1.0, "direction": 1.0}), ("base int", {"base": 2, "direction": "nearest"})]:
    show(f"S15 rounding spec: {nm}", data=dx, params={"grp": {"rounding": {"r_up": spec}}}, functions=[r_up], targets=["r_up"])
show("S15b rounding key group not in params", data=dx, params={"other": {}}, functions=[r_up], targets=["r_up"])
# ---------------------------------------------------------------- S16 input variable types
def aplus(alter: int, bruttolohn_m: float) -> float:
    return alter + bruttolohn_m
def aint(alter: int):
    return alter
show("S16 TYPES_INPUT_VARIABLES conversions (alter float->int, bruttolohn_m int->float)",
     data={**base, "alter": F(30, 40, 50, 60, 70), "bruttolohn_m": I(1, 2, 3, 4, 5)}, params={}, functions=[aplus, aint],
     targets=["aplus", "aint", "bruttolohn_y", "alter_hh"])
show("S16b alter not integral", data={**base, "alter": F(30.5, 40, 50, 60, 70)}, params={}, functions=[aint], targets=["aint"])
show("S16c bool input given as int 0/1 and as 2", data={**base, "kind": I(0, 1, 1, 0, 2)}, params={}, functions=[a_m], targets=["a_m"])
def usen(n_hh: int, fl_hh: int):
    return n_hh + fl_hh
show("S16d data columns override aggregation functions (count -> int annotation, sum of bool rule -> int)",
     data={**dx, "n_hh": F(2, 2, 3, 3, 3), "flag_hh": F(1, 1, 0, 0, 0)}, params={}, functions=[usen, flag],
     aggregate_by_group_specs={"n_hh": {"aggr": "count"}, "fl_hh": {"aggr": "sum", "source_col": "flag_hh"}},
     targets=["usen"])
def use2(flag_hh: int):
    return flag_hh
show("S16e overriding column for the automatic sum of a bool rule is converted to int", data={**dx, "flag_hh": F(1, 1, 0, 0, 0)},
     params={}, functions=[use2, flag], targets=["use2"])
# ---------------------------------------------------------------- S17 names
def fg_id(x: float) -> int:
    return 7
def fg_user(fg_id: int) -> int:
    return fg_id
show("S17 a rule named like a grouping function is ignored", data=d9, params={}, functions=[fg_id, fg_user], targets=["fg_user", "fg_id"])
def dup(x: float) -> float:
    return x
dup1 = dup
def dup(x: float) -> float:
    return x * 3
show("S17b duplicate rule name: the later definition wins", data=dx, params={}, functions=[dup1, dup], targets=["dup"])
def s_m(x: float) -> float:
    return x
def s_y(x: float) -> float:
    return x * 100
show("S17c time conversion not created when the function exists; s_w comes from the LAST source (s_y)", data=dx, params={}, functions=[s_m, s_y],
     targets=["s_m", "s_y", "s_w"])
def uu_y(uu_m: float) -> float:
    return uu_m * 12
show("S17d no converse time conversion for an argument (uu_m must be data)", data=dx, params={}, functions=[uu_y], targets=["uu_y"])
show("S17e ... given as data", data={**dx, "uu_m": F(1, 2, 3, 4, 5)}, params={}, functions=[uu_y], targets=["uu_y", "uu_w"])
