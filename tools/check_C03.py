"""C03 — each column value equals the scalar rule applied to that row's inputs; dtype from the declaration."""

from __future__ import annotations

import inspect
import json
import warnings
from fractions import Fraction

import numpy as np

import common
import corr
import popgen

DT = {float: "float", int: "int", bool: "bool", "float": "float", "int": "int", "bool": "bool"}
NP = {"float": "float64", "int": "int64", "bool": "bool"}


def wrapper_cases(rnd, n):
    """`_vectorize_func` on rules returning a prescribed, mixed-type sequence of results."""
    from _gettsim.functions_loader import _vectorize_func

    cases = []
    for _ in range(n):
        m = rnd.randint(0, 6)
        rows = []
        for _ in range(m):
            t = rnd.choice(["b", "i", "f", "f"])
            rows.append(rnd.random() < 0.5 if t == "b" else rnd.randint(-3, 300) if t == "i"
                        else rnd.choice([0.0, 0.75, 1.25, -1.5, 300.0, 2.0, 1e6 + 0.5]))
        decl = rnd.choice(["float", "int", "bool", None, None])

        def f(i, rows=rows):
            return rows[int(i)]

        if decl is not None:
            f.__annotations__ = {"i": int, "return": {"float": float, "int": int, "bool": bool}[decl]}
        op = {"op": "vectorize", "decl": decl,
              "rows": [r if isinstance(r, (bool, int)) else corr.fstr(Fraction(r)) for r in rows]}

        def thunk(f=f, m=m):
            out = _vectorize_func(f)(np.arange(m))
            return out

        cases.append((op, thunk, rows, decl))
    return cases


def wrapper_correspondence(run, rnd, n):
    cases = wrapper_cases(rnd, n)
    outs = common.driver([json.dumps(c[0]) for c in cases])
    bad = []
    for (op, thunk, rows, decl), o in zip(cases, outs):
        j = json.loads(o)
        kind, val = corr.real_call(thunk)
        run.case(op)
        run.traces += 1
        if "ok" not in j:
            agree = kind == "err"
        elif kind != "ok":
            agree = False
        else:
            arr = np.asarray(val)
            want = j["ok"]
            agree = NP[want["dtype"]] == str(arr.dtype) and len(arr) == len(want["values"]) and all(
                (bool(a) == b) if isinstance(b, bool) else Fraction(float(a)) == Fraction(b) if isinstance(b, str) else int(a) == b
                for a, b in zip(arr.tolist(), want["values"]))
        if not agree:
            bad.append({"op": op, "model": j, "code": [kind, str(val)[:200]]})
        # the property on the real wrapper: declared dtype, values = cast of the rule's results
        if kind == "ok" and decl is not None and len(rows):
            arr = np.asarray(val)
            if str(arr.dtype) != NP[decl]:
                run.hit({"node": "wrapper", "kind": "dtype-not-from-declaration"},
                        f"a rule declared -> {decl} produced a {arr.dtype} column for results {rows}",
                        {"declared": decl, "rows": [repr(x) for x in rows], "dtype": str(arr.dtype)})
            elif decl == "float" and not np.array_equal(arr, np.asarray([float(x) for x in rows])):
                run.hit({"node": "wrapper", "kind": "value-not-the-rule-result"},
                        f"float rule results {rows} became {arr.tolist()}", {"rows": [repr(x) for x in rows]})
    run.extra.setdefault("correspondence", {})["_vectorize_func vs VecDtype.vectorize"] = {"cases": len(cases), "disagreements": len(bad)}
    if bad:
        run.broke("correspondence", "_vectorize_func vs Core/VecDtype.lean", json.dumps(bad[0], default=str)[:1500])


def system_search(run, rnd, dates, n_pops):
    seen = {}
    for date in dates:
        params, functions = popgen.env(date)
        dag, fno = popgen.graph(date)
        rules = [n for n in popgen.computed_nodes(date) if n in functions
                 and not getattr(functions[n], "__info__", {}).get("skip_vectorization")]
        for k in range(n_pops + 2 * n_pops):
            # besides the mixed populations, tables of near-identical persons (finite-difference tables): nothing may be
            # shared between rows just because their inputs are almost equal
            df, kinds = popgen.near_copies(rnd, date) if k >= n_pops else popgen.population(rnd, date)
            # rows whose first element takes an integer-literal branch are the classic trap: rotate
            ok, res = run.attempt(f"simulate(rounding=False) at {date}", popgen.simulate_all, df, date, rounding=False,
                                  replay={"date": date, "data": popgen.frame_to_json(df)})
            if not ok:
                continue
            cols = {c: res[c].to_numpy() for c in res.columns}
            # pandas stores dates as datetime64[s]; the rules exchange datetime64[D] arrays
            cols = {c: (v.astype("datetime64[D]") if v.dtype.kind == "M" else v) for c, v in cols.items()}
            n = len(df)
            for name in rules:
                f = functions[name]
                args = list(inspect.signature(f).parameters)
                decl = DT.get(f.__annotations__.get("return"))
                kw_fixed = {a: params[a[:-7]] for a in args if a.endswith("_params")}
                free = [a for a in args if not a.endswith("_params")]
                if any(a not in cols for a in free):
                    continue
                vals = []
                try:
                    for i in range(n):
                        vals.append(f(**{a: cols[a][i].item() if cols[a].dtype.kind in "biuf" else cols[a][i] for a in free}, **kw_fixed))
                except Exception as e:  # noqa: BLE001
                    run.extra.setdefault("rules_not_recomputed", {})[name] = f"{type(e).__name__}: {e}"[:120]
                    continue
                run.case({"rule": name, "date": date, "pop": k, "vals": [repr(v) for v in vals[:40]]})
                seen[name] = seen.get(name, 0) + 1
                col = cols[name]
                if not free:
                    col = np.broadcast_to(col, (n,))
                if decl is not None and free and str(np.asarray(col).dtype) != NP[decl]:
                    run.hit({"node": name, "kind": "dtype-not-from-declaration"},
                            f"{name} is declared -> {decl} but its column at {date} has dtype {np.asarray(col).dtype}",
                            {"date": date, "data": popgen.frame_to_json(df), "node": name})
                    continue
                for i, (c, v) in enumerate(zip(col, vals)):
                    if not isinstance(v, (bool, int, float, np.bool_, np.integer, np.floating)):
                        same = np.asarray(c) == np.asarray(v).astype(np.asarray(c).dtype) if hasattr(np.asarray(v), "astype") else True
                        same = bool(np.all(same))
                        if not same:
                            run.hit({"node": name, "kind": "value-not-the-rule-result"},
                                    f"{name} at {date}, row {i}: column {c!r}, rule {v!r}", {"date": date, "node": name})
                            break
                        continue
                    same = (bool(c) == bool(v)) if isinstance(v, (bool, np.bool_)) and decl == "bool" else \
                        (float(c) == float(v) or (float(c) != float(c) and float(v) != float(v)))
                    if not same:
                        run.hit({"node": name, "kind": "value-not-the-rule-result"},
                                f"{name} at {date}, row {i}: the column holds {c!r}, the rule returns {v!r} for that row's inputs "
                                f"(declared -> {decl})",
                                {"date": date, "data": popgen.frame_to_json(df), "node": name, "row": i,
                                 "observed": repr(c), "expected": repr(v)})
                        break
    run.extra["rules_compared_row_by_row"] = len(seen)


# ---------------------------------------------------------------------------------
# static: verified result-kind analysis (Core/TypeInfer.lean, Props/C03Types.lean)
# ---------------------------------------------------------------------------------

# Rules the analysis cannot certify on the unchanged tree, with the reason.  They index a parameter table by a value
# computed from the data (`params["…"][geburtsjahr]`-style); the analysis then has to assume that ANY component of that
# table (a string, a sub-table) can come out.  They rest on the row-by-row search below.
KINDS_IMPRECISE = {
    "_ges_rente_arbeitsl_altersgrenze_ohne_vertrauensschutzprüfung": "data-dependent subscript into a parameter table",
    "_ges_rente_arbeitsl_altersgrenze_mit_vertrauensschutzprüfung": "data-dependent subscript into a parameter table",
    "_unterhaltsvors_anspruch_kind_m_anwendungsvors": "data-dependent subscript into a parameter table",
}

ACCEPT = {"float": {"int", "flt", "bool", "inf"}, "int": {"int", "bool"}, "bool": {"bool"}}


def _py_kind(v):
    from fractions import Fraction
    if isinstance(v, (bool, np.bool_)):
        return "bool"
    if isinstance(v, (int, np.integer)):
        return "int"
    if isinstance(v, (Fraction, np.floating)):
        return "flt"
    if isinstance(v, float):
        return "inf" if v in (float("inf"), float("-inf")) else "flt"
    if v is None:
        return "none"
    if isinstance(v, str):
        return "str"
    return "tree"


def static_kinds(run, rnd, dates, rows_per_rule):
    """One obligation per (rule, date): the cast of every possible result to the declared dtype is lossless
    (`declared_cast_lossless`, `declared_column_lossless`).  A rule that is not certified and is not one of the documented
    imprecise ones breaks the obligation; the rule's own source is then executed on exact rationals at branch-covering
    inputs to find a row whose result kind the declared type does not hold."""
    import kinds
    import paramsio
    import t1
    import datetime
    summary = {}
    for date in dates:
        try:
            res, outside = kinds.result_kinds(date)
        except Exception as ex:  # noqa: BLE001
            run.broke("build", f"result-kind analysis at {date}", str(ex)[:500])
            continue
        cert = 0
        notcert = []
        for e, decl, j in res:
            name = e["fname"]
            run.case({"kinds": name, "date": date, "res": j.get("kinds")})
            if "bad" in j or decl not in ACCEPT:
                run.extra.setdefault("kinds_not_analysed", {})[name] = str(j.get("bad", f"declared {decl}"))[:200]
                continue
            if j.get("lossless") is True:
                cert += 1
                run.oblige(f"result kinds of {name} fit its declared type ({date})", True)
                continue
            notcert.append(name)
            if name in KINDS_IMPRECISE:
                continue
            run.oblige(f"result kinds of {name} fit its declared type ({date})", False,
                       f"declared -> {decl}, possible result kinds {j.get('kinds')}")
            run.broke("obligation", f"result kinds of {name} at {date}: declared -> {decl}, the verified analysis finds possible "
                      f"result kinds {j.get('kinds')} (falls off the end: {j.get('falls_off')})", json.dumps(j))
            # failing-input search: the repo's source of the rule on exact rationals
            o = datetime.date.fromisoformat(date).toordinal()
            params_py = t1.py_params(paramsio.model_envs([o])[0][1])
            f, _, _ = t1.exact_function(e)
            free, rows = t1.sample_rows(rnd, e, params_py, rows_per_rule)
            for row in rows:
                kw = dict(zip(free, row))
                for a in e["args"]:
                    if a.endswith("_params"):
                        kw[a] = params_py[a[:-7]]
                try:
                    v = f(**kw)
                except Exception:  # noqa: BLE001
                    continue
                k = _py_kind(v)
                lossy = k not in ACCEPT[decl] or (decl == "int" and k == "flt")
                if lossy:
                    run.hit({"node": name, "kind": "result-kind-not-declared"},
                            f"{name} (declared -> {decl}) returns {v!r} (a {k}) for {{{', '.join(f'{a}={x}' for a, x in zip(free, row))}}} "
                            f"at {date}: the cast to the declared dtype changes or rejects the value",
                            {"date": date, "node": name, "args": {a: str(x) for a, x in zip(free, row)}, "result": repr(v)})
                    break
        summary[date] = {"rules_analysed": len(res), "certified_lossless": cert, "not_certified": sorted(notcert),
                         "outside_the_modelled_fragment": len(outside)}
    run.extra["static_result_kinds"] = summary
    run.extra["static_result_kinds_documented_imprecise"] = KINDS_IMPRECISE


def run(tier: str) -> int:
    r = common.Run("C03", tier)
    quick = tier == "quick"
    r.rule = ("T2: the real _vectorize_func on rules returning prescribed mixed bool/int/float result sequences (incl. empty "
              "input) with and without declared type vs the Lean model (dtype and values exactly); search: every scalar rule of "
              "the default graph at the sampled dates, production column (rounding off) vs the rule called row by row on its "
              "parents' columns — exact equality and dtype = declared type. distinct = distinct result sequences / (rule, date, population).")
    common.build_and_audit(r, ["C03", "C03Types", "C03Sim"], leanchecker=not quick)
    rnd = common.rng("C03")
    wrapper_correspondence(r, rnd, 300 if quick else 5000)
    static_kinds(r, rnd, popgen.DATES_QUICK + ["2015-01-01"] if quick else popgen.DATES_2015 + ["2005-01-01", "2010-01-01"], 40 if quick else 200)
    system_search(r, rnd, popgen.DATES_QUICK if quick else popgen.DATES_2015, 2 if quick else 10)
    r.sample({"rows": [0, 0.75, 1.25], "declared": "float", "column": [0.0, 0.75, 1.25], "dtype": "float64"})
    return r.finish()


def replay(path: str) -> int:
    d = json.load(open(path))
    print(json.dumps({k: v for k, v in d.items() if k != "data"}, ensure_ascii=False)[:1500])
    return 1
