"""T2 correspondence plumbing: real primitive (in-process) vs. Lean model (driver).

A *case* is `(op_json, real_thunk)`: the JSON goes to the Lean driver, the thunk calls
the real function.  Both results are canonicalised to `("ok", value)` / `("err", kind)`
and compared by a comparator chosen per op.
"""

from __future__ import annotations

import json
from fractions import Fraction

import numpy as np

import common

ERRMAP = {
    "TypeError": "TypeError", "ValueError": "ValueError", "KeyError": "KeyError",
    "NameError": "NameError", "UnboundLocalError": "NameError",
    "ZeroDivisionError": "ZeroDivisionError", "NotImplementedError": "NotImplementedError",
    "IndexError": "ShapeError",
}


def frac(x) -> Fraction:
    if isinstance(x, (bool, np.bool_)):
        return Fraction(int(x))
    if isinstance(x, (int, np.integer)):
        return Fraction(int(x))
    if isinstance(x, Fraction):
        return x
    return Fraction(float(x))  # exact value of the float


def fstr(q) -> str:
    q = frac(q)
    return str(q.numerator) if q.denominator == 1 else f"{q.numerator}/{q.denominator}"


def parse_rat(s) -> Fraction:
    if isinstance(s, (int, float)):
        return Fraction(s)
    return Fraction(s)


def real_call(thunk):
    try:
        return ("ok", thunk())
    except Exception as e:  # noqa: BLE001
        name = type(e).__name__
        msg = str(e)
        kind = ERRMAP.get(name)
        if kind is None:
            for base in type(e).__mro__:
                if base.__name__ in ERRMAP:
                    kind = ERRMAP[base.__name__]
                    break
        if name == "ValueError" and ("shape" in msg or "broadcast" in msg or "same length" in msg
                                     or "must be the same" in msg or "mismatch" in msg):
            kind = "ShapeError"
        return ("err", kind or name)


def model_results(ops: list[dict]) -> list:
    lines = [json.dumps(o, ensure_ascii=False) for o in ops]
    outs = common.driver(lines)
    res = []
    for o in outs:
        j = json.loads(o)
        if "ok" in j:
            res.append(("ok", j["ok"]))
        elif "err" in j:
            res.append(("err", j["err"]))
        else:
            raise RuntimeError(f"driver rejected an operation: {o}")
    return res


def eq_exact_rats(real, model) -> bool:
    real = list(real)
    return len(real) == len(model) and all(frac(a) == parse_rat(b) for a, b in zip(real, model))


def eq_close_rats(real, model, rel=2.0**-40) -> bool:
    real = list(real)
    if len(real) != len(model):
        return False
    for a, b in zip(real, model):
        a = float(a)
        b = float(parse_rat(b))
        if abs(a - b) > rel * max(1.0, abs(a), abs(b)):
            return False
    return True


def eq_bools(real, model) -> bool:
    return [bool(x) for x in real] == [bool(x) for x in model]


def eq_ints(real, model) -> bool:
    return [int(x) for x in real] == [int(x) for x in model]


def eq_partition(real, model) -> bool:
    from popgen import same_partition
    real = [int(x) for x in real]
    return len(real) == len(model) and same_partition(real, [int(x) for x in model])


def run_cases(run: common.Run, name: str, cases: list[tuple[dict, object, object]],
              shrink=None) -> list[dict]:
    """cases: (op_json, real_thunk, comparator).  Returns the disagreements."""
    ops = [c[0] for c in cases]
    model = model_results(ops)
    bad = []
    kinds = {}
    for (op, thunk, cmp), m in zip(cases, model):
        r = real_call(thunk)
        run.case(op)
        run.traces += 1
        kinds[m[0] if m[0] == "ok" else m[1]] = kinds.get(m[0] if m[0] == "ok" else m[1], 0) + 1
        def canon_err(k):  # numpy reports shape problems as ValueError / IndexError
            return "ValueError" if k == "ShapeError" else k
        agree = (r[0] == m[0]) and (cmp(r[1], m[1]) if r[0] == "ok"
                                    else canon_err(r[1]) == canon_err(m[1]))
        if not agree:
            rv = r[1]
            if r[0] == "ok":
                rv = [fstr(x) if not isinstance(x, (bool, np.bool_)) else bool(x) for x in list(r[1])]
            bad.append({"op": op, "real": [r[0], rv], "model": list(m)})
    run.extra.setdefault("correspondence", {})[name] = {
        "cases": len(cases), "disagreements": len(bad), "outcome_kinds": kinds}
    if bad:
        smallest = min(bad, key=lambda b: len(json.dumps(b["op"])))
        run.broke("correspondence", name, json.dumps(smallest, ensure_ascii=False))
    return bad
