"""Shared infrastructure of the GETTSIM verification checks.

Everything here is deliberately small: paths, the single PRNG, evidence / replay /
known-findings handling, and the Lean side (regeneration, `lake build`, error
attribution, axiom audit, line-protocol driver).
"""

from __future__ import annotations

import fcntl
import hashlib
import json
import os
import random
import re
import subprocess
import sys
import time
import warnings
from pathlib import Path

VERIF = Path(__file__).resolve().parent.parent
REPO = Path(os.environ.get("GETTSIM_REPO", "/repo"))
LEAN = VERIF / "lean"
EVIDENCE = VERIF / "evidence"
REPLAYS = VERIF / "replays"
CORPUS = VERIF / "corpus"
PY = "/venv/bin/python"

ALLOWED_AXIOMS = {"propext", "Classical.choice", "Quot.sound"}
FORBIDDEN = re.compile(
    r"\bsorry\b|\badmit\b|^axiom |native_decide|bv_decide|implemented_by|\bunsafe |maxHeartbeats 0"
)

TRUSTED_BASE = [
    "Lean 4.33.0 kernel (lake build; thorough tier re-checks the .olean files with leanchecker)",
    "axioms allowed per theorem: propext, Classical.choice, Quot.sound (audited by #print axioms on every run; no native_decide / bv_decide / own axioms / sorry)",
    "tools/extract.py + tools/emit_lean.py (translator /repo source+YAML -> Lean; validated against the repo's own functions on exact rationals every run)",
    "correspondence harnesses (tools/corr_*.py, canonicalisation, generators) and the Lean line-protocol driver",
    "modelled, not verified: numpy, pandas, numpy_groupies, dags, PyYAML, astor, CPython semantics of the restricted rule style, IEEE-754 arithmetic (replaced by exact rationals in the model)",
]


def seed() -> int:
    try:
        return int(os.environ.get("VERIF_SEED", "0"))
    except ValueError:
        return 0


def rng(tag: str = "") -> random.Random:
    """One PRNG per purpose, all derived from VERIF_SEED."""
    h = hashlib.sha256(f"{seed()}/{tag}".encode()).digest()
    return random.Random(int.from_bytes(h[:8], "big"))


def quiet():
    warnings.filterwarnings("ignore")


def canon(obj) -> str:
    return json.dumps(obj, sort_keys=True, default=str, ensure_ascii=False)


def digest(obj) -> str:
    return hashlib.sha256(canon(obj).encode()).hexdigest()[:16]


# ---------------------------------------------------------------------------------
# Known findings
# ---------------------------------------------------------------------------------


def load_known_findings():
    p = VERIF / "known_findings.json"
    if not p.exists():
        return []
    return json.loads(p.read_text())["findings"]


def match_known(prop: str, key: dict):
    """A hit is attributed to a known finding only if its key matches exactly."""
    for f in load_known_findings():
        if f.get("status") != "known":
            continue
        if prop not in f["properties"]:
            continue
        if all(key.get(k) == v for k, v in f["key"].items()):
            return f
    return None


# ---------------------------------------------------------------------------------
# Result collection
# ---------------------------------------------------------------------------------


class Run:
    """Collects what one check did and writes evidence / replays / verdict."""

    def __init__(self, prop: str, tier: str):
        self.prop = prop
        self.tier = tier
        self.t0 = time.time()
        self.obligations: dict[str, bool] = {}
        self.obligation_notes: dict[str, str] = {}
        self.evaluations = 0
        self.distinct: set[str] = set()
        self.samples: list = []
        self.traces = 0
        self.violations: list[dict] = []
        self.known_hits: dict[str, str] = {}
        self.broken: list[dict] = []  # broken obligations / correspondences
        self.extra: dict = {}
        self.rule = ""
        self.checker_cmd = ""
        self.assumptions: list[str] = []

    # -- counting ------------------------------------------------------------------
    def case(self, obj=None, nontrivial=True, n=1):
        self.evaluations += n
        if obj is not None and nontrivial:
            self.distinct.add(digest(obj))

    def sample(self, obj, limit=6):
        if len(self.samples) < limit:
            self.samples.append(obj)

    def oblige(self, name: str, ok: bool, note: str = ""):
        self.obligations[name] = bool(ok) and self.obligations.get(name, True)
        if note:
            self.obligation_notes[name] = note

    # -- findings ------------------------------------------------------------------
    def hit(self, key: dict, what: str, replay: dict):
        """A concrete failing input on the real implementation."""
        k = match_known(self.prop, key)
        if k is not None:
            ident = canon(k["key"])
            if ident not in self.known_hits:
                self.known_hits[ident] = k["what"]
            return False
        ident = digest(key)
        if any(v["ident"] == ident for v in self.violations):
            return True
        REPLAYS.mkdir(exist_ok=True)
        path = REPLAYS / f"{self.prop}-{ident}.json"
        body = {"property": self.prop, "kind": "input", "key": key, "what": what,
                "seed": seed(), **replay}
        path.write_text(json.dumps(body, indent=1, default=str, ensure_ascii=False))
        self.violations.append({"ident": ident, "path": str(path.relative_to(VERIF)),
                                "what": what, "kind": "input"})
        return True

    def broke(self, kind: str, name: str, detail: str):
        """A proof obligation or a correspondence that no longer checks."""
        self.broken.append({"kind": kind, "name": name, "detail": detail[:4000]})

    def attempt(self, what: str, fn, *a, replay=None, **k):
        """Call the real system; an exception on an input it must handle is recorded as a
        broken exploration (the property is no longer shown to hold on that input)."""
        import traceback
        try:
            return True, fn(*a, **k)
        except Exception as e:  # noqa: BLE001
            tb = traceback.format_exc()
            self.broke("implementation-raises", f"{what}: {type(e).__name__}: {str(e)[:300]}", tb[-2500:])
            if replay is not None and not any(b.get("replay") for b in self.broken):
                self.broken[-1]["replay"] = replay
            return False, e

    # -- verdict -------------------------------------------------------------------
    def finish(self) -> int:
        # broken obligations/correspondences without a concrete failing input
        if self.broken and not self.violations:
            ident = digest([b["kind"] + b["name"] for b in self.broken])
            REPLAYS.mkdir(exist_ok=True)
            path = REPLAYS / f"{self.prop}-{ident}.json"
            path.write_text(json.dumps(
                {"property": self.prop, "kind": "obligation-or-correspondence",
                 "no_longer_checks": self.broken, "seed": seed(),
                 "note": "the failing-input search on the implementation found no input; "
                         "the property is no longer shown to hold"}, indent=1, ensure_ascii=False))
            self.violations.append({"ident": ident, "path": str(path.relative_to(VERIF)),
                                    "what": "; ".join(b["name"] for b in self.broken),
                                    "kind": "no-input"})
        for ident, what in self.known_hits.items():
            print(f"KNOWN-FINDING: property={self.prop} {what} key={ident}")
        for v in self.violations:
            tail = " no-failing-input-found" if v["kind"] == "no-input" else ""
            print(f"VIOLATION property={self.prop} replay={v['path']}{tail}")
            print(f"  what: {v['what'][:500]}")
        self.write_evidence()
        return 1 if self.violations else 0

    def write_evidence(self):
        EVIDENCE.mkdir(exist_ok=True)
        n_obl = len(self.obligations)
        n_dis = sum(1 for v in self.obligations.values() if v)
        cov = {
            "obligations": n_obl,
            "discharged": n_dis,
            "checker_cmd": self.checker_cmd or "cd lean && lake build",
            "trusted_base": TRUSTED_BASE,
            "evaluations": self.evaluations,
            "distinct_nontrivial": len(self.distinct),
            "rule": self.rule,
            "samples": self.samples or ["(none)"],
            "traces_validated_against_impl": self.traces,
            "obligation_list": {k: ("discharged" if v else "NOT discharged")
                                + (f" — {self.obligation_notes[k]}" if k in self.obligation_notes else "")
                                for k, v in sorted(self.obligations.items())},
            "broken": self.broken,
            "known_findings_seen": sorted(self.known_hits.values()),
            **self.extra,
        }
        ev = {
            "property_id": self.prop,
            "tier": self.tier,
            "seed": seed(),
            "level": "proof",
            "coverage": cov,
            "assumptions": self.assumptions,
            "wall_s": round(time.time() - self.t0, 2),
            "violations": len(self.violations),
        }
        (EVIDENCE / f"{self.prop}.json").write_text(
            json.dumps(ev, indent=1, default=str, ensure_ascii=False))


# ---------------------------------------------------------------------------------
# Lean side
# ---------------------------------------------------------------------------------


class LeanLock:
    """Inter-process lock around everything that writes under lean/ (re-entrant in-process)."""
    depth = 0
    handle = None

    def __enter__(self):
        if LeanLock.depth == 0:
            LeanLock.handle = open(LEAN / ".verif.lock", "w")
            fcntl.flock(LeanLock.handle, fcntl.LOCK_EX)
        LeanLock.depth += 1
        return self

    def __exit__(self, *a):
        LeanLock.depth -= 1
        if LeanLock.depth == 0:
            fcntl.flock(LeanLock.handle, fcntl.LOCK_UN)
            LeanLock.handle.close()


def write_if_changed(path: Path, text: str) -> bool:
    if path.exists() and path.read_text() == text:
        return False
    path.parent.mkdir(parents=True, exist_ok=True)
    path.write_text(text)
    return True


def _strip_comments(src: str) -> str:
    src = re.sub(r"/-.*?-/", lambda m: "\n" * m.group(0).count("\n"), src, flags=re.S)
    src = re.sub(r"--.*", "", src)
    return src


def theorem_names(lean_file: Path) -> list[tuple[str, int]]:
    """(name, line) of every `theorem` in a file (comments stripped)."""
    out = []
    src = _strip_comments(lean_file.read_text())
    ns: list[str] = []
    for i, line in enumerate(src.splitlines(), 1):
        m = re.match(r"\s*namespace\s+(\S+)", line)
        if m:
            ns.append(m.group(1))
        m = re.match(r"\s*end\s+(\S+)\s*$", line)
        if m and ns and ns[-1] == m.group(1):
            ns.pop()
        m = re.match(r"\s*(?:@\[[^\]]*\]\s*)?(?:protected\s+)?theorem\s+(\S+)", line)
        if m:
            out.append((".".join(ns + [m.group(1)]), i))
    return out


def forbidden_hits(files) -> list[str]:
    hits = []
    for f in files:
        src = _strip_comments(Path(f).read_text())
        for i, line in enumerate(src.splitlines(), 1):
            if FORBIDDEN.search(line):
                hits.append(f"{f}:{i}: {line.strip()}")
    return hits


def lake(args: list[str], timeout=1500) -> tuple[int, str]:
    """A build that exceeds the budget counts as failed (its theorems are not discharged), not as an infrastructure
    error: on the unchanged tree every module builds in well under two minutes."""
    with LeanLock():
        try:
            p = subprocess.run(["lake", *args], cwd=LEAN, capture_output=True, text=True,
                               timeout=timeout)
        except subprocess.TimeoutExpired as e:
            subprocess.run(["pkill", "-f", f"{LEAN}/GettsimVerif"], capture_output=True)
            out = (e.stdout or b"").decode(errors="replace") if isinstance(e.stdout, bytes) else (e.stdout or "")
            return 124, out + f"\nerror: lake {' '.join(args)} exceeded the time budget of {timeout} s"
    return p.returncode, p.stdout + p.stderr


def lean_file(path: Path, timeout=1500) -> tuple[int, str]:
    p = subprocess.run(["lake", "env", "lean", str(path)], cwd=LEAN, capture_output=True,
                       text=True, timeout=timeout)
    return p.returncode, p.stdout + p.stderr


ERR_RE = re.compile(r"error: (\S+?\.lean):(\d+):(\d+):\s*(.*)")


def build_and_audit(run: Run, props_modules: list[str], extra_modules: list[str] = (),
                    leanchecker: bool = False):
    """`lake build` the property modules, attribute errors to theorems, audit axioms.

    Every theorem of every Props module becomes one obligation; it is discharged iff
    the module elaborated and `#print axioms` lists only the allowed axioms.
    """
    missing = [m for m in props_modules
               if not (LEAN / "GettsimVerif" / "Props" / f"{m}.lean").exists()]
    for m in missing:
        run.broke("build", f"Props.{m}", "property theorem file is missing")
        run.oblige(f"Props.{m} exists", False)
    props_modules = [m for m in props_modules if m not in missing]
    if not props_modules:
        return False
    mods = [f"GettsimVerif.Props.{m}" for m in props_modules] + list(extra_modules)
    run.checker_cmd = "cd lean && lake build " + " ".join(mods) + \
        " && lake env lean GettsimVerif/Audit/<generated #print axioms file>"
    all_ok = True
    files = []
    for m in props_modules:
        rc, out = lake(["build", f"GettsimVerif.Props.{m}"])
        all_ok = all_ok and rc == 0
        errors: dict[str, list[tuple[int, str]]] = {}
        for mm in ERR_RE.finditer(out):
            errors.setdefault(mm.group(1), []).append((int(mm.group(2)), mm.group(4)))
        f = LEAN / "GettsimVerif" / "Props" / f"{m}.lean"
        files.append(f)
        thms = theorem_names(f)
        errs = []
        for path, lst in errors.items():
            if path.endswith(f"Props/{m}.lean"):
                errs += lst
        failed = set()
        for line, msg in errs:
            owner = None
            for name, l0 in thms:
                if l0 <= line:
                    owner = name
            if owner:
                failed.add(owner)
                run.broke("theorem", owner, msg)
            else:
                run.broke("build", f"Props.{m}", msg)
        dep_fail = rc != 0 and not errs
        if dep_fail:
            dep_msgs = [f"{p}:{l}: {msg}" for p, lst in errors.items() for l, msg in lst][:5]
            run.broke("build", f"Props.{m} (a dependency does not elaborate)",
                      "\n".join(dep_msgs) or out[-1500:])
        audit = audit_axioms(m, [n for n, _ in thms]) if rc == 0 else {}
        for name, _ in thms:
            if rc != 0:
                run.oblige(name, False, "proof no longer checks" if name in failed
                           else "module did not build; not audited")
                continue
            ax = audit.get(name)
            if ax is None:
                run.oblige(name, False, "not found by #print axioms")
                run.broke("audit", name, "theorem not found by #print axioms")
            elif not set(ax) <= ALLOWED_AXIOMS:
                run.oblige(name, False, f"axioms {ax}")
                run.broke("audit", name, f"depends on axioms {ax}")
            else:
                run.oblige(name, True, "axioms: " + (", ".join(ax) or "none"))
    rc = 0 if all_ok else 1
    # forbidden tokens anywhere in the hand-written Lean sources
    all_src = [p for p in (LEAN / "GettsimVerif").rglob("*.lean")
               if "Audit" not in p.parts]
    for h in forbidden_hits(all_src):
        run.broke("audit", "forbidden token", h)
        run.oblige("no-sorry-no-native_decide", False, h)
    run.oblige("no-sorry-no-native_decide", True)
    if leanchecker and rc == 0:
        with LeanLock():
            p = subprocess.run(["lake", "env", "leanchecker", *mods], cwd=LEAN,
                               capture_output=True, text=True, timeout=3000)
        run.oblige("leanchecker:" + ",".join(props_modules), p.returncode == 0,
                   (p.stdout + p.stderr)[-300:])
        if p.returncode != 0:
            run.broke("audit", "leanchecker", (p.stdout + p.stderr)[-1500:])
    return rc == 0


def audit_axioms(mod: str, names: list[str]) -> dict[str, list[str]]:
    path = LEAN / "GettsimVerif" / "Audit" / f"{mod}.lean"
    body = f"import GettsimVerif.Props.{mod}\n" + "".join(
        f"#print axioms {n}\n" for n in names)
    write_if_changed(path, body)
    rc, out = lean_file(path)
    res: dict[str, list[str]] = {}
    for m in re.finditer(r"^'([^\n]+?)' depends on axioms: \[([^\]]*)\]", out, flags=re.M):
        res[m.group(1)] = [a.strip() for a in m.group(2).replace("\n", " ").split(",") if a.strip()]
    for m in re.finditer(r"^'([^\n]+?)' does not depend on any axioms", out, flags=re.M):
        res[m.group(1)] = []
    # names may be reported fully qualified; map back by suffix
    final = {}
    for n in names:
        for k, v in res.items():
            if k == n or k.endswith("." + n) or n.endswith("." + k):
                final[n] = v
    return final


_DRIVER_READY = False


def ensure_driver():
    global _DRIVER_READY
    if not _DRIVER_READY:
        rc, out = lake(["build", "GettsimVerif.DriverOps"])
        if rc != 0:
            raise RuntimeError("Lean driver does not build:\n" + out[-3000:])
        _DRIVER_READY = True


def driver(lines: list[str], timeout=1200, build=True) -> list[str]:
    """Pipe operations to the Lean model driver; one output line per input line."""
    if build:
        ensure_driver()
    p = subprocess.run(["lake", "env", "lean", "--run", "Driver.lean"], cwd=LEAN,
                       input="\n".join(lines) + "\n", capture_output=True, text=True,
                       timeout=timeout)
    if p.returncode != 0:
        raise RuntimeError("Lean driver failed:\n" + (p.stdout + p.stderr)[-3000:])
    outl = p.stdout.splitlines()
    if len(outl) != len(lines):
        raise RuntimeError(f"driver returned {len(outl)} lines for {len(lines)} ops:\n"
                           + p.stdout[-1500:] + p.stderr[-1500:])
    return outl


def main_wrapper(fn):
    """Exit codes: 0 held / known findings only, 1 violation, 2 infrastructure error."""
    try:
        rc = fn()
    except subprocess.TimeoutExpired as e:
        print(f"INFRA-ERROR timeout: {e}", file=sys.stderr)
        sys.exit(2)
    sys.exit(rc)
