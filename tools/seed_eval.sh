#!/bin/bash
# tools/seed_eval.sh <seed-id> <property> "<checks to run, e.g. C11 C01>" [dir with patch.diff demo.py notes.md] : confirm a seeded change and run the checks on it.
set -u
ID=$1; PROP=$2; CHECKS=$3
SRC=${4:-/tmp/seed/$ID/OUT}
SRCWT=$(dirname $SRC)/wt
DST=/verif/seeded/$ID
mkdir -p $DST
cp $SRC/patch.diff $DST/patch.diff; cp $SRC/demo.py $DST/demo.py; cp $SRC/notes.md $DST/notes.md 2>/dev/null
sed -i "s#$SRC#/verif/seeded/$ID#g; s#$SRCWT#<tree>#g" $DST/notes.md $DST/demo.py 2>/dev/null
WT=/tmp/seedcheck/$ID
rm -rf $WT; git -C /repo worktree prune; git -C /repo worktree add -q $WT HEAD
cd $WT
PYTHONPATH=$WT/src /venv/bin/python $DST/demo.py > /tmp/seedcheck/$ID.pristine.log 2>&1; P=$?
git apply $DST/patch.diff || { echo "PATCH DOES NOT APPLY"; }
PYTHONPATH=$WT/src /venv/bin/python $DST/demo.py > /tmp/seedcheck/$ID.patched.log 2>&1; Q=$?
SUITE=$(PYTHONPATH=$WT/src /venv/bin/python -m pytest -q -p no:cacheprovider src/_gettsim_tests -n 14 2>&1 | tail -1)
cd /verif
git -C /repo worktree remove --force $WT
echo "demo pristine exit=$P patched exit=$Q suite: $SUITE"
# run the checks against the change applied to /repo
git -C /repo apply $DST/patch.diff
RES=""
for c in $CHECKS; do
  OUT=$(./check $c --tier quick 2>&1 | grep -v conda); RC=$?
  N=$(echo "$OUT" | grep -c "^VIOLATION")
  FIRST=$(echo "$OUT" | grep -A1 "^VIOLATION" | head -2 | tr '\n' ' ' | cut -c1-400)
  echo "check $c: violations=$N :: $FIRST"
  RES="$RES{\"check\":\"$c\",\"violation_lines\":$N,\"first\":$(python3 -c "import json,sys;print(json.dumps(sys.argv[1]))" "$FIRST")},"
done
git -C /repo checkout -- . ; git -C /repo status --short | head -3
python3 - "$ID" "$PROP" "$P" "$Q" "$SUITE" "[${RES%,}]" <<'PY'
import json,sys
i,prop,p,q,suite,res=sys.argv[1:7]
notes=open(f'/verif/seeded/{i}/notes.md').read() if __import__('os').path.exists(f'/verif/seeded/{i}/notes.md') else ''
json.dump({"id":i,"breaks_property":prop,"needs_to_manifest":notes[:1500],
 "confirmed":{"demo_exit_on_pristine_tree":int(p),"demo_exit_with_change":int(q),"test_suite_with_change":suite,
   "how":"scratch worktree of /repo HEAD: demo.py on the pristine tree, git apply patch.diff, demo.py again, full suite with -n 14"},
 "checks_run_on_the_change":json.loads(res)},open(f'/verif/seeded/{i}/meta.json','w'),indent=1,ensure_ascii=False)
PY
