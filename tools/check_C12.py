"""C12 — derived units (marriage, tax, family, needs, housing) partition correctly."""

from __future__ import annotations

import itertools
import json

import numpy as np

import common
import corr
import popgen

# ---------------------------------------------------------------------------------
# independent reference: the unit definitions as connected components
# ---------------------------------------------------------------------------------


def components(n, edges):
    parent = list(range(n))

    def find(x):
        while parent[x] != x:
            parent[x] = parent[parent[x]]
            x = parent[x]
        return x

    for a, b in edges:
        parent[find(a)] = find(b)
    return [find(i) for i in range(n)]


def ref_units(P):
    """P: list of dicts with p_id, hh_id, alter, partner, spouse, e1, e2, gv, eigen."""
    n = len(P)
    idx = {p["p_id"]: i for i, p in enumerate(P)}
    has_children = {i: False for i in range(n)}
    for p in P:
        for k in ("e1", "e2"):
            if p[k] >= 0:
                has_children[idx[p[k]]] = True
    eg = components(n, [(i, idx[p["partner"]]) for i, p in enumerate(P) if p["partner"] >= 0])
    ehe = components(n, [(i, idx[p["spouse"]]) for i, p in enumerate(P) if p["spouse"] >= 0])
    sn = components(n, [(i, idx[p["spouse"]]) for i, p in enumerate(P) if p["spouse"] >= 0 and p["gv"]])
    fg_edges = [(i, idx[p["partner"]]) for i, p in enumerate(P) if p["partner"] >= 0]
    dependent = []
    for i, p in enumerate(P):
        co = [idx[p[k]] for k in ("e1", "e2") if p[k] >= 0 and P[idx[p[k]]]["hh_id"] == p["hh_id"]]
        dep = bool(co) and p["alter"] < 25 and not has_children[i]
        dependent.append(dep)
        if dep:
            fg_edges += [(i, j) for j in co]
    fg = components(n, fg_edges)
    bg = []
    for i, p in enumerate(P):
        bg.append(("own", i) if p["alter"] < 25 and p["eigen"] else ("fg", fg[i]))
    return {"eg": eg, "ehe": ehe, "sn": sn, "fg": fg, "bg": bg, "dependent": dependent}


def valid(P):
    """V1–V7, V10 of DESIGN §4 on the pointer structure."""
    idx = {p["p_id"]: i for i, p in enumerate(P)}
    if len(idx) != len(P):
        return False
    has_children = set()
    for p in P:
        for k in ("partner", "spouse", "e1", "e2"):
            if p[k] >= 0 and (p[k] not in idx or p[k] == p["p_id"]):
                return False
        for k in ("e1", "e2"):
            if p[k] >= 0:
                has_children.add(p[k])
        if p["e1"] >= 0 and p["e1"] == p["e2"]:
            return False
    for p in P:
        for k in ("partner", "spouse"):
            if p[k] >= 0:
                q = P[idx[p[k]]]
                if q[k] != p["p_id"] or q["hh_id"] != p["hh_id"]:
                    return False
        if p["spouse"] >= 0 and P[idx[p["spouse"]]]["gv"] != p["gv"]:
            return False
        if p["spouse"] >= 0 and p["partner"] != p["spouse"]:
            return False
        for k in ("e1", "e2"):
            if p[k] >= 0 and P[idx[p[k]]]["alter"] < p["alter"] + 14:
                return False
        co = [P[idx[p[k]]] for k in ("e1", "e2") if p[k] >= 0 and P[idx[p[k]]]["hh_id"] == p["hh_id"]]
        dep = bool(co) and p["alter"] < 25 and p["p_id"] not in has_children
        if dep:
            if p["partner"] >= 0:
                return False
            if len(co) == 2 and co[0]["partner"] != co[1]["p_id"]:
                return False
        if p["eigen"] and not dep:
            return False
        if p["partner"] >= 0 and p["alter"] < 16:
            return False
    return True


def run_real(P, order):
    from _gettsim import groupings as G

    Q = [P[i] for i in order]
    a = lambda k, dt="int64": np.asarray([q[k] for q in Q], dtype=dt)  # noqa: E731
    out = {}
    out["eg"] = G.eg_id_numpy(a("p_id"), a("partner"))
    out["ehe"] = G.ehe_id_numpy(a("p_id"), a("spouse"))
    out["sn"] = G.sn_id_numpy(a("p_id"), a("spouse"), a("gv", bool))
    out["fg"] = G.fg_id_numpy(a("p_id"), a("hh_id"), a("alter"), a("partner"), a("e1"), a("e2"))
    out["bg"] = G.bg_id_numpy(out["fg"], a("alter"), a("eigen", bool))
    return {k: [int(x) for x in v] for k, v in out.items()}, Q


def check_structure(run, P, orders, tag):
    ref = ref_units(P)
    for order in orders:
        try:
            got, Q = run_real(P, order)
        except Exception as e:  # noqa: BLE001
            run.hit({"unit": "any", "kind": "raises-on-valid-structure", "exc": type(e).__name__},
                    f"grouping raised {type(e).__name__} on a valid structure: {e}",
                    {"persons": P, "order": list(order)})
            continue
        run.case({"P": P, "order": list(order)})
        for unit in ("eg", "ehe", "sn", "fg", "bg"):
            r = [ref[unit][i] for i in order]
            if not popgen.same_partition(got[unit], r):
                run.hit({"unit": unit, "kind": "partition-differs-from-definition"},
                        f"{unit}_id does not induce the partition its definition prescribes ({tag})",
                        {"persons": P, "order": list(order), "observed": got[unit],
                         "expected_partition": [str(x) for x in r]})
        # nesting and no collisions across households
        hh = [q["hh_id"] for q in Q]
        for fine, coarse in (("bg", "fg"), ("eg", "fg"), ("sn", "ehe")):
            m = {}
            for f, c in zip(got[fine], got[coarse]):
                if m.setdefault(f, c) != c:
                    run.hit({"unit": fine, "kind": f"not-nested-in-{coarse}"},
                            f"{fine} unit straddles two {coarse} units ({tag})",
                            {"persons": P, "order": list(order), "observed": got})
        m = {}
        for f, h in zip(got["fg"], hh):
            if m.setdefault(f, h) != h:
                run.hit({"unit": "fg", "kind": "collides-across-households"},
                        f"one fg_id in two households ({tag})",
                        {"persons": P, "order": list(order), "observed": got})


def person(pid, hh=0, alter=30, partner=-1, spouse=-1, e1=-1, e2=-1, gv=False, eigen=False):
    return {"p_id": pid, "hh_id": hh, "alter": alter, "partner": partner, "spouse": spouse,
            "e1": e1, "e2": e2, "gv": gv, "eigen": eigen}


def enumerate_structures(n, rnd=None, cap=None):
    """All valid structures of n persons over small domains (ages, ≤2 households)."""
    ages = [5, 20, 40, 70]
    pids = list(range(n))
    matchings = [[]]
    pairs = list(itertools.combinations(pids, 2))
    for k in range(1, n // 2 + 1):
        for combo in itertools.combinations(pairs, k):
            flat = [x for pr in combo for x in pr]
            if len(set(flat)) == len(flat):
                matchings.append(list(combo))
    parent_opts = [(-1, -1)] + [(a, -1) for a in pids] + [(a, b) for a in pids for b in pids if a != b]
    out = []
    hh_opts = [tuple([0] * n)] + ([tuple([0] * (n - 1) + [1])] if n > 1 else [])
    count = 0
    for ag in itertools.product(ages, repeat=n):
        for mt in matchings:
            for married in itertools.product([False, True], repeat=len(mt)):
                for hh in hh_opts:
                    base = [person(i, hh[i], ag[i]) for i in range(n)]
                    for (a, b), mar in zip(mt, married):
                        base[a]["partner"], base[b]["partner"] = b, a
                        if mar:
                            base[a]["spouse"], base[b]["spouse"] = b, a
                            base[a]["gv"] = base[b]["gv"] = (a + b) % 2 == 0
                    kids = [i for i in range(n) if ag[i] < 40]
                    for par in itertools.product(parent_opts, repeat=len(kids)):
                        P = [dict(p) for p in base]
                        for i, (e1, e2) in zip(kids, par):
                            P[i]["e1"], P[i]["e2"] = e1, e2
                        if not valid(P):
                            continue
                        count += 1
                        out.append(P)
                        # variant with self-sufficient dependent children
                        ref = ref_units(P)
                        if any(ref["dependent"]):
                            P2 = [dict(p) for p in P]
                            for i, d in enumerate(ref["dependent"]):
                                if d:
                                    P2[i]["eigen"] = True
                            out.append(P2)
    if cap and len(out) > cap and rnd is not None:
        out = rnd.sample(out, cap)
    return out


def random_structure(rnd):
    df, kinds = popgen.population(rnd, "2023-07-01", n_clusters=rnd.randint(1, 4))
    P = []
    for _, r in df.iterrows():
        P.append(person(int(r.p_id), int(r.hh_id), int(r.alter), int(r.p_id_einstandspartner),
                        int(r.p_id_ehepartner), int(r.p_id_elternteil_1), int(r.p_id_elternteil_2),
                        bool(r.gemeinsam_veranlagt), bool(r.eigenbedarf_gedeckt)))
    return P, kinds


# ---------------------------------------------------------------------------------
# T2: real id constructors vs. Lean models (exact ids, also on invalid structures)
# ---------------------------------------------------------------------------------


def t2_cases(rnd, n_cases):
    from _gettsim import groupings as G

    cases = []
    fg_variant_ops = []
    for _ in range(n_cases):
        n = rnd.randint(1, 7)
        pid = rnd.sample(range(0, 3 * n + 3), n)
        if rnd.random() < 0.1 and n > 1:
            pid[0] = pid[1]  # duplicate p_id (invalid)
        ptr = lambda p=0.5: [rnd.choice(pid) if rnd.random() < p else -1 for _ in range(n)]  # noqa: E731
        partner = ptr()
        # make most partner pointers symmetric
        if rnd.random() < 0.8:
            partner = [-1] * n
            free = list(range(n))
            rnd.shuffle(free)
            while len(free) > 1 and rnd.random() < 0.7:
                a, b = free.pop(), free.pop()
                partner[a], partner[b] = pid[b], pid[a]
        gv = [rnd.random() < 0.5 for _ in range(n)]
        if rnd.random() < 0.7:
            for i in range(n):
                if partner[i] >= 0 and partner[i] in pid:
                    gv[i] = gv[pid.index(partner[i])] = gv[i]
        hh = [rnd.randint(0, 2) for _ in range(n)]
        alter = [rnd.choice([3, 17, 24, 25, 40, 70]) for _ in range(n)]
        e1, e2 = ptr(0.4), ptr(0.2)
        eigen = [rnd.random() < 0.3 for _ in range(n)]
        A = lambda x, dt="int64": np.asarray(x, dtype=dt)  # noqa: E731
        cases.append(({"op": "pair_id", "p_id": pid, "partner": partner},
                      (lambda pid=pid, partner=partner: G.eg_id_numpy(A(pid), A(partner))), corr.eq_ints))
        cases.append(({"op": "pair_id", "p_id": pid, "partner": partner},
                      (lambda pid=pid, partner=partner: G.ehe_id_numpy(A(pid), A(partner))), corr.eq_ints))
        cases.append(({"op": "sn_id", "p_id": pid, "partner": partner, "gv": gv},
                      (lambda pid=pid, partner=partner, gv=gv: G.sn_id_numpy(A(pid), A(partner), A(gv, bool))),
                      corr.eq_ints))
        fgid = [rnd.randint(0, 3) for _ in range(n)]
        cases.append(({"op": "bg_id", "fg_id": fgid, "alter": alter, "eigen": eigen},
                      (lambda fgid=fgid, alter=alter, eigen=eigen: G.bg_id_numpy(A(fgid), A(alter), A(eigen, bool))),
                      corr.eq_ints))
        v1 = [rnd.random() < 0.4 for _ in range(n)]
        v2 = [rnd.random() < 0.3 for _ in range(n)]
        cases.append(({"op": "wthh_id", "hh_id": hh, "v1": v1, "v2": v2},
                      (lambda hh=hh, v1=v1, v2=v2: G.wthh_id_numpy(A(hh), A(v1, bool), A(v2, bool))), corr.eq_ints))
        base = {"op": "fg_id", "p_id": pid, "hh_id": hh, "alter": alter, "partner": partner,
                "e1": e1, "e2": e2}
        thunk = (lambda pid=pid, hh=hh, alter=alter, partner=partner, e1=e1, e2=e2:
                 G.fg_id_numpy(A(pid), A(hh), A(alter), A(partner), A(e1), A(e2)))
        fg_variant_ops.append((base, thunk))
    return cases, fg_variant_ops


def fg_correspondence(run, fg_ops):
    """Which of the two model variants (as written / repaired, finding 6.3) is the code?"""
    res = {}
    for variant in (True, False):
        cases = [({**op, "repaired": variant}, th, corr.eq_ints) for op, th in fg_ops]
        sub = common.Run("C12", "quick")
        bad = corr.run_cases(sub, f"fg_id_numpy vs Core/Groupings.fgId repaired={variant}", cases)
        res[variant] = (len(bad), sub.broken)
        run.evaluations += sub.evaluations
        run.distinct |= sub.distinct
        run.traces += sub.traces
    run.extra.setdefault("correspondence", {})["fg_id_numpy"] = {
        "disagreements_with_repaired_model": res[True][0],
        "disagreements_with_unrepaired_model": res[False][0], "cases": len(fg_ops)}
    if res[True][0] == 0:
        run.extra["fg_model_variant"] = "repaired (fgId true): the full specification theorem applies"
    elif res[False][0] == 0:
        run.extra["fg_model_variant"] = "unrepaired (fgId false): only fg_spec_partial applies"
        run.broke("correspondence", "fg_id_numpy vs Core/Groupings.fgId true (the model the fg specification theorems are about)",
                  res[True][1][0]["detail"] if res[True][1] else "")
    else:
        run.extra["fg_model_variant"] = "neither"
        run.broke("correspondence", "fg_id_numpy vs Core/Groupings.fgId (both variants)",
                  (res[True][1] or res[False][1])[0]["detail"])


def system_search(run, rnd, dates, n):
    """The ids as the real system computes them (incl. wthh_id from the priority flags)."""
    for date in dates:
        for _ in range(n):
            df, kinds = popgen.population(rnd, date)
            try:
                res = popgen.simulate(df, date, targets=["fg_id", "bg_id", "eg_id", "ehe_id", "sn_id", "wthh_id",
                                                         "wohngeld_vorrang_bg", "wohngeld_kinderzuschl_vorrang_bg"])
            except Exception as e:  # noqa: BLE001
                run.hit({"unit": "any", "kind": "raises-on-valid-structure", "exc": type(e).__name__},
                        f"simulation of the id columns raised {type(e).__name__}: {e}",
                        {"date": date, "data": popgen.frame_to_json(df)})
                continue
            P = [person(int(r.p_id), int(r.hh_id), int(r.alter), int(r.p_id_einstandspartner),
                        int(r.p_id_ehepartner), int(r.p_id_elternteil_1), int(r.p_id_elternteil_2),
                        bool(r.gemeinsam_veranlagt), bool(r.eigenbedarf_gedeckt)) for _, r in df.iterrows()]
            ref = ref_units(P)
            run.case({"date": date, "kinds": kinds, "P": P})
            for unit in ("eg", "ehe", "sn", "fg", "bg"):
                if not popgen.same_partition(res[f"{unit}_id"].tolist(), ref[unit]):
                    run.hit({"unit": unit, "kind": "partition-differs-from-definition"},
                            f"{unit}_id of the real system differs from its definition at {date} ({kinds})",
                            {"date": date, "data": popgen.frame_to_json(df),
                             "observed": res[f"{unit}_id"].tolist(), "expected_partition": [str(x) for x in ref[unit]]})
            flag = (res["wohngeld_vorrang_bg"] | res["wohngeld_kinderzuschl_vorrang_bg"]).tolist()
            expw = [(h, f) for h, f in zip(df["hh_id"].tolist(), flag)]
            if not popgen.same_partition(res["wthh_id"].tolist(), expw):
                run.hit({"unit": "wthh", "kind": "partition-differs-from-definition"},
                        f"wthh_id does not split households by the priority check at {date}",
                        {"date": date, "data": popgen.frame_to_json(df), "observed": res["wthh_id"].tolist()})
            m = {}
            for b, w in zip(res["bg_id"].tolist(), res["wthh_id"].tolist()):
                if m.setdefault(b, w) != w:
                    run.hit({"unit": "bg", "kind": "not-nested-in-wthh"},
                            f"a Bedarfsgemeinschaft is split across Wohngeld part-households at {date}",
                            {"date": date, "data": popgen.frame_to_json(df)})


def run(tier: str) -> int:
    r = common.Run("C12", tier)
    quick = tier == "quick"
    r.rule = ("exhaustive: all valid pointer structures over ages {5,20,40,70}, ≤2 households, every "
              "matching/marriage/parent assignment, exhaustive for n ≤ 3, 15 000 of the ~69 000 structures of n = 4 and 3 000 of n = 5 (thorough), "
              "every row order; random: popgen structures up to 40 persons with 6 orders; oracle = "
              "connected components of the unit definitions; T2: exact ids model vs code on valid and "
              "invalid structures. distinct = distinct (structure, order).")
    common.build_and_audit(r, ["C12", "C12Cor"], leanchecker=not quick)
    rnd = common.rng("C12")
    cases, fg_ops = t2_cases(rnd, 120 if quick else 3000)
    corr.run_cases(r, "eg/ehe/sn/bg/wthh id constructors vs Core/Groupings.lean", cases)
    fg_correspondence(r, fg_ops)
    # the 3-person patchwork of finding 6.3 first (corpus)
    patch = [person(0, partner=1, alter=40), person(1, partner=0, alter=40), person(2, alter=5, e1=1)]
    check_structure(r, patch, list(itertools.permutations(range(3))), "corpus: patchwork step-child")
    total = 0
    for n in ([1, 2, 3] if quick else [1, 2, 3, 4]):
        structs = enumerate_structures(n)
        if n == 4 and len(structs) > 15000:
            r.extra["structures_n4_total"] = len(structs)
            structs = rnd.sample(structs, 15000)   # of ~69 000; every one with all 24 row orders
        total += len(structs)
        for P in structs:
            check_structure(r, P, list(itertools.permutations(range(n))), f"exhaustive n={n}")
    if not quick:
        for P in enumerate_structures(5, rnd, cap=3000):
            check_structure(r, P, [tuple(rnd.sample(range(5), 5)) for _ in range(12)], "sample n=5")
    r.extra["exhaustive_structures"] = total
    for _ in range(30 if quick else 600):
        P, kinds = random_structure(rnd)
        n = len(P)
        orders = [tuple(range(n)), tuple(reversed(range(n)))] + [tuple(rnd.sample(range(n), n)) for _ in range(4)]
        check_structure(r, P, orders, f"random {kinds}")
    system_search(r, rnd, popgen.DATES_QUICK if quick else popgen.DATES_2015, 8 if quick else 40)
    r.sample({"persons": patch, "orders": "all 6", "expected": "{0,1,2} one family unit"})
    return r.finish()


def replay(path: str) -> int:
    d = json.load(open(path))
    r = common.Run("C12", "quick")
    if "persons" in d:
        check_structure(r, d["persons"], [tuple(d["order"])], "replay")
    ok = not r.violations and not r.known_hits
    print("replay:", "holds now" if ok else "still fails")
    return 0 if ok else 1
