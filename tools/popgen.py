"""Generator of valid populations (DESIGN §4: V1–V10) and helpers to run the real system.

A population is built from *clusters*: sets of households closed under all person
pointers.  Every random choice comes from the `random.Random` passed in.
"""

from __future__ import annotations

import datetime
import functools
import warnings

import numpy as np
import pandas as pd

from _gettsim.config import DEFAULT_TARGETS, TYPES_INPUT_VARIABLES

HH_VARS = [v for v in TYPES_INPUT_VARIABLES if v.endswith("_hh")]
POINTERS = [
    "p_id_elternteil_1", "p_id_elternteil_2", "p_id_kindergeld_empf",
    "p_id_erziehgeld_empf", "p_id_ehepartner", "p_id_einstandspartner",
    "p_id_betreuungsk_träger",
]


# ---------------------------------------------------------------------------------
# real system helpers
# ---------------------------------------------------------------------------------


@functools.lru_cache(maxsize=64)
def env(date: str):
    from gettsim import set_up_policy_environment
    import paramsio

    paramsio._cached_yaml()  # memoise yaml.load on the file text (pure), see paramsio
    with warnings.catch_warnings():
        warnings.simplefilter("ignore")
        return set_up_policy_environment(date)


def simulate(df, date, targets=None, **kw):
    from gettsim import compute_taxes_and_transfers

    params, functions = env(date)
    with warnings.catch_warnings():
        warnings.simplefilter("ignore")
        return compute_taxes_and_transfers(
            data=df, params=params, functions=functions,
            targets=DEFAULT_TARGETS if targets is None else targets, **kw)


@functools.lru_cache(maxsize=64)
def graph(date: str, targets: tuple | None = None):
    """(dag, functions_not_overridden) of the targets with all documented inputs as data."""
    from _gettsim.functions_loader import load_and_check_functions
    from _gettsim.interface import set_up_dag

    _, functions = env(date)
    t = list(DEFAULT_TARGETS if targets is None else targets)
    with warnings.catch_warnings():
        warnings.simplefilter("ignore")
        try:
            fno, _ = load_and_check_functions(functions, t, list(TYPES_INPUT_VARIABLES), {}, {})
        except ValueError as ex:
            # default targets that did not exist yet at early dates (Abgeltungssteuer before 2009, …) are left out
            if targets is not None or "no corresponding function" not in str(ex):
                raise
            t = [x for x in t if f'"{x}"' not in str(ex)]
            fno, _ = load_and_check_functions(functions, t, list(TYPES_INPUT_VARIABLES), {}, {})
        dag = set_up_dag(fno, t, set(), "ignore")
    return dag, fno


def simulate_all(df, date, base_targets=None, **kw):
    """All function nodes of the (default) graph as targets, plus the data columns."""
    nodes = computed_nodes(date, base_targets)
    res = simulate(df, date, targets=nodes, **kw)
    for c in (df.columns if isinstance(df, pd.DataFrame) else df):
        if c not in res.columns:
            res[c] = np.asarray(df[c])
    return res


def represent(df: pd.DataFrame, rnd):
    """(label, data): another valid presentation of the same table, row for row -- some int columns as whole floats,
    some bool columns as 0/1 numbers (conversions gettsim documents as lossless), any index labelling, a DataFrame
    or a dict of Series.  The frame passed in must have the internal dtypes."""
    d = df.copy()
    n = len(d)
    parts = []
    if rnd.random() < 0.7:
        ints = [c for c, t in TYPES_INPUT_VARIABLES.items() if t is int and c in d.columns]
        bools = [c for c, t in TYPES_INPUT_VARIABLES.items() if t is bool and c in d.columns]
        for c in rnd.sample(ints, min(len(ints), rnd.randint(1, 3))):
            d[c] = d[c].astype(float)
            parts.append(f"{c} as float")
        for c in rnd.sample(bools, min(len(bools), rnd.randint(0, 2))):
            t = rnd.choice([int, float])
            d[c] = d[c].astype(t)
            parts.append(f"{c} as {t.__name__}")
    k = rnd.choice(["default", "shuffled", "gapped", "strings", "reversed", "duplicates", "multiindex", "dates", "named p_id"])
    if k == "shuffled":
        d.index = rnd.sample(range(n), n)
    elif k == "gapped":
        d.index = sorted(rnd.sample(range(3 * n + 5), n))
    elif k == "strings":
        d.index = [f"r{i}" for i in rnd.sample(range(n), n)]
    elif k == "reversed":
        d.index = list(range(n))[::-1]
    elif k == "duplicates":
        d.index = [7] * n
    elif k == "multiindex":
        d.index = pd.MultiIndex.from_arrays([d["hh_id"].to_numpy(), rnd.sample(range(n), n)], names=["h", "k"])
    elif k == "dates":
        d.index = pd.date_range("2020-01-01", periods=n)[::-1]
    elif k == "named p_id":
        d.index = pd.Index(rnd.sample(range(100, 100 + n), n), name="p_id")      # an index NAMED like a column, other values
    parts.append(f"{k} index")
    # the order of the columns is a presentation, too
    co = rnd.choice(["as built", "sorted", "reversed", "shuffled"])
    if co != "as built":
        cols = list(d.columns)
        cols = sorted(cols) if co == "sorted" else cols[::-1] if co == "reversed" else rnd.sample(cols, len(cols))
        d = d[cols]
        parts.append(f"columns {co}")
    if rnd.random() < 0.4:
        parts.append("dict of Series")
        return ", ".join(parts), {c: d[c] for c in d.columns}
    return ", ".join(parts), d


def computed_nodes(date: str, targets: tuple | None = None) -> list[str]:
    """All function nodes of the default graph (no data columns, no *_params)."""
    dag, fno = graph(date, targets)
    return sorted(n for n in dag.nodes if n in fno)


# ---------------------------------------------------------------------------------
# population generator
# ---------------------------------------------------------------------------------


def _thresholds(date: str) -> list[float]:
    params, _ = env(date)
    out = [0.0, 1.0, 100.0]
    sv = params["sozialv_beitr"]
    try:
        g = sv["geringfügige_eink_grenzen_m"]
        mj = g["minijob"]
        out += [float(mj["west"]) if isinstance(mj, dict) else float(mj)]
        out += [float(g["midijob"])]
    except Exception:  # noqa: BLE001
        pass
    try:
        for k in ("ges_krankenv", "ges_rentenv"):
            b = sv["beitr_bemess_grenze_m"][k]
            out += [float(b["west"]), float(b["ost"])]
    except Exception:  # noqa: BLE001
        pass
    return sorted(set(out))


STRUCTURES = [
    "single", "married", "married_kids", "unmarried", "unmarried_kids", "single_parent",
    "patchwork", "three_gen", "adult_child", "parent_elsewhere", "kids_only",
    "pensioner_couple", "pensioner_single", "big_family", "self_sufficient_child",
]


class Pop:
    def __init__(self, rnd, date: str):
        self.rnd = rnd
        self.date = date
        self.year = int(date[:4])
        self.rows: list[dict] = []
        self.hh: list[dict] = []
        self.next_p = 0
        self.next_hh = 0
        self.thr = _thresholds(date)
        params, _ = env(date)
        try:
            self.mietstufen = sorted(
                k for k in params["wohngeld"]["max_miete_m"][1] if isinstance(k, int))
        except Exception:  # noqa: BLE001
            self.mietstufen = [1, 2, 3, 4, 5, 6]

    # -- money ---------------------------------------------------------------------
    def money(self, p_zero=0.4, hi=6000.0):
        r = self.rnd.random()
        if r < p_zero:
            return 0.0
        if r < p_zero + 0.15:
            t = self.rnd.choice(self.thr)
            return round(max(0.0, t + self.rnd.choice([-0.01, 0.0, 0.01])), 2)
        if r < p_zero + 0.2:
            return float(self.rnd.choice([10_000, 50_000, 250_000, 1_000_000, 10_000_000]))
        return round(self.rnd.uniform(0, hi), self.rnd.choice([0, 2]))

    # -- persons -------------------------------------------------------------------
    def new_hh(self):
        h = {"hh_id": self.next_hh}
        self.next_hh += 1
        r = self.rnd
        h["bruttokaltmiete_m_hh"] = round(r.uniform(0, 2500), 2) if r.random() < 0.9 else 0.0
        h["heizkosten_m_hh"] = round(r.uniform(0, 400), 2)
        h["wohnfläche_hh"] = float(r.choice([20, 45, 60, 80, 95.5, 120, 200]))
        h["bewohnt_eigentum_hh"] = r.random() < 0.25
        h["immobilie_baujahr_hh"] = r.choice([1900, 1950, 1965, 1966, 1991, 1992, 2001, 2015])
        h["mietstufe"] = r.choice(self.mietstufen)
        h["wohnort_ost"] = r.random() < 0.3
        self.hh.append(h)
        return h

    def person(self, h, alter, **over):
        r = self.rnd
        p = {"p_id": self.next_p, "hh_id": h["hh_id"], "alter": int(alter)}
        self.next_p += 1
        for k in POINTERS:
            p[k] = -1
        adult = alter >= 18
        retired = alter >= 63 and r.random() < 0.8
        working = adult and not retired and r.random() < 0.75
        p["geburtsjahr"] = self.year - int(alter)
        # a person aged 0 was born this year, before the policy date
        p["geburtsmonat"] = r.randint(1, 12) if alter > 0 else r.randint(1, max(1, int(self.date[5:7]) - 1))
        p["geburtstag"] = r.randint(1, 28)
        p["kind"] = alter < 18 or (alter < 25 and r.random() < 0.5)
        p["rentner"] = retired
        p["weiblich"] = r.random() < 0.5
        p["selbstständig"] = working and r.random() < 0.12
        p["in_priv_krankenv"] = adult and r.random() < 0.12
        p["ges_pflegev_hat_kinder"] = adult and r.random() < 0.6
        p["bruttolohn_m"] = self.money(0.1) if working and not p["selbstständig"] else 0.0
        p["eink_selbst_m"] = self.money(0.1) if p["selbstständig"] else 0.0
        if p["selbstständig"] and r.random() < 0.1:
            p["eink_selbst_m"] = -round(r.uniform(0, 3000), 2)  # a business loss
        p["bruttolohn_vorj_m"] = self.money(0.3) if adult else 0.0
        p["priv_rentenv_beitr_m"] = round(r.uniform(0, 300), 2) if working and r.random() < 0.3 else 0.0
        p["elterngeld_nettoeinkommen_vorjahr_m"] = self.money(0.4, 4000) if adult else 0.0
        p["elterngeld_zu_verst_eink_vorjahr_y_sn"] = 0.0  # set per tax unit below
        p["arbeitsstunden_w"] = float(r.choice([0, 10, 15, 20, 30, 38.5, 40, 48])) if working else 0.0
        p["mietstufe"] = h["mietstufe"]
        p["wohnort_ost"] = h["wohnort_ost"]
        p["entgeltp_ost"] = round(r.uniform(0, 60), 2) if adult and h["wohnort_ost"] else 0.0
        p["entgeltp_west"] = round(r.uniform(0, 60), 2) if adult and not h["wohnort_ost"] else 0.0
        p["betreuungskost_m"] = round(r.uniform(0, 600), 2) if alter < 14 and r.random() < 0.4 else 0.0
        p["kapitaleink_brutto_m"] = self.money(0.6, 500) if adult else 0.0
        if adult and r.random() < 0.08:
            p["kapitaleink_brutto_m"] = -round(r.uniform(0, 400), 2)  # a capital loss
        p["eink_vermietung_m"] = (round(r.uniform(-800, 1500), 2) if adult and r.random() < 0.2 else 0.0)
        p["jahr_renteneintr"] = p["geburtsjahr"] + r.choice([60, 63, 65, 66, 67])
        p["monat_renteneintr"] = r.randint(1, 12)
        p["behinderungsgrad"] = r.choice([0, 0, 0, 0, 20, 30, 50, 80, 100])
        p["monate_elterngeldbezug"] = r.choice([0, 0, 0, 1, 5, 11, 12, 13, 14]) if adult else 0
        p["elterngeld_claimed"] = adult and r.random() < 0.3
        p["in_ausbildung"] = 15 <= alter < 27 and r.random() < 0.4
        p["alleinerz"] = False
        p["sonstig_eink_m"] = self.money(0.8, 800) if adult else 0.0
        p["grundr_zeiten"] = r.choice([0, 100, 395, 396, 419, 420, 421, 480, 540]) if adult else 0
        p["grundr_bew_zeiten"] = min(p["grundr_zeiten"], r.choice([0, 0, 12, 200, 396, 420, 500]))
        p["grundr_entgeltp"] = round(r.uniform(0, 40), 2) if p["grundr_bew_zeiten"] > 0 else 0.0
        p["priv_rente_m"] = self.money(0.6, 1500) if retired else 0.0
        p["schwerbeh_g"] = p["behinderungsgrad"] >= 50 and r.random() < 0.5
        for k in ["m_pflichtbeitrag", "m_freiw_beitrag", "m_mutterschutz", "m_arbeitsunfähig",
                  "m_krank_ab_16_bis_24", "m_arbeitsl", "m_ausbild_suche", "m_schul_ausbild",
                  "m_geringf_beschäft", "m_alg1_übergang", "m_ersatzzeit", "m_kind_berücks_zeit",
                  "m_pfleg_berücks_zeit"]:
            p[k] = float(r.choice([0, 0, 6, 12, 60, 180, 420])) if adult else 0.0
        p["y_pflichtbeitr_ab_40"] = float(r.choice([0, 5, 10, 11, 15])) if alter >= 40 else 0.0
        p["pflichtbeitr_8_in_10"] = adult and r.random() < 0.5
        p["arbeitsl_1y_past_585"] = alter >= 58 and r.random() < 0.2
        p["vertra_arbeitsl_1997"] = alter >= 55 and r.random() < 0.1
        p["vertra_arbeitsl_2006"] = alter >= 55 and r.random() < 0.1
        p["höchster_bruttolohn_letzte_15_jahre_vor_rente_y"] = self.money(0.2, 80000) if retired else 0.0
        p["anwartschaftszeit"] = adult and r.random() < 0.6
        p["arbeitssuchend"] = adult and not working and not retired and r.random() < 0.6
        p["m_durchg_alg1_bezug"] = float(r.choice([0, 0, 1, 6, 11, 12, 24])) if p["arbeitssuchend"] else 0.0
        p["sozialv_pflicht_5j"] = float(r.choice([0, 6, 12, 24, 36, 48, 60])) if adult else 0.0
        p["bürgerg_bezug_vorj"] = False  # set per needs unit below (see known finding 6.7)
        p["kind_unterh_anspr_m"] = 0.0
        p["kind_unterh_erhalt_m"] = 0.0
        p["steuerklasse"] = r.choice([1, 2, 3, 4, 5, 6]) if adult else 1
        p["budgetsatz_erzieh"] = r.random() < 0.2
        p["voll_erwerbsgemind"] = adult and r.random() < 0.05
        p["teilw_erwerbsgemind"] = adult and not p["voll_erwerbsgemind"] and r.random() < 0.05
        p["vermögen_bedürft"] = self.money(0.3, 30000)
        p["eigenbedarf_gedeckt"] = False
        p["gemeinsam_veranlagt"] = False
        p.update(over)
        self.rows.append(p)
        return p

    # -- structures ----------------------------------------------------------------
    def couple(self, h, married, a1=None, a2=None):
        r = self.rnd
        a1 = r.randint(20, 62) if a1 is None else a1
        a2 = max(18, a1 + r.randint(-6, 6)) if a2 is None else a2
        x, y = self.person(h, a1), self.person(h, a2)
        x["p_id_einstandspartner"], y["p_id_einstandspartner"] = y["p_id"], x["p_id"]
        if married:
            x["p_id_ehepartner"], y["p_id_ehepartner"] = y["p_id"], x["p_id"]
            gv = r.random() < 0.75
            x["gemeinsam_veranlagt"] = y["gemeinsam_veranlagt"] = gv
        return x, y

    def child(self, h, parents, alter=None, self_sufficient=False):
        r = self.rnd
        alter = r.choice([0, 1, 2, 5, 6, 11, 13, 14, 17, 18, 20, 24]) if alter is None else alter
        c = self.person(h, alter)
        ps = [p for p in parents if p is not None]
        if ps:
            c["p_id_elternteil_1"] = ps[0]["p_id"]
        if len(ps) > 1:
            c["p_id_elternteil_2"] = ps[1]["p_id"]
        recv = [p for p in ps if p["hh_id"] == h["hh_id"]]
        if recv and alter < 25:
            c["p_id_kindergeld_empf"] = r.choice(recv)["p_id"]
            if r.random() < 0.5:
                c["p_id_erziehgeld_empf"] = c["p_id_kindergeld_empf"]
            if c["betreuungskost_m"] > 0:
                c["p_id_betreuungsk_träger"] = r.choice(recv)["p_id"]
        if c["p_id_betreuungsk_träger"] < 0:
            c["betreuungskost_m"] = 0.0
        c["kind"] = alter < 18 or c["kind"]
        c["eigenbedarf_gedeckt"] = bool(self_sufficient and alter < 25 and recv)
        if len(ps) == 1 or (len(ps) == 2 and ps[0]["hh_id"] != ps[1]["hh_id"]):
            c["kind_unterh_anspr_m"] = round(r.uniform(0, 600), 2)
            c["kind_unterh_erhalt_m"] = round(r.uniform(0, c["kind_unterh_anspr_m"]), 2)
        return c

    def cluster(self, kind=None):
        r = self.rnd
        kind = kind or r.choice(STRUCTURES)
        h = self.new_hh()
        if kind == "single":
            self.person(h, r.randint(18, 62))
        elif kind == "pensioner_single":
            self.person(h, r.randint(63, 100))
        elif kind == "pensioner_couple":
            a = r.randint(63, 95)
            self.couple(h, married=r.random() < 0.8, a1=a, a2=max(18, a + r.randint(-15, 5)))
        elif kind in ("married", "unmarried"):
            self.couple(h, married=kind == "married")
        elif kind in ("married_kids", "unmarried_kids", "big_family"):
            x, y = self.couple(h, married=kind != "unmarried_kids", a1=r.randint(30, 55))
            n = r.randint(1, 3) if kind != "big_family" else r.randint(4, 9)
            for _ in range(n):
                self.child(h, [x, y] if r.random() < 0.8 else r.sample([x, y], 2))
        elif kind == "single_parent":
            x = self.person(h, r.randint(22, 55))
            x["alleinerz"] = True
            for _ in range(r.randint(1, 3)):
                self.child(h, [x])
        elif kind == "patchwork":
            x, y = self.couple(h, married=r.random() < 0.5, a1=r.randint(30, 50))
            shapes = r.sample(["x", "y", "xy", "yx"], r.randint(1, 4))
            for s in shapes:
                self.child(h, {"x": [x], "y": [y], "xy": [x, y], "yx": [y, x]}[s])
        elif kind == "three_gen":
            g1, g2 = self.couple(h, married=True, a1=r.randint(60, 80))
            mid = self.child(h, [g1, g2], alter=r.randint(19, 24) if r.random() < 0.5 else r.randint(25, 45))
            mid["alleinerz"] = r.random() < 0.7
            self.child(h, [mid], alter=r.randint(0, 6))
        elif kind == "adult_child":
            x, y = self.couple(h, married=True, a1=r.randint(50, 70))
            self.child(h, [x, y], alter=r.randint(25, 40))
        elif kind == "parent_elsewhere":
            x = self.person(h, r.randint(25, 55))
            x["alleinerz"] = True
            h2 = self.new_hh()
            z = self.person(h2, r.randint(25, 55))
            for _ in range(r.randint(1, 2)):
                self.child(h, [x, z] if r.random() < 0.5 else [z, x])
        elif kind == "kids_only":
            self.person(h, r.randint(15, 17))
            if r.random() < 0.5:
                self.person(h, r.randint(12, 17))
        elif kind == "self_sufficient_child":
            x, y = self.couple(h, married=True, a1=r.randint(40, 60))
            for _ in range(r.randint(1, 3)):
                self.child(h, [x, y], alter=r.choice([15, 17, 18, 21, 24]),
                           self_sufficient=r.random() < 0.7)
        # -- structures OUTSIDE the validity assumptions V7 (used only where the property must hold for every table
        #    gettsim accepts, e.g. relabelling invariance): several persons compete for one family unit
        elif kind == "child_with_partner":
            x, y = self.couple(h, married=r.random() < 0.7, a1=r.randint(45, 60))
            c = self.child(h, [x, y], alter=r.randint(18, 24))
            q = self.person(h, r.randint(18, 30))
            c["p_id_einstandspartner"], q["p_id_einstandspartner"] = q["p_id"], c["p_id"]
        elif kind == "coparents_not_partners":
            x = self.person(h, r.randint(25, 50))
            y = self.person(h, r.randint(25, 50))
            for _ in range(r.randint(1, 2)):
                self.child(h, [x, y] if r.random() < 0.5 else [y, x], alter=r.randint(0, 17))
            if r.random() < 0.5:
                z = self.person(h, r.randint(25, 50))
                y["p_id_einstandspartner"], z["p_id_einstandspartner"] = z["p_id"], y["p_id"]
        else:
            raise ValueError(kind)
        return kind

    # -- finalise ------------------------------------------------------------------
    def frame(self, relabel=True, shuffle=True):
        r = self.rnd
        rows = [dict(p) for p in self.rows]
        hh = {h["hh_id"]: h for h in self.hh}
        for p in rows:
            h = hh[p["hh_id"]]
            for k in HH_VARS:
                p[k] = h[k]
        # per tax unit / needs unit constants that are individual-level inputs by name
        by_id = {p["p_id"]: p for p in rows}
        for p in rows:
            q = by_id.get(p["p_id_ehepartner"])
            if q is not None and p["gemeinsam_veranlagt"] and q["p_id"] < p["p_id"]:
                p["elterngeld_zu_verst_eink_vorjahr_y_sn"] = q["elterngeld_zu_verst_eink_vorjahr_y_sn"]
            else:
                p["elterngeld_zu_verst_eink_vorjahr_y_sn"] = self.money(0.2, 400000)
        if relabel:
            # sparse non-negative ids, consistent on all pointer columns
            # one population in five carries survey-style identifiers: 7-digit person numbers, household numbers
            # from 10 000 on (so that derived ids of the form 100 * id + counter pass 10^6)
            big = r.random() < 0.2
            p0, h0 = (r.choice([1_000_000, 2_345_600]), r.choice([10_000, 12_345])) if big else (0, 0)
            pids = r.sample(range(p0, p0 + 5 * len(rows) + 50), len(rows))
            pmap = {p["p_id"]: pids[i] for i, p in enumerate(rows)}
            hids = r.sample(range(h0, h0 + 5 * len(self.hh) + 20), len(self.hh))
            hmap = {h["hh_id"]: hids[i] for i, h in enumerate(self.hh)}
            for p in rows:
                p["p_id"] = pmap[p["p_id"]]
                p["hh_id"] = hmap[p["hh_id"]]
                for k in POINTERS:
                    if p[k] >= 0:
                        p[k] = pmap[p[k]]
        if shuffle:
            r.shuffle(rows)
        return to_frame(rows)


def to_frame(rows: list[dict]) -> pd.DataFrame:
    df = pd.DataFrame(rows)
    for k, t in TYPES_INPUT_VARIABLES.items():
        if k in df:
            df[k] = df[k].astype({int: "int64", float: "float64", bool: "bool"}[t])
    return df.reset_index(drop=True)


def population(rnd, date: str, n_clusters=None, kinds=None, relabel=True, shuffle=True):
    p = Pop(rnd, date)
    if kinds is None:
        n = n_clusters or rnd.randint(1, 5)
        kinds = [rnd.choice(STRUCTURES) for _ in range(n)]
    for k in kinds:
        p.cluster(k)
    return p.frame(relabel=relabel, shuffle=shuffle), kinds


def near_copies(rnd, date: str, n=None):
    """A "finite-difference" table: n single-person households that are copies of one person except for ONE float input,
    which differs from row to row by steps far below any statutory granularity (fractions of a cent, relative 1e-7 … 1e-5)
    around a statutory threshold or a round amount -- the table one builds to read off marginal rates and notches."""
    n = n or rnd.randint(3, 7)
    p = Pop(rnd, date)
    p.cluster("single")
    base = dict(p.rows[0])
    hh0 = dict(p.hh[0])
    var = rnd.choice(["bruttolohn_m", "bruttolohn_m", "eink_selbst_m", "kapitaleink_brutto_m", "eink_vermietung_m",
                      "sonstig_eink_m", "vermögen_bedürft", "bruttolohn_vorj_m", "priv_rente_m"])
    centre = float(rnd.choice(_thresholds(date) + [450.0, 520.0, 1000.0, 2000.0, 5000.0, 12000.0]))
    if var == "bruttolohn_m":
        base["selbstständig"] = False
        base["arbeitsstunden_w"] = 30.0
    step = rnd.choice([0.001, 0.002, 0.01, centre * 1e-7, centre * 2e-6])
    rows, hhs = [], []
    for i in range(n):
        q = dict(base)
        q["p_id"] = base["p_id"] + i
        h = dict(hh0)
        h["hh_id"] = hh0["hh_id"] + i
        q["hh_id"] = h["hh_id"]
        q[var] = max(0.0, centre + (i - n // 2) * step) if var != "eink_vermietung_m" else centre + (i - n // 2) * step
        rows.append(q)
        hhs.append(h)
    p.rows, p.hh = rows, hhs
    return p.frame(relabel=False, shuffle=False), [f"near-copies:{var}@{centre}+-{step}"]


def frame_to_json(df: pd.DataFrame) -> dict:
    return {c: [x.item() if hasattr(x, "item") else x for x in df[c].tolist()] for c in df.columns}


def frame_from_json(d: dict) -> pd.DataFrame:
    return to_frame([dict(zip(d.keys(), vals)) for vals in zip(*d.values())])


# ---------------------------------------------------------------------------------
# comparison helpers
# ---------------------------------------------------------------------------------

ID_COLS = {"wthh_id", "fg_id", "bg_id", "eg_id", "ehe_id", "sn_id", "hh_id"}


def same_partition(a, b) -> bool:
    m1, m2 = {}, {}
    for x, y in zip(a, b):
        if m1.setdefault(x, y) != y or m2.setdefault(y, x) != x:
            return False
    return True


def close(a, b, rel=2.0**-40) -> bool:
    a = np.asarray(a)
    b = np.asarray(b)
    if a.shape != b.shape:
        return False
    if a.dtype == bool or b.dtype == bool or a.dtype.kind in "iu" and b.dtype.kind in "iu":
        return bool(np.array_equal(a, b))
    if a.dtype.kind == "M" or b.dtype.kind == "M":
        return bool(np.array_equal(a, b))
    a = a.astype(float)
    b = b.astype(float)
    both_nan = np.isnan(a) & np.isnan(b)
    with np.errstate(invalid="ignore"):
        same_inf = np.isinf(a) & np.isinf(b) & (np.sign(a) == np.sign(b))
        ok = np.abs(a - b) <= rel * np.maximum(1.0, np.maximum(np.abs(a), np.abs(b)))
    return bool(np.all(ok | both_nan | same_inf))


DATES_QUICK = ["2019-07-01", "2023-07-01"]
DATES_2015 = [
    "2015-01-01", "2016-01-01", "2017-07-01", "2018-01-01", "2019-01-01", "2019-07-01",
    "2020-01-01", "2020-07-01", "2021-01-01", "2022-01-01", "2022-10-01", "2023-01-01",
    "2023-07-01", "2024-01-01", "2024-07-01", "2025-01-01",
]
