"""C19 — social-insurance contributions follow the statutory shape in the wage."""

from __future__ import annotations

import datetime
import json
from fractions import Fraction

import numpy as np
import pandas as pd

import chains
import common
import emit_lean
import extract
import popgen
import ruleir

BRANCHES = {
    "ges_rentenv": ("ges_rentenv_beitr_arbeitnehmer_m", "_ges_rentenv_beitr_bemess_grenze_m"),
    "arbeitsl_v": ("arbeitsl_v_beitr_arbeitnehmer_m", "_ges_rentenv_beitr_bemess_grenze_m"),
    "ges_krankenv": ("ges_krankenv_beitr_arbeitnehmer_m", "_ges_krankenv_beitr_bemess_grenze_m"),
    "ges_pflegev": ("ges_pflegev_beitr_arbeitnehmer_m", "_ges_krankenv_beitr_bemess_grenze_m"),
}


def configs(date=None):
    for ost in (False, True):
        for kinder in (True, False):
            yield {"wohnort_ost": ost, "ges_pflegev_hat_kinder": kinder}
    # from 2023-07-01 the long-term-care rate depends on the number of children under 25; the count is a column users
    # supply (gettsim's synthetic data does), so it is a configuration dimension of the chain
    if date is not None and "ges_pflegev_anz_kinder_bis_24" in popgen.graph(date)[0].nodes:
        for ost in (False, True):
            for n in (2, 5):
                yield {"wohnort_ost": ost, "ges_pflegev_hat_kinder": True, "ges_pflegev_anz_kinder_bis_24": n}


def _label(date, cfg):
    extra = "".join(f" {k}={v}" for k, v in cfg.items() if k not in ("wohnort_ost", "ges_pflegev_hat_kinder"))
    return f"{date} ost={cfg['wohnort_ost']} kinder={cfg['ges_pflegev_hat_kinder']}{extra}"


def statutory_points(info, date):
    real = info["real"]
    G = float(real["minijob_grenze"].iloc[0])
    env = info["env"]["sozialv_beitr"]
    M = env["geringfügige_eink_grenzen_m"]["midijob"]
    return G, float(M)


def midijob_triple(date, branch):
    dag, fno = popgen.graph(date)  # node names only
    t = [f"_{branch}_beitr_midijob_arbeitnehmer_m", f"_{branch}_beitr_midijob_arbeitgeber_m",
         f"_{branch}_beitr_midijob_sum_arbeitnehmer_arbeitgeber_m"]
    return t if all(x in dag.nodes for x in t) else None


def run_config(r, date, cfg, rnd):
    df = chains.single_person(date, **cfg)
    label = _label(date, cfg)
    for branch, (target, ceiling_node) in BRANCHES.items():
        triple = midijob_triple(date, branch)
        targets = [target] + (triple or [])
        ok, built = r.attempt(f"chain {target} ({label})", chains.build_chain, date, targets, df)
        name = f"{target} shape ({label})"
        if not ok:
            r.oblige(name, False, "chain cannot be built")
            continue
        chain, info = built
        if info["unsupported"]:
            r.oblige(name, False, f"wage-dependent nodes outside the modelled fragment: {info['unsupported']}")
            r.broke("theorem", name, f"wage-dependent nodes outside the fragment: {info['unsupported']}")
            continue
        G, M = statutory_points(info, date)
        C = float(info["real"][ceiling_node].iloc[0])
        xs = chains.candidate_breakpoints(chain, info)
        checks = [{"k": "nonneg"}, {"k": "nondec"},
                  {"k": "zeroBelow", "g": ruleir.fstr(Fraction(G)), "incl": True},
                  {"k": "constantAbove", "c": ruleir.fstr(Fraction(C)), "incl": True},
                  {"k": "continuousAt", "m": ruleir.fstr(Fraction(M))}]
        if triple:
            checks.append({"k": "sumEq", "t1": triple[0], "t2": triple[1], "t3": triple[2]})
        res = chains.sym(chain, target, checks, xs)
        labels = ["non-negative", "non-decreasing", f"zero up to the minijob limit {G}", f"constant from the ceiling {C}",
                  f"continuous at the upper zone boundary {M}", "employee + employer = total in the transition zone"]
        for lab, c, okc in zip(labels, checks, res["results"]):
            nm = f"{target}: {lab} ({label})"
            r.oblige(nm, okc, "" if okc else f"symbolic check failed; first uncertified piece: {res['failing_piece']}")
            r.case({"sym": nm})
            if not okc:
                r.broke("theorem", nm, json.dumps({"check": c, "failing_piece": res["failing_piece"]}))
        # correspondence: the chain (model) vs the real system at sample wages
        ws = sorted({0.0, G, G + 0.01, M, M + 0.01, C, C + 1, 1234.56, 3333.33, 50000.0} | {round(rnd.uniform(0, 9000), 2) for _ in range(4)})
        model = chains.chain_run(chain, [target], ws)
        big = pd.concat([df] * len(ws), ignore_index=True)
        big["p_id"] = range(len(ws)); big["hh_id"] = range(len(ws)); big["bruttolohn_m"] = ws
        realv = popgen.simulate(big, date, targets=[target])[target].to_numpy()
        bad = [(w, float(rv), m[0]) for w, rv, m in zip(ws, realv, model)
               if m[0] is None or abs(float(Fraction(m[0])) - float(rv)) > 1e-9 * max(1.0, abs(float(rv)))]
        r.traces += len(ws)
        r.evaluations += len(ws)
        if bad:
            r.broke("correspondence", f"chain of {target} vs real system ({label})", str(bad[:3]))


def sweep(r, date, cfg, dense):
    """The property on the real system: dense wage sweep plus statutory boundaries ± 1 cent."""
    df = chains.single_person(date, **cfg)
    base = popgen.simulate(df, date, targets=["minijob_grenze", "_ges_rentenv_beitr_bemess_grenze_m", "_ges_krankenv_beitr_bemess_grenze_m"])
    G = float(base["minijob_grenze"].iloc[0])
    params, _ = popgen.env(date)
    M = float(params["sozialv_beitr"]["geringfügige_eink_grenzen_m"]["midijob"])
    Cs = {float(base["_ges_rentenv_beitr_bemess_grenze_m"].iloc[0]), float(base["_ges_krankenv_beitr_bemess_grenze_m"].iloc[0])}
    step = 0.5 if dense else 5.0
    ws = list(np.arange(0, 9500, step))
    for x in [G, M, *Cs]:
        ws += [x - 0.01, x, x + 0.01]
    ws += [1e4, 2e4, 5e4, 5e4 + 0.01, 1e5, 2.5e5, 1e6, 1e7]  # far above every ceiling
    ws = sorted(set(round(w, 2) for w in ws if w >= 0))
    big = pd.concat([df] * len(ws), ignore_index=True)
    big["p_id"] = range(len(ws)); big["hh_id"] = range(len(ws)); big["bruttolohn_m"] = ws
    targets = [t for t, _ in BRANCHES.values()]
    extra = []
    for b in BRANCHES:
        t3 = midijob_triple(date, b)
        if t3:
            extra += t3
    res = popgen.simulate(big, date, targets=targets + extra + ["in_gleitzone"])
    label = _label(date, cfg)
    rep = {"date": date, "config": cfg}
    w = np.asarray(ws)
    for branch, (t, cnode) in BRANCHES.items():
        v = res[t].to_numpy()
        r.case({"sweep": t, "label": label, "n": len(ws)})
        C = float(base[cnode].iloc[0])
        if (v < -1e-9).any():
            i = int(np.argmax(v < -1e-9))
            r.hit({"kind": "negative-contribution", "target": t}, f"{t} = {v[i]} at wage {w[i]} ({label})", {**rep, "wage": float(w[i])})
        d = np.diff(v)
        if (d < -1e-7).any():
            i = int(np.argmax(d < -1e-7))
            r.hit({"kind": "contribution-decreases", "target": t},
                  f"{t} falls from {v[i]} at wage {w[i]} to {v[i + 1]} at {w[i + 1]} ({label})", {**rep, "wages": [float(w[i]), float(w[i + 1])]})
        z = v[w <= G]
        if (np.abs(z) > 1e-9).any():
            r.hit({"kind": "contribution-for-marginal-employment", "target": t},
                  f"{t} is {z[np.abs(z) > 1e-9][0]} for a wage up to the minijob limit {G} ({label})", rep)
        top = v[w >= C]
        if len(top) and (np.abs(top - top[0]) > 1e-7).any():
            r.hit({"kind": "not-constant-above-ceiling", "target": t}, f"{t} varies above the ceiling {C} ({label})", rep)
        iM = int(np.where(np.isclose(w, M))[0][0])
        if abs(v[iM + 1] - v[iM]) > 0.05:
            r.hit({"kind": "jump-at-upper-zone-boundary", "target": t},
                  f"{t} jumps from {v[iM]} at {M} to {v[iM + 1]} one cent above ({label})", rep)
        t3 = midijob_triple(date, branch)
        if t3:
            zone = res["in_gleitzone"].to_numpy().astype(bool)
            s = res[t3[0]].to_numpy() + res[t3[1]].to_numpy() - res[t3[2]].to_numpy()
            if (np.abs(s[zone]) > 1e-7).any():
                r.hit({"kind": "shares-do-not-sum", "target": t},
                      f"employee + employer share ≠ total {branch} contribution inside the transition zone ({label})", rep)


def instance_dates():
    """first day of every period in which the contribution rules or their parameters can differ"""
    # from the introduction of the transition zone (2003-04-01) on; the mid-year changes of contribution rates
    # (2005-07, 2009-07, …) are dates at which beginning-of-year look-ups differ from the current values
    start = datetime.date(2003, 4, 1).toordinal()
    ds = {start}
    raw = extract.raw_yaml("sozialv_beitr")
    for p, body in raw.items():
        if isinstance(body, dict):
            for k in body:
                if isinstance(k, datetime.date) and k.toordinal() >= start:
                    ds.add(k.toordinal())
    for e in extract.registry():
        if e["td"] and "social_insurance" in e["module"]:
            for b in (e["start"], e["stop"] + 1):
                if start <= b <= max(extract.all_entry_dates()):
                    ds.add(b)
    return [datetime.date.fromordinal(o).isoformat() for o in sorted(ds)]


def run(tier: str) -> int:
    r = common.Run("C19", tier)
    quick = tier == "quick"
    r.rule = ("per date at which contribution rules or sozialv_beitr parameters change (quick: 4 of them) x east/west x with/without "
              "children x 4 branches: the chain of rules from the gross wage to the employee contribution is built from the real graph "
              "and the rules' syntax trees, and the verified symbolic evaluator (Core/Sym.lean) certifies for ALL wages >= 0: "
              "non-negative, non-decreasing, zero up to the minijob limit, constant from the ceiling, continuous at the upper zone "
              "boundary, employee + employer = total; chain vs real system at sample wages; search: 0.5/5 € sweep plus the statutory "
              "boundaries ± 1 cent on the real system. distinct = (date, config, branch, check).")
    emit_lean.regenerate()
    common.build_and_audit(r, ["SymSound", "C19Inst"], leanchecker=not quick)
    rnd = common.rng("C19")
    dates = instance_dates()
    r.extra["instance_dates"] = dates
    midyear = [d for d in dates if d[5:] != "01-01"]
    if quick:
        keep = {dates[0], dates[-1], "2022-10-01", "2019-07-01"}
        dates = [d for d in dates if d in keep] or dates[:3]
    for date in dates:
        for cfg in configs(date):
            run_config(r, date, cfg, rnd)
    sdates = dates if not quick else dates[:2] + dates[-1:]
    for date in sdates:
        for cfg in (list(configs(date)) if not quick else list(configs(date))[::3]):
            ok, _ = r.attempt(f"wage sweep at {date}", sweep, r, date, cfg, not quick)
    if quick:
        # every mid-year change of contribution rules / rates (beginning-of-year look-ups differ from the current values
        # only after such a change): one configuration each, certified and swept
        for date in midyear:
            if date in dates:
                continue
            cfg = rnd.choice(list(configs(date)))
            run_config(r, date, cfg, rnd)
            ok, _ = r.attempt(f"wage sweep at {date}", sweep, r, date, cfg, False)
    r.sample({"chain": "bruttolohn_m -> … -> ges_rentenv_beitr_arbeitnehmer_m (7 rules)", "date": "2023-07-01",
              "certified": "∀ w ≥ 0: 0 ≤ f w; x ≤ y → f x ≤ f y; w ≤ 520 → f w = 0; w ≥ 7300 → f w = 678.9"})
    return r.finish()


def replay(path: str) -> int:
    d = json.load(open(path))
    print(json.dumps(d, ensure_ascii=False)[:1500])
    return 1
