"""C04 — a column's value is independent of which other targets are requested, of unused
columns and of the debug / minimal-specification options."""

from __future__ import annotations

import json

import numpy as np

import common
import meta
import popgen
import t3


def run(tier: str) -> int:
    r = common.Run("C04", tier)
    quick = tier == "quick"
    r.rule = ("per population: every node of the default graph requested (a) alone, (b) in random target sets, (c) with "
              "all nodes; noise columns added; debug / check_minimal_specification varied; values compared bit-for-bit "
              "(same process, same inputs), row count, row order and exactly-the-targets contract. distinct = (population, target set).")
    common.build_and_audit(r, ["C04", "C04Sim", "T3"], leanchecker=not quick)
    rnd = common.rng("C04")
    t3.run_t3(r, 1000 * common.seed() + 4, 40 if quick else 600)
    for date in (popgen.DATES_QUICK if quick else popgen.DATES_2015):
        nodes = popgen.computed_nodes(date)
        for k in range(2 if quick else 6):
            df, kinds = popgen.population(rnd, date)
            ok, full = r.attempt(f"simulate(all nodes) at {date}", popgen.simulate, df, date, targets=nodes,
                                 replay={"date": date, "data": popgen.frame_to_json(df)})
            if not ok:
                continue
            singles = rnd.sample(nodes, 25 if quick else len(nodes))
            sets = [[t] for t in singles] + [rnd.sample(nodes, rnd.randint(2, 12)) for _ in range(10 if quick else 60)]
            for T in sets:
                ok, res = r.attempt(f"simulate(targets={T[:3]}…) at {date}", popgen.simulate, df, date, targets=T,
                                    replay={"date": date, "data": popgen.frame_to_json(df), "targets": T})
                r.case({"date": date, "pop": k, "targets": sorted(T)})
                if not ok:
                    r.hit({"node": T[0] if len(T) == 1 else "set", "kind": "target-set-raises", "n_targets": min(len(T), 2)},
                          f"requesting {T if len(T) < 4 else str(T[:3]) + '…'} at {date} raises {type(res).__name__}: "
                          f"{str(res)[:200]} although the same columns are computed when all nodes are requested",
                          {"date": date, "data": popgen.frame_to_json(df), "targets": T})
                    r.broken.pop()  # reported as a concrete failing input instead
                    continue
                if sorted(res.columns) != sorted(set(T)):
                    r.hit({"node": "result", "kind": "result-columns-are-not-the-targets"},
                          f"requested {sorted(set(T))[:5]}…, got columns {sorted(res.columns)[:5]}… at {date}",
                          {"date": date, "targets": T, "columns": list(res.columns)})
                if len(res) != len(df):
                    r.hit({"node": "result", "kind": "row-count"}, f"{len(res)} result rows for {len(df)} input rows",
                          {"date": date, "targets": T})
                for t in T:
                    a, b = res[t].to_numpy(), full[t].to_numpy()
                    same = (a.dtype == b.dtype) and (np.array_equal(a, b, equal_nan=True) if a.dtype.kind == "f" else np.array_equal(a, b))
                    if not same:
                        r.hit({"node": t, "kind": "depends-on-target-set"},
                              f"{t} at {date} differs when requested with {len(T)} targets vs with all nodes",
                              {"date": date, "data": popgen.frame_to_json(df), "targets": T, "node": t,
                               "observed": a.tolist()[:30], "expected": b.tolist()[:30]})
            # unused extra columns, debug, minimal-specification options
            T = rnd.sample(nodes, 8)
            ok, base = r.attempt("base run", popgen.simulate, df, date, targets=T)
            if not ok:
                continue
            noisy = df.assign(verif_noise_a=np.arange(len(df)) * 1.5, zzz_unused_hh=7, noise_m=1.0)
            shuffled = df.copy()
            shuffled.index = rnd.sample(range(1000, 1000 + len(df)), len(df))      # labels not in row order
            gaps = df.copy()
            gaps.index = sorted(rnd.sample(range(0, 3 * len(df) + 3), len(df)))   # a filtered frame's index
            variants = [("extra unused columns", dict(df=noisy)), ("debug=True", dict(df=df, debug=True)),
                        ("check_minimal_specification=warn", dict(df=noisy, check_minimal_specification="warn")),
                        ("debug=True, index labels not in row order", dict(df=shuffled, debug=True)),
                        ("debug=True, index with gaps", dict(df=gaps, debug=True)),
                        ("index labels not in row order", dict(df=shuffled)),
                        ("dict of Series with gapped index, debug=True", dict(df=dict(gaps), debug=True))]
            for label, kw in variants:
                d2 = kw.pop("df")
                ok, res = r.attempt(f"simulate({label}) at {date}", popgen.simulate, d2, date, targets=T, **kw)
                r.case({"date": date, "pop": k, "variant": label, "targets": sorted(T)})
                if not ok:
                    continue
                if len(res) != len(df):
                    r.hit({"node": "result", "kind": "row-count", "option": label},
                          f"{len(res)} result rows for {len(df)} input rows with {label} at {date}",
                          {"date": date, "data": popgen.frame_to_json(df), "targets": T, "option": label})
                    continue
                if "debug" in label and "p_id" in res.columns and not np.array_equal(res["p_id"].to_numpy(), df["p_id"].to_numpy()):
                    r.hit({"node": "result", "kind": "row-order", "option": label},
                          f"with {label} the result rows are not in input order at {date}", {"date": date, "option": label})
                for t in T:
                    if t not in res.columns or not np.array_equal(res[t].to_numpy(), base[t].to_numpy(), equal_nan=res[t].dtype.kind == "f"):
                        r.hit({"node": t, "kind": "depends-on-option", "option": label},
                              f"{t} at {date} changes with {label}", {"date": date, "data": popgen.frame_to_json(d2), "targets": T})
                if "debug" not in label and sorted(res.columns) != sorted(T):
                    r.hit({"node": "result", "kind": "result-columns-are-not-the-targets", "option": label},
                          f"with {label} the result has columns {sorted(set(res.columns) - set(T))[:5]} beyond the targets",
                          {"date": date, "targets": T})
            r.sample({"date": date, "kinds": kinds, "target_sets": len(sets)}, limit=3)
    return r.finish()


def replay(path: str) -> int:
    d = json.load(open(path))
    print(json.dumps({k: v for k, v in d.items() if k != "data"}, ensure_ascii=False)[:1500])
    if "data" in d and "targets" in d:
        df = popgen.frame_from_json(d["data"])
        try:
            popgen.simulate(df, d["date"], targets=d["targets"])
            print("replay: the call succeeds now")
            return 0
        except Exception as e:  # noqa: BLE001
            print("replay: still raises", type(e).__name__)
    return 1
