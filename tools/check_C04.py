"""C04 — a column's value is independent of which other targets are requested, of unused
columns and of the debug / minimal-specification options."""

from __future__ import annotations

import json

import numpy as np

import common
import meta
import popgen
import t3
import t4


def node_purity_search(r, date, df):
    """No function of the graph may write into the arrays it receives: a consumer that modifies its argument in place
    changes the column other consumers (and the caller, if that column is a target) see, so a column's value would depend
    on whether that consumer is part of the requested graph.  Every function node is called on its own on READ-ONLY copies
    of its parents' columns (numpy then refuses any in-place write, whatever the values are), and its result is compared
    with the column the full run reports for it (a column that was changed after it had been computed differs)."""
    import inspect
    import warnings
    params, _ = popgen.env(date)
    dag, fno = popgen.graph(date)
    ok, res = r.attempt(f"simulate(all nodes, rounding off) at {date}", popgen.simulate_all, df, date, rounding=False)
    if not ok:
        return
    cols = {c: res[c].to_numpy() for c in res.columns}
    cols = {c: (v.astype("datetime64[D]") if v.dtype.kind == "M" else v) for c, v in cols.items()}
    n_called = 0
    for name, f in fno.items():
        if name not in cols:
            continue
        args = list(inspect.signature(f).parameters)
        kw = {}
        for a in args:
            if a.endswith("_params") and a[:-7] in params:
                kw[a] = params[a[:-7]]
            elif a in cols:
                v = cols[a].copy()
                v.flags.writeable = False
                kw[a] = v
            else:
                kw = None
                break
        if kw is None:
            continue
        n_called += 1
        try:
            with warnings.catch_warnings():
                warnings.simplefilter("ignore")
                out = f(**kw)
        except ValueError as ex:
            if "read-only" in str(ex):
                r.hit({"node": name, "kind": "writes-into-its-argument"},
                      f"{name} at {date} writes into one of the arrays it receives ({str(ex)[:80]}): the columns "
                      f"{[a for a in args if not a.endswith('_params')][:4]} then depend on whether {name} is part of the graph",
                      {"date": date, "node": name, "data": popgen.frame_to_json(df)})
            continue
        except Exception:  # noqa: BLE001   (functions that cannot be called in isolation are covered by the full runs)
            continue
        r.case({"purity": name, "date": date})
        out = np.broadcast_to(np.asarray(out), cols[name].shape)
        full = cols[name]
        if out.dtype.kind == "M" or full.dtype.kind == "M":
            same = np.array_equal(out.astype("datetime64[D]"), full.astype("datetime64[D]"))
        elif out.dtype.kind == "f" or full.dtype.kind == "f":
            same = np.array_equal(out.astype(float), full.astype(float), equal_nan=True)
        else:
            same = np.array_equal(out, full)
        if not same and name.endswith("_id") and popgen.same_partition(list(out), list(full)):
            same = True
        if not same:
            i = int(np.argmax(np.asarray(out != full)))
            r.hit({"node": name, "kind": "column-is-not-its-function-of-the-parents"},
                  f"{name} at {date}: the full run reports {full[i]!r} in row {i}, the node's function applied to the reported "
                  f"parent columns gives {out[i]!r} (a column changed after it was computed, or a consumer saw another value)",
                  {"date": date, "node": name, "row": i, "data": popgen.frame_to_json(df)})
    r.extra.setdefault("node_purity", {})[date] = {"functions_called_alone_on_read_only_inputs": n_called}


def spec_source_search(r, rnd):
    """Aggregation specifications whose source column is itself an automatic group sum (`max over a_m_hh`): the
    specified column must be computable, with the same values, whether or not its source is requested as well."""
    import warnings
    import pandas as pd
    from gettsim import compute_taxes_and_transfers

    def a_m(x: float) -> float:
        return x * 2

    def uses(mx_hh: float, x: float) -> float:
        return mx_hh + x

    df = pd.DataFrame({"p_id": [0, 1, 2, 3], "hh_id": [0, 0, 1, 1], "x": [1.0, 2.5, 3.0, 0.5]})
    for aggr in ("max", "min", "sum", "mean"):
        for src in ("a_m_hh", "x_hh"):
            spec = {"mx_hh": {"source_col": src, "aggr": aggr}}
            runs = {}
            for T in (["mx_hh", src], ["mx_hh"], ["uses"], ["uses", src]):
                try:
                    with warnings.catch_warnings():
                        warnings.simplefilter("ignore")
                        res = compute_taxes_and_transfers(data=df, params={}, functions=[a_m, uses],
                                                          aggregate_by_group_specs=spec, targets=T)
                    runs[tuple(T)] = ("ok", {c: res[c].tolist() for c in res.columns})
                except Exception as ex:  # noqa: BLE001
                    runs[tuple(T)] = ("err", f"{type(ex).__name__}: {str(ex)[:120]}")
                r.case({"spec-source": [aggr, src], "targets": T})
            for alone, joint, t in ((("mx_hh",), ("mx_hh", src), "mx_hh"), (("uses",), ("uses", src), "uses")):
                a, j = runs[alone], runs[joint]
                if j[0] == "ok" and a[0] == "err":
                    r.hit({"node": t, "kind": "computable-only-with-other-targets", "spec_source": "automatic-group-sum"},
                          f"with the specification mx_hh = {aggr} over {src}, the column {t} is computed when {src} is requested "
                          f"as well and raises when it is not ({a[1][:100]})",
                          {"aggregate_by_group_specs": spec, "targets_alone": list(alone), "targets_joint": list(joint),
                           "data": df.to_dict("list")})
                elif j[0] == "ok" and a[0] == "ok" and a[1][t] != j[1][t]:
                    r.hit({"node": t, "kind": "depends-on-target-set", "spec_source": "automatic-group-sum"},
                          f"{t} differs when {src} is requested as well: {a[1][t]} vs {j[1][t]}",
                          {"aggregate_by_group_specs": spec, "targets_alone": list(alone), "targets_joint": list(joint)})


def run(tier: str) -> int:
    r = common.Run("C04", tier)
    quick = tier == "quick"
    r.rule = ("per population: every node of the default graph requested (a) alone, (b) in random target sets, (c) with "
              "all nodes; noise columns added; debug / check_minimal_specification varied; values compared bit-for-bit "
              "(same process, same inputs), row count, row order and exactly-the-targets contract. distinct = (population, target set).")
    common.build_and_audit(r, ["C04", "C04Sim", "C04Extra", "T3"], leanchecker=not quick)
    rnd = common.rng("C04")
    t3.run_t3(r, 1000 * common.seed() + 4, 40 if quick else 600)
    t4.run_t4_quick(r, common.rng("C04-T4"), quick, with_cut=True)
    spec_source_search(r, rnd)
    for date in (popgen.DATES_QUICK if quick else popgen.DATES_2015):
        nodes = popgen.computed_nodes(date)
        for k in range(2 if quick else 6):
            df, kinds = popgen.population(rnd, date)
            ok, full = r.attempt(f"simulate(all nodes) at {date}", popgen.simulate, df, date, targets=nodes,
                                 replay={"date": date, "data": popgen.frame_to_json(df)})
            if not ok:
                continue
            singles = rnd.sample(nodes, 25 if quick else min(len(nodes), 90))      # thorough: every node is requested alone on some population / date
            sets = [[t] for t in singles] + [rnd.sample(nodes, rnd.randint(2, 12)) for _ in range(10 if quick else 60)]
            for T in sets:
                ok, res = r.attempt(f"simulate(targets={T[:3]}…) at {date}", popgen.simulate, df, date, targets=T,
                                    replay={"date": date, "data": popgen.frame_to_json(df), "targets": T})
                r.case({"date": date, "pop": k, "targets": sorted(T)})
                if not ok:
                    r.hit({"node": T[0] if len(T) == 1 else "set", "kind": "target-set-raises", "n_targets": min(len(T), 2)},
                          f"requesting {T if len(T) < 4 else str(T[:3]) + '…'} at {date} raises {type(res).__name__}: "
                          f"{str(res)[:200]} although the same columns are computed when all nodes are requested",
                          {"date": date, "data": popgen.frame_to_json(df), "targets": T})
                    r.broken.pop()  # reported as a concrete failing input instead
                    continue
                if sorted(res.columns) != sorted(set(T)):
                    r.hit({"node": "result", "kind": "result-columns-are-not-the-targets"},
                          f"requested {sorted(set(T))[:5]}…, got columns {sorted(res.columns)[:5]}… at {date}",
                          {"date": date, "targets": T, "columns": list(res.columns)})
                if len(res) != len(df):
                    r.hit({"node": "result", "kind": "row-count"}, f"{len(res)} result rows for {len(df)} input rows",
                          {"date": date, "targets": T})
                for t in T:
                    a, b = res[t].to_numpy(), full[t].to_numpy()
                    same = (a.dtype == b.dtype) and (np.array_equal(a, b, equal_nan=True) if a.dtype.kind == "f" else np.array_equal(a, b))
                    if not same:
                        r.hit({"node": t, "kind": "depends-on-target-set"},
                              f"{t} at {date} differs when requested with {len(T)} targets vs with all nodes",
                              {"date": date, "data": popgen.frame_to_json(df), "targets": T, "node": t,
                               "observed": a.tolist()[:30], "expected": b.tolist()[:30]})
            if k == 0:
                node_purity_search(r, date, df)
            # unused extra columns, debug, minimal-specification options
            T = rnd.sample(nodes, 8)
            ok, base = r.attempt("base run", popgen.simulate, df, date, targets=T)
            if not ok:
                continue
            noisy = df.assign(verif_noise_a=np.arange(len(df)) * 1.5, zzz_unused_hh=7, noise_m=1.0)
            # unused columns with adversarial names: the base names of gettsim's own group aggregates (`anz_personen` for
            # `anz_personen_hh`), which are neither functions nor inputs -- such a column is reported as unused and must not
            # redefine the aggregate
            import extract
            from _gettsim.shared import remove_group_suffix
            _, functions_now = popgen.env(date)
            bases = sorted({remove_group_suffix(k) for k in extract.aggregation_dicts("aggregate_by_group")}
                           - set(functions_now) - set(df.columns))
            pick = rnd.sample(bases, min(4, len(bases)))
            noisy_bases = df.assign(**{b: 4 for b in pick})
            shuffled = df.copy()
            shuffled.index = rnd.sample(range(1000, 1000 + len(df)), len(df))      # labels not in row order
            gaps = df.copy()
            gaps.index = sorted(rnd.sample(range(0, 3 * len(df) + 3), len(df)))   # a filtered frame's index
            agg_of_pick = [k for k in extract.aggregation_dicts("aggregate_by_group") if remove_group_suffix(k) in pick and k in nodes]
            T = list(dict.fromkeys(T + agg_of_pick[:6] + ["arbeitsl_geld_2_m_bg"]))
            ok, base = r.attempt("base run", popgen.simulate, df, date, targets=T)
            if not ok:
                continue
            variants = [("extra unused columns", dict(df=noisy)), ("debug=True", dict(df=df, debug=True)),
                        ("check_minimal_specification=warn", dict(df=noisy, check_minimal_specification="warn")),
                        (f"extra unused columns named like the base of built-in aggregates {pick}", dict(df=noisy_bases)),
                        ("debug=True, index labels not in row order", dict(df=shuffled, debug=True)),
                        ("debug=True, index with gaps", dict(df=gaps, debug=True)),
                        ("index labels not in row order", dict(df=shuffled)),
                        ("dict of Series with gapped index, debug=True", dict(df=dict(gaps), debug=True))]
            for label, kw in variants:
                d2 = kw.pop("df")
                ok, res = r.attempt(f"simulate({label}) at {date}", popgen.simulate, d2, date, targets=T, **kw)
                r.case({"date": date, "pop": k, "variant": label, "targets": sorted(T)})
                if not ok:
                    continue
                if len(res) != len(df):
                    r.hit({"node": "result", "kind": "row-count", "option": label},
                          f"{len(res)} result rows for {len(df)} input rows with {label} at {date}",
                          {"date": date, "data": popgen.frame_to_json(df), "targets": T, "option": label})
                    continue
                if "debug" in label and "p_id" in res.columns and not np.array_equal(res["p_id"].to_numpy(), df["p_id"].to_numpy()):
                    r.hit({"node": "result", "kind": "row-order", "option": label},
                          f"with {label} the result rows are not in input order at {date}", {"date": date, "option": label})
                for t in T:
                    if t not in res.columns or not np.array_equal(res[t].to_numpy(), base[t].to_numpy(), equal_nan=res[t].dtype.kind == "f"):
                        r.hit({"node": t, "kind": "depends-on-option", "option": label},
                              f"{t} at {date} changes with {label}", {"date": date, "data": popgen.frame_to_json(d2), "targets": T})
                if "debug" not in label and sorted(res.columns) != sorted(T):
                    r.hit({"node": "result", "kind": "result-columns-are-not-the-targets", "option": label},
                          f"with {label} the result has columns {sorted(set(res.columns) - set(T))[:5]} beyond the targets",
                          {"date": date, "targets": T})
            # the documented forms of the target argument: a single name as a string, a list with repetitions
            for label, targ, want in (("a single target given as a string", T[0], [T[0]]),
                                      ("targets listed twice", T[:3] + T[:3], sorted(set(T[:3])))):
                ok, res = r.attempt(f"simulate({label}) at {date}", popgen.simulate, df, date, targets=targ)
                r.case({"date": date, "pop": k, "variant": label})
                if not ok:
                    continue
                if sorted(res.columns) != sorted(want) or len(res) != len(df):
                    r.hit({"node": "result", "kind": "result-columns-are-not-the-targets", "option": label},
                          f"with {label} ({targ!r}) the result has columns {list(res.columns)[:6]} and {len(res)} rows for {len(df)} input rows",
                          {"date": date, "targets": targ})
                    continue
                for t in want:
                    if not np.array_equal(res[t].to_numpy(), base[t].to_numpy(), equal_nan=res[t].dtype.kind == "f"):
                        r.hit({"node": t, "kind": "depends-on-option", "option": label},
                              f"{t} at {date} changes with {label}", {"date": date, "targets": targ})
            r.sample({"date": date, "kinds": kinds, "target_sets": len(sets)}, limit=3)
    return r.finish()


def replay(path: str) -> int:
    d = json.load(open(path))
    print(json.dumps({k: v for k, v in d.items() if k != "data"}, ensure_ascii=False)[:1500])
    if "data" in d and "targets" in d:
        df = popgen.frame_from_json(d["data"])
        try:
            popgen.simulate(df, d["date"], targets=d["targets"])
            print("replay: the call succeeds now")
            return 0
        except Exception as e:  # noqa: BLE001
            print("replay: still raises", type(e).__name__)
    return 1
