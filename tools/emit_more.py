"""Further generated tables: the piecewise schedules in force at each of their change dates.

The merged raw pieces (after `deviation_from` resolution) are produced by the *Lean* loader
model through the driver; the parse and all well-formedness checks then happen in the kernel
(Props/C18Inst.lean).  The loader model itself is tied to the real loader by the environment
correspondence (C07/C18 checks).
"""

from __future__ import annotations

import datetime
import json
from fractions import Fraction

import common
import extract
from emit_lean import HEADER, llist, lopt, lrat, lstr


def piecewise_params():
    out = []
    for g in extract.param_groups():
        raw = extract.raw_yaml(g)
        for p, body in raw.items():
            if isinstance(body, dict) and isinstance(body.get("type"), str) and body["type"].startswith("piecewise"):
                dates = sorted(k.toordinal() for k in body if isinstance(k, datetime.date))
                # referenced parameters (cross-file deviation) change the schedule at their dates too
                for k, v in body.items():
                    if isinstance(k, datetime.date) and isinstance(v, dict) and "." in str(v.get("deviation_from", "")):
                        g2, p2 = v["deviation_from"].split(".")[:2]
                        dates += [d.toordinal() for d in extract.raw_yaml(g2).get(p2, {}) if isinstance(d, datetime.date)
                                  and d.toordinal() >= k.toordinal()]
                out.append((g, p, body["type"], bool(body.get("progressionsfaktor")), sorted(set(dates))))
    return out


def resolved_pieces():
    """[(group, param, type, prog, date, pieces-json)] via the Lean loader model."""
    import paramsio

    plist = piecewise_params()
    ops = [paramsio.load_raw_op()]
    index = []
    for g, p, typ, prog, dates in plist:
        for d in dates:
            ops.append({"op": "group", "date": d, "group": g})
            index.append((g, p, typ, prog, d))
    # one `group` op per (group, date) is enough
    uniq = {}
    lines = [ops[0]]
    for (g, p, typ, prog, d) in index:
        if (g, d) not in uniq:
            uniq[(g, d)] = len(lines)
            lines.append({"op": "group", "date": d, "group": g})
    outs = common.driver([json.dumps(o, ensure_ascii=False) for o in lines])
    res = []
    for (g, p, typ, prog, d) in index:
        j = json.loads(outs[uniq[(g, d)]])
        if "ok" not in j:
            res.append((g, p, typ, prog, d, None, j.get("err", "error")))
            continue
        tree = paramsio.dec_y(j["ok"])
        val = tree.get(p)
        res.append((g, p, typ, prog, d, val, None))
    return res


def ext(v):
    if v is None:
        return "none"
    if v in ("inf", float("inf")):
        return "(some .posInf)"
    if v in ("-inf", float("-inf")):
        return "(some .negInf)"
    return f"(some (.fin {lrat(v)}))"


def num(v):
    if v is None or isinstance(v, str):
        return "none"
    return f"(some {lrat(Fraction(int(v)) if isinstance(v, bool) else v)})"


def emit_schedules() -> str:
    rows = []
    last = {}
    for g, p, typ, prog, d, val, err in resolved_pieces():
        if val is None:
            continue  # parameter does not exist at this date (before its first entry)
        keys = sorted(k for k in val if isinstance(k, int))
        pieces = []
        for k in keys:
            pc = val[k]
            pieces.append("{ lower := %s, upper := %s, rate := %s, rateLinear := %s, rateQuadratic := %s, "
                          "rateCubic := %s, intercept := %s }" % (
                              ext(pc.get("lower_threshold")), ext(pc.get("upper_threshold")), num(pc.get("rate")),
                              num(pc.get("rate_linear")), num(pc.get("rate_quadratic")), num(pc.get("rate_cubic")),
                              num(pc.get("intercept_at_lower_threshold"))))
        body = "[" + ",\n      ".join(pieces) + "]"
        if last.get((g, p)) == body:
            continue
        last[(g, p)] = body
        degree = {"linear": 1, "quadratic": 2, "cubic": 3}.get(typ.split("_")[1], 0)
        consecutive = keys == list(range(len(keys)))
        rows.append("{ group := %s, param := %s, date := %d, degree := %d, prog := %s, keysOk := %s,\n    pieces := %s }" % (
            lstr(g), lstr(p), d, degree, str(prog).lower(), str(consecutive).lower(), body))
    return HEADER + f"""import GettsimVerif.Core.Piecewise
namespace GV.Gen
open GV.Piecewise

structure SchedEntry where
  group : String
  param : String
  date : Int
  degree : Nat
  prog : Bool
  keysOk : Bool
  pieces : List RawPiece

/-- every piecewise_* parameter at every date at which its resolved value changes ({len(rows)} entries) -/
def schedules : List SchedEntry := {llist(rows)}
end GV.Gen
"""


FILES = {"Schedules.lean": emit_schedules}


# ---------------------------------------------------------------------------------
# dependency graphs of the default targets (C08)
# ---------------------------------------------------------------------------------


_GRAPHS_CACHE = {}


def default_graphs():
    if "g" not in _GRAPHS_CACHE:
        _GRAPHS_CACHE["g"] = _default_graphs()
    return _GRAPHS_CACHE["g"]


def _default_graphs():
    """Distinct dependency graphs of the default targets for the days from 2015-01-01 on.

    The graph is built by the real `load_and_check_functions` + `dags.create_dag` with the
    documented input variables as data columns; it can only change where the function table
    changes, i.e. at validity bounds of time-dependent rules."""
    import inspect
    import networkx as nx
    import popgen
    from _gettsim.config import TYPES_INPUT_VARIABLES

    start = datetime.date(2015, 1, 1).toordinal()
    last = max(extract.all_entry_dates())
    bounds = {start}
    for e in extract.registry():
        if e["td"]:
            for b in (e["start"], e["stop"] + 1):
                if start <= b <= last:
                    bounds.add(b)
    graphs = {}
    for o in sorted(bounds):
        date = datetime.date.fromordinal(o).isoformat()
        try:
            dag, fno = popgen.graph(date)
        except Exception as ex:  # noqa: BLE001
            graphs.setdefault(("error", f"{type(ex).__name__}: {str(ex)[:200]}"), []).append(date)
            continue
        names = sorted(dag.nodes)
        idx = {n: i for i, n in enumerate(names)}
        deps = tuple(tuple(sorted(idx[p] for p in dag.predecessors(n))) for n in names)
        try:
            order = tuple(idx[n] for n in nx.lexicographical_topological_sort(dag))
        except nx.NetworkXUnfeasible:
            order = tuple(range(len(names)))
        allowed = []
        for n in names:
            f = fno.get(n)
            param_only = f is not None and all(a.endswith("_params") for a in inspect.signature(f).parameters)
            if n in TYPES_INPUT_VARIABLES or n.endswith("_params") or param_only:
                allowed.append(idx[n])
        key = (tuple(names), deps)
        if key not in graphs:
            graphs[key] = {"names": names, "deps": deps, "order": order, "allowed": tuple(allowed), "dates": []}
        graphs[key]["dates"].append(date)
    return graphs


def emit_graphs() -> str:
    gs = default_graphs()
    parts, names_index = [], []
    k = 0
    errors = []
    for key, g in gs.items():
        if key[0] == "error":
            errors.append((key[1], g))
            continue
        parts.append(
            f"/-- default-target graph in force on {', '.join(g['dates'][:6])}{' …' if len(g['dates']) > 6 else ''} "
            f"({len(g['names'])} nodes) -/\n"
            f"def graph_{k} : GV.Graph.G := {{ n := {len(g['names'])}, deps := [" +
            ", ".join("[" + ", ".join(map(str, d)) + "]" for d in g["deps"]) + "] }\n"
            f"def order_{k} : List Nat := [{', '.join(map(str, g['order']))}]\n"
            f"def allowed_{k} : List Nat := [{', '.join(map(str, g['allowed']))}]\n"
            f"def dates_{k} : List String := [{', '.join(lstr(d) for d in g['dates'])}]\n")
        names_index.append(k)
        k += 1
    body = "\n".join(parts)
    return HEADER + f"""import GettsimVerif.Core.Graph
namespace GV.Gen.Graphs
/-- number of distinct graphs from 2015-01-01 on -/
def count : Nat := {k}
/-- dates at which the real graph could not be built (must be empty) -/
def buildErrors : List String := [{', '.join(lstr(e[0] + ' @ ' + ','.join(e[1])) for e in errors)}]

{body}
def all : List (GV.Graph.G × List Nat × List Nat) := [{', '.join(f'(graph_{i}, order_{i}, allowed_{i})' for i in names_index)}]
end GV.Gen.Graphs
"""


FILES["Graphs.lean"] = emit_graphs
