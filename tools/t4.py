"""Tie T4: the REAL rule system through the real `compute_taxes_and_transfers` vs the Lean end-to-end model
`Core/Simulate.lean` (driver op "simulate", lean/GettsimVerif/DriverOps.lean: opSimulate).

Model input = every active rule of the modelled fragment (as `Lang.FunDef`, named by its DAG name, with return
annotation and rounding key), the parameter trees of the Lean loader model, gettsim's BUILT-IN aggregation
dictionaries (handed to the model as if they were user specs), a small valid population and a handful of targets
whose whole dependency cone in the real DAG consists of modelled things (fragment rules, aggregations, time
conversions, id constructors, data columns).  The real side is the unchanged `compute_taxes_and_transfers` with the
real environment of the same date.

Modes of `run_t4`:
  plain         targets whose cone contains no out-of-fragment rule;
  cut=True      the out-of-fragment rules are computed by the real code and handed to BOTH sides as data columns
                (they override the functions of the same name), targets = the nodes downstream of them;
  only_rounded  only nodes downstream of rules with a rounding specification (search for rounding-tie differences).
Comparison per target column: dtype class exactly; floats with |real - model| <= 2^-30 max(1, |model|), ints / bools
exactly, `*_id` columns as partitions; error class vs error class.  A value difference that disappears when the REAL
code is re-run with all float inputs moved by a relative 2^-45 is counted as a float-rounding boundary case, not as a
disagreement (`known_boundary_case` is a fixed example).

The model evaluates by need WITHOUT sharing (`Dag.eval`), so the cost of a target is the size of its cone unfolded
into a tree (`cones()[t]["cost"]`); targets above `max_cost` are skipped and listed.  The driver is compiled natively
(`lean_exe gvdriver` in lakefile.toml, root Driver.lean -- the same program `common.driver` interprets); if that
fails the interpreter is used and `max_cost` is divided by 15.

Command line:  python t4.py DATES N_POPS N_SETS N_TARGETS MODES[plain,cut,rounded,selftest] MAX_COST MAX_CLUSTERS
"""

from __future__ import annotations

import datetime
import functools
import json
import math
import time
from fractions import Fraction

import numpy as np

import common
import extract
import paramsio
import popgen
import ruleir
import t1

TOL = 2.0 ** -30
AGGRS = {"sum", "mean", "max", "min", "any", "all", "count"}
ERRMAP = {"ValueError": "ValueError", "KeyError": "KeyError", "TypeError": "TypeError",
          "ZeroDivisionError": "ZeroDivisionError", "IndexError": "ShapeError", "NameError": "NameError",
          "NotImplementedError": "NotImplementedError"}
RET = {"float": "float", "int": "int", "bool": "bool"}


# ---------------------------------------------------------------------------------
# the rule system of one date as model input
# ---------------------------------------------------------------------------------


@functools.lru_cache(maxsize=8)
def system(date: str) -> dict:
    o = datetime.date.fromisoformat(date).toordinal()
    kind, env_model = paramsio.model_envs([o])[0]
    if kind != "ok":
        raise RuntimeError(f"model environment at {date}: {env_model}")
    active = [e for e in extract.registry() if (not e["td"]) or e["start"] <= o <= e["stop"]]
    rules, outside, by_dag = [], {}, {}
    for e in active:
        by_dag[e["dag"]] = e
        fd = ruleir.fundef_inlined(extract.source_of(e), extract.helpers_of(e))
        opq = ruleir.opaque_nodes(fd["body"])
        if opq or e["skip_vectorization"]:
            outside[e["dag"]] = sorted(set(opq))[:3] or ["skip_vectorization"]
            continue
        # the model names a rule by `FunDef.name` (`Rule.name` in Core/Simulate.lean): the DAG name
        rules.append({"fun": {**fd, "name": e["dag"]}, "ret": RET.get(e["ret"]), "key": e["rounding_key"]})
    gspecs, unmodelled_specs = [], []
    for n, s in extract.aggregation_dicts("aggregate_by_group").items():
        if s.get("aggr") in AGGRS:
            gspecs.append([n, {k: s[k] for k in ("aggr", "source_col") if k in s}])
        else:
            unmodelled_specs.append(n)
    pspecs = []
    for n, s in extract.aggregation_dicts("aggregate_by_p_id").items():
        if s.get("aggr", "sum") == "sum":
            pspecs.append([n, {"p_id_to_aggregate_by": s["p_id_to_aggregate_by"], "source_col": s["source_col"]}])
        else:
            unmodelled_specs.append(n)
    return {"ordinal": o, "env_model": env_model, "active": active, "by_dag": by_dag, "rules": rules,
            "outside": outside, "group_specs": gspecs, "pid_specs": pspecs, "unmodelled_specs": unmodelled_specs,
            "trees": [[g, t1.enc_tree(env_model[g])] for g in env_model], "groups": list(env_model)}


@functools.lru_cache(maxsize=32)
def graph_for(date: str, cut: tuple = ()):
    """(dag, functions_not_overridden) of the real default graph; with `cut`, the nodes named in `cut` are DATA
    columns (they override the functions of the same name), and every other computed node of the default graph is a
    target."""
    if not cut:
        return popgen.graph(date)
    import warnings

    from _gettsim.config import TYPES_INPUT_VARIABLES
    from _gettsim.functions_loader import load_and_check_functions
    from _gettsim.interface import set_up_dag

    _, functions = popgen.env(date)
    t = [n for n in popgen.computed_nodes(date) if n not in cut]
    with warnings.catch_warnings():
        warnings.simplefilter("ignore")
        fno, _ = load_and_check_functions(functions, t, list(TYPES_INPUT_VARIABLES) + list(cut), {}, {})
        dag = set_up_dag(fno, t, set(), "ignore")
    return dag, fno


@functools.lru_cache(maxsize=32)
def cones(date: str, cut: tuple = ()) -> dict:
    """For every function node of the real default graph: its cone (ancestors + itself), the out-of-fragment rules
    in it, and the size of the cone unfolded into a tree (the cost of the model's by-need evaluation)."""
    import networkx as nx

    S = system(date)
    dag, fno = graph_for(date, cut)
    rule_names = set(S["by_dag"])
    bad_nodes = (set(S["outside"]) | set(S["unmodelled_specs"])) - set(cut)

    @functools.lru_cache(maxsize=None)
    def tree(n):
        return 1 + sum(tree(p) for p in dag.predecessors(n)) if n in fno else 1

    out = {}
    for n in sorted(x for x in dag.nodes if x in fno):
        cone = nx.ancestors(dag, n) | {n}
        fns = sorted(c for c in cone if c in fno)
        # `Simulate.exec` evaluates every node of the pruned DAG by need, from scratch: cost = sum of the tree sizes
        out[n] = {"cone": cone, "outside": sorted(cone & bad_nodes), "tree": tree(n), "cost": sum(tree(c) for c in fns),
                  "rules": sorted(cone & rule_names), "functions": fns}
    return out


def rule_chain(date: str, target: str, cut: tuple = (), limit=40) -> list[str]:
    """the function nodes of the target's cone in topological order (the last `limit`), derived functions marked"""
    import networkx as nx

    dag, fno = graph_for(date, cut)
    S = system(date)
    cone = nx.ancestors(dag, target) | {target}
    order = [n for n in nx.lexicographical_topological_sort(dag) if n in cone and n in fno]
    return [n + ("" if n in S["by_dag"] else "*") for n in order][-limit:]


# ---------------------------------------------------------------------------------
# encoding / decoding
# ---------------------------------------------------------------------------------


def enc_col(series) -> list:
    kind = series.dtype.kind
    vals = series.tolist()
    if kind == "b":
        return [t1.enc_val(bool(v)) for v in vals]
    if kind in "iu":
        return [t1.enc_val(int(v)) for v in vals]
    if kind == "f":
        return [{"t": "flt", "v": ruleir.fstr(Fraction(float(v)))} for v in vals]
    raise TypeError(f"column of dtype {series.dtype} cannot be represented in the model")


def data_for_model(df):
    data, dropped = [], []
    for c in df.columns:
        try:
            data.append([c, enc_col(df[c])])
        except TypeError:
            dropped.append(c)
    return data, dropped


def dec_col(vals: list):
    """(dtype class, python values): int -> int, flt -> Fraction, bool -> bool"""
    kinds = {v["t"] for v in vals}
    if kinds == {"bool"}:
        return "bool", [bool(v["v"]) for v in vals]
    if kinds == {"int"}:
        return "int", [int(v["v"]) for v in vals]
    if kinds == {"flt"}:
        return "float", [Fraction(v["v"]) for v in vals]
    return "mixed:" + ",".join(sorted(kinds)), vals


def real_class(series) -> str:
    return {"f": "float", "i": "int", "u": "int", "b": "bool"}.get(series.dtype.kind, f"dtype:{series.dtype}")


def simulate_op(S: dict, data, targets, rounding=True) -> dict:
    """the driver op "simulate" (lean/GettsimVerif/DriverOps.lean: opSimulate)"""
    return {"op": "simulate", "rules": S["rules"], "params": S["groups"], "group_specs": S["group_specs"],
            "pid_specs": S["pid_specs"], "data": data, "targets": list(targets), "rounding": rounding}


_NATIVE: dict = {}


def native_driver():
    """Path of the natively compiled line-protocol driver (`lean_exe gvdriver`, root `Driver.lean`: the same program
    that `common.driver` runs in the interpreter), or None if it cannot be built."""
    if "path" not in _NATIVE:
        exe = common.LEAN / ".lake" / "build" / "bin" / "gvdriver"
        try:
            rc, out = common.lake(["build", "gvdriver"])
        except Exception:  # noqa: BLE001
            rc = 1
        _NATIVE["path"] = exe if rc == 0 and exe.exists() else None
    return _NATIVE["path"]


def driver(lines: list[str], timeout=3000, native=True) -> list[str]:
    exe = native_driver() if native else None
    if exe is None:
        return common.driver(lines, timeout=timeout)
    import subprocess

    p = subprocess.run([str(exe)], cwd=common.LEAN, input="\n".join(lines) + "\n", capture_output=True, text=True,
                       timeout=timeout)
    outl = p.stdout.splitlines()
    if p.returncode != 0 or len(outl) != len(lines):
        raise RuntimeError(f"native driver: rc={p.returncode}, {len(outl)} lines for {len(lines)} ops:\n"
                           + p.stdout[-1500:] + p.stderr[-1500:])
    return outl


def run_model(S: dict, calls: list, native=True) -> list:
    """calls: [(data, targets[, rounding])] -> decoded driver answers"""
    ops = [paramsio.load_raw_op(), {"op": "set_trees", "trees": S["trees"]}]
    ops += [simulate_op(S, *c) for c in calls]
    outs = driver([json.dumps(x, ensure_ascii=False) for x in ops], native=native)
    return [json.loads(o) for o in outs[2:]]


# ---------------------------------------------------------------------------------
# comparison
# ---------------------------------------------------------------------------------


def cell_equal(cls: str, real, model) -> bool:
    if cls == "float":
        r = float(real)
        if math.isnan(r) or math.isinf(r):
            return False
        m = float(model)
        return abs(Fraction(r) - model) <= Fraction(TOL) * max(1, abs(model)) or r == m
    if cls == "bool":
        return bool(real) == bool(model)
    return int(real) == int(model)


def compare_column(target: str, real_series, model_vals) -> dict:
    """-> {"status": "agree" | "dtype" | "values" | "shape", ...}"""
    mcls, mv = dec_col(model_vals)
    rcls = real_class(real_series)
    rv = real_series.tolist()
    if len(rv) != len(mv):
        return {"status": "shape", "real_len": len(rv), "model_len": len(mv)}
    if target.endswith("_id"):
        # id columns: the same grouping, not the same numbers
        if mcls.startswith("mixed"):
            return {"status": "dtype", "real": rcls, "model": mcls}
        ok = popgen.same_partition([float(x) for x in rv], [float(x) for x in mv])
        out = {"status": "agree" if ok else "values", "as": "partition"}
        if not ok:
            out.update(rows=[0], real=[str(x) for x in rv], model=[str(x) for x in mv])
        elif rcls != mcls:
            out = {"status": "dtype", "real": rcls, "model": mcls, "values_agree": True}
        return out
    values_ok_loose = (not mcls.startswith("mixed")) and all(
        abs(Fraction(float(r)) - Fraction(m)) <= Fraction(TOL) * max(1, abs(Fraction(m)))
        if not (isinstance(r, float) and (math.isnan(r) or math.isinf(r))) else False for r, m in zip(rv, mv))
    if rcls != mcls:
        return {"status": "dtype", "real": rcls, "model": mcls, "values_agree": values_ok_loose}
    badrows = [i for i, (r, m) in enumerate(zip(rv, mv)) if not cell_equal(rcls, r, m)]
    if badrows:
        return {"status": "values", "rows": badrows, "class": rcls,
                "real": [repr(rv[i]) for i in badrows[:5]],
                "model": [(str(mv[i]) + (f" (~{float(mv[i])!r})" if rcls == "float" else "")) for i in badrows[:5]]}
    return {"status": "agree"}


# ---------------------------------------------------------------------------------
# the run
# ---------------------------------------------------------------------------------


class TargetQueue:
    """Targets are dealt from a shuffled queue of all qualifying nodes (so that a run covers as many DISTINCT nodes as
    it has slots), plus `n_default` qualifying default targets per call."""

    def __init__(self, rnd):
        self.rnd = rnd
        self.queues: dict = {}

    def take(self, key, C: dict, n_targets: int, max_cost: int, n_default: int = 2) -> list[str]:
        from _gettsim.config import DEFAULT_TARGETS

        ok = sorted(n for n, c in C.items() if not c["outside"] and c["cost"] <= max_cost)
        if not ok:
            return []
        dflt = [t for t in DEFAULT_TARGETS if t in ok]
        chosen = self.rnd.sample(dflt, min(n_default, len(dflt), n_targets))
        q = self.queues.setdefault(key, [])
        guard = 0
        while len(chosen) < min(n_targets, len(ok)) and guard < 4 * len(ok) + 8:
            guard += 1
            if not q:
                q.extend(self.rnd.sample(ok, len(ok)))
            n = q.pop()
            if n in ok and n not in chosen:
                chosen.append(n)
        return sorted(chosen)


def cut_columns(df, date: str, S: dict):
    """The out-of-fragment rule nodes of the default graph, computed by the REAL code, as additional data columns
    (only int / float / bool columns without NaN / inf can be handed to the model)."""
    C0 = cones(date)
    cand = sorted(n for n in S["outside"] if n in C0)
    with np.errstate(all="ignore"):
        res = popgen.simulate(df, date, targets=cand)
    df2 = df.copy()
    cut, not_cut = [], []
    for n in cand:
        col = res[n]
        if col.dtype.kind in "iub" or (col.dtype.kind == "f" and bool(np.isfinite(col.to_numpy()).all())):
            df2[n] = col.to_numpy()
            cut.append(n)
        else:
            not_cut.append(n)
    return df2, tuple(cut), not_cut


def represent(df, rnd):
    """another valid presentation of the same table: some int columns as whole floats, some bool columns as 0/1
    numbers (conversions gettsim documents as lossless)"""
    from _gettsim.config import TYPES_INPUT_VARIABLES

    d = df.copy()
    parts = []
    ints = [c for c, t in TYPES_INPUT_VARIABLES.items() if t is int and c in d.columns]
    bools = [c for c, t in TYPES_INPUT_VARIABLES.items() if t is bool and c in d.columns]
    for c in rnd.sample(ints, rnd.randint(1, 4)):
        d[c] = d[c].astype(float)
        parts.append(f"{c} as float")
    for c in rnd.sample(bools, rnd.randint(1, 3)):
        t = rnd.choice([int, float])
        d[c] = d[c].astype(t)
        parts.append(f"{c} as {t.__name__}")
    return d, parts


def corrupt(df, rnd, T, C):
    """(table, targets, what): an INVALID call (the real code must raise; so must the model)"""
    d = df.copy()
    kinds = ["dup_p_id", "dangling_pointer", "self_pointer", "alter_not_whole", "bool_as_2", "missing_input",
             "unknown_target"]
    hh_sizes = d.groupby("hh_id").size()
    if (hh_sizes > 1).any():
        kinds.append("hh_var_not_constant")
    k = rnd.choice(kinds)
    i = rnd.randrange(len(d))
    if k == "dup_p_id":
        if len(d) < 2:
            k = "self_pointer"
        else:
            j = (i + 1) % len(d)
            d.loc[j, "p_id"] = d.loc[i, "p_id"]
    if k == "dangling_pointer":
        d.loc[i, rnd.choice(["p_id_elternteil_1", "p_id_elternteil_2", "p_id_ehepartner", "p_id_einstandspartner"])] = \
            int(d["p_id"].max()) + 7
    elif k == "self_pointer":
        d.loc[i, rnd.choice(["p_id_elternteil_1", "p_id_ehepartner", "p_id_einstandspartner"])] = int(d.loc[i, "p_id"])
    elif k == "alter_not_whole":
        d["alter"] = d["alter"].astype(float)
        d.loc[i, "alter"] = float(d.loc[i, "alter"]) + 0.5
    elif k == "bool_as_2":
        d["kind"] = d["kind"].astype(int)
        d.loc[i, "kind"] = 2
    elif k == "missing_input":
        inputs = sorted({c for t in T for c in C[t]["cone"] if c in d.columns and c not in ("p_id", "hh_id")})
        if inputs:
            col = rnd.choice(inputs)
            d = d.drop(columns=[col])
            k += ":" + col
        else:
            k = "unknown_target"
    elif k == "hh_var_not_constant":
        h = rnd.choice(list(hh_sizes[hh_sizes > 1].index))
        i = d.index[d["hh_id"] == h][0]
        d.loc[i, "bruttokaltmiete_m_hh"] = float(d.loc[i, "bruttokaltmiete_m_hh"]) + 1.0
    if k == "unknown_target":
        T = sorted([*T, "no_such_node_m"])
    return d, T, k


def nontrivial(series) -> bool:
    a = series.to_numpy()
    return bool(np.any(a != a[0])) or bool(a[0] not in (0, False))


def call_real(df, date, T, rounding):
    try:
        with np.errstate(all="ignore"):
            return ("ok", popgen.simulate(df, date, targets=T, rounding=rounding))
    except Exception as ex:  # noqa: BLE001
        return ("error", ERRMAP.get(type(ex).__name__, "Error"), f"{type(ex).__name__}: {str(ex)[:300]}")


def at_float_boundary(df, date, T, rounding, t, rows, mvals) -> bool:
    """A rule that branches exactly at a float-rounding boundary may legitimately differ (the model computes in exact
    rationals).  Recognised by re-running the REAL code with every float input moved by a relative 2^-45 up / down:
    if the real result at the disagreeing rows then equals the model's, the difference is a rounding-boundary case."""
    cls, mv = dec_col(mvals)
    for f in (1 + 2.0 ** -45, 1 - 2.0 ** -45):
        d = df.copy()
        for c in d.columns:
            if d[c].dtype.kind == "f":
                d[c] = d[c] * f
        r = call_real(d, date, T, rounding)
        if r[0] != "ok" or real_class(r[1][t]) != cls:
            continue
        rv = r[1][t].tolist()
        if all(cell_equal(cls, rv[i], mv[i]) for i in rows):
            return True
    return False


def known_boundary_case():
    """The one kind of difference between model and code found so far, as a fixed example (2023-07-01, one person):
    `grundr_zuschlag_höchstwert_m` is rounded to 0.0667, `grundr_bew_zeiten_avg_entgeltp` = 9.9 / 200 = 0.0495, so
    `grundr_zuschlag_bonus_entgeltp` = (0.0667 - 0.0495) * 0.875 = 0.01505 EXACTLY on a tie of its rounding
    (base 0.0001, "nearest").  The float computation gives 0.015050000000000001 -> 0.0151; the model computes with the
    exact value of the float 9.9 (slightly above 9.9), gets a value slightly below the tie -> 0.0150.
    Returns (status of the plain comparison, recognised as a float-rounding boundary?)."""
    date, t = "2023-07-01", "grundr_zuschlag_bonus_entgeltp"
    df, _ = popgen.population(common.rng("t4/boundary"), date, kinds=["single"], relabel=False, shuffle=False)
    df.loc[0, "grundr_zeiten"], df.loc[0, "grundr_bew_zeiten"], df.loc[0, "grundr_entgeltp"] = 480, 200, 9.9
    S = system(date)
    ans = run_model(S, [(data_for_model(df)[0], [t], True)])[0]
    real = call_real(df, date, [t], True)[1]
    col = dict(ans["ok"])[t]
    c = compare_column(t, real[t], col)
    return c, c["status"] == "values" and at_float_boundary(df, date, [t], True, t, c["rows"], col)


def run_t4(run: common.Run, rnd, date: str, n_pops: int, n_targets: int = 6, n_sets: int = 4,
           max_cost: int = 200_000, cut: bool = False, variations: bool = True, max_clusters: int = 2,
           only_rounded: bool = False, near_copies_every: int = 4, label: str | None = None):
    """`n_pops` populations x `n_sets` target sets of `n_targets` targets each (+ one invalid call per population).

    cut=False: targets whose whole cone in the real DAG consists of modelled things.
    cut=True:  the values of the out-of-fragment rules (computed by the real code) are handed to BOTH sides as data
               columns, which override the functions of the same name; targets are the nodes downstream of them.
    max_cost:  bound on the number of node evaluations of the model's by-need evaluation of one target
               (about 15 microseconds each per 10 rows with the native driver, 15 times more in the interpreter).
    variations: a quarter of the calls with rounding=False, a third of the populations in another valid
               representation (ints as whole floats, bools as 0/1), every fourth population a "finite-difference" table
               (`popgen.near_copies`: copies of one person whose wage / income steps by fractions of a cent across a
               statutory threshold -- the place where exact and float arithmetic may take different branches), one
               INVALID call per population.
    only_rounded: targets are only the nodes downstream of a rule with a rounding specification (where exact and float
               arithmetic can part: a value sitting exactly on a rounding tie)."""
    name = f"T4: real rule system vs Core/Simulate.lean at {date}" + (" (cut at out-of-fragment rules)" if cut else "") \
        + (" (nodes downstream of rounded rules)" if only_rounded else "")
    keyed = {r["fun"]["name"] for r in system(date)["rules"] if r["key"]}
    t0 = time.time()
    S = system(date)
    _, functions = popgen.env(date)
    if native_driver() is None:
        max_cost //= 15
    # the registry read from the files must be the function set the real environment uses
    if set(functions) != set(S["by_dag"]):
        run.broke("correspondence", name, "active rules (registry) differ from the real environment's functions: "
                  + str(sorted(set(functions) ^ set(S["by_dag"]))[:10]))
    queue = TargetQueue(rnd)
    meta = []
    for ip in range(n_pops):
        if variations and ip % near_copies_every == near_copies_every - 1:
            df, kinds = popgen.near_copies(rnd, date)
        else:
            df, kinds = popgen.population(rnd, date, n_clusters=rnd.randint(1, max_clusters))
        K, not_cut, how = (), [], []
        if cut:
            df, K, not_cut = cut_columns(df, date, S)
        if variations and rnd.random() < 0.34:
            df, how = represent(df, rnd)
        C = cones(date, K)
        # with cut: only nodes that depend on a cut column (the others are covered by the run without cut)
        Cq = {n: c for n, c in C.items() if c["cone"] & set(K)} if cut else C
        if only_rounded:
            Cq = {n: c for n, c in Cq.items() if set(c["rules"]) & keyed}
        data, dropped = data_for_model(df)
        base = {"pop": ip, "kinds": kinds, "cut": K, "not_cut": not_cut, "representation": how, "dropped": dropped}
        for _ in range(n_sets):
            T = queue.take(K, Cq, n_targets, max_cost)
            if T:
                meta.append({**base, "df": df, "data": data, "targets": T,
                             "rounding": not (variations and rnd.random() < 0.25), "invalid": None})
        T = queue.take(K, Cq, min(2, n_targets), min(max_cost, 2000), n_default=0)
        if T and variations:
            d2, T2, what = corrupt(df, rnd, T, C)
            meta.append({**base, "df": d2, "data": data_for_model(d2)[0], "targets": T2, "rounding": True,
                         "invalid": what})
    t_model0 = time.time()
    answers = run_model(S, [(m["data"], m["targets"], m["rounding"]) for m in meta])
    t_model = time.time() - t_model0
    stats = {"calls": len(meta), "calls_with_rounding_off": sum(not m["rounding"] for m in meta),
             "calls_on_another_representation": sum(bool(m["representation"]) for m in meta),
             "invalid_calls": sum(m["invalid"] is not None for m in meta),
             "targets_compared": 0, "columns_compared": 0, "columns_nontrivial": 0,
             "cells_compared": 0, "agreements": 0, "disagreements": 0, "float_rounding_boundary_cases": 0,
             "float_rounding_boundary_examples": [],
             "dtype_differs_values_agree": 0, "error_outcomes_compared": 0, "error_outcomes": {},
             "kinds_of_disagreement": {}}
    nodes_compared, nodes_agree, nodes_disagree = set(), set(), set()
    cone_functions, cone_rules = set(), set()
    t_real = 0.0

    def disagree(kind, detail):
        stats["disagreements"] += 1
        stats["kinds_of_disagreement"][kind] = stats["kinds_of_disagreement"].get(kind, 0) + 1
        run.broke("correspondence", name, json.dumps(detail, ensure_ascii=False, default=str))

    for m, ans in zip(meta, answers):
        df, T, K = m["df"], m["targets"], m["cut"]
        C = cones(date, K)
        ctx = {"population": m["kinds"], "representation": m["representation"], "rounding": m["rounding"],
               "invalid": m["invalid"], "cut": list(K)}
        if "bad" in ans:
            run.broke("correspondence", name, f"driver rejected the call: {ans['bad']}")
            continue
        tr0 = time.time()
        real = call_real(df, date, T, m["rounding"])
        t_real += time.time() - tr0
        run.evaluations += 1
        run.traces += 1
        run.case({"t4": date, "targets": T, "data": popgen.frame_to_json(df)})
        if real[0] == "error" or "error" in ans:
            stats["error_outcomes_compared"] += 1
            r = real[1] if real[0] == "error" else "ok"
            mo = ans.get("error", "ok")
            key = f"{m['invalid'] or 'valid call'}: real {r}"
            stats["error_outcomes"][key.split(":")[0] + ": " + r] = stats["error_outcomes"].get(
                key.split(":")[0] + ": " + r, 0) + 1
            if r != mo:
                disagree(f"outcome: real {r}, model {mo}",
                         {"targets": T, "real": real[1:] if real[0] == "error" else "ok", "model": mo, **ctx,
                          "data": popgen.frame_to_json(df)})
            else:
                stats["agreements"] += 1
            continue
        res = real[1]
        mcols = dict((n, c) for n, c in ans["ok"])
        for t in T:
            stats["targets_compared"] += 1
            stats["columns_compared"] += 1
            stats["cells_compared"] += len(df)
            nodes_compared.add(t)
            cone_functions.update(C[t]["functions"])
            cone_rules.update(C[t]["rules"])
            if t not in mcols or t not in res.columns:
                cmpr = {"status": "missing", "in_real": t in res.columns, "in_model": t in mcols}
            else:
                cmpr = compare_column(t, res[t], mcols[t])
                stats["columns_nontrivial"] += nontrivial(res[t])
            if cmpr["status"] == "agree":
                stats["agreements"] += 1
                nodes_agree.add(t)
                continue
            if cmpr["status"] == "values" and "rows" in cmpr and at_float_boundary(
                    df, date, T, m["rounding"], t, cmpr["rows"], mcols[t]):
                # counted separately, not a disagreement of model and code
                stats["float_rounding_boundary_cases"] += 1
                if len(stats["float_rounding_boundary_examples"]) < 5:
                    stats["float_rounding_boundary_examples"].append(
                        {"target": t, "rows": cmpr["rows"], "real": cmpr["real"], "model": cmpr["model"],
                         "rounding": m["rounding"], "population": m["kinds"]})
                continue
            nodes_disagree.add(t)
            if cmpr["status"] == "dtype" and cmpr.get("values_agree"):
                stats["dtype_differs_values_agree"] += 1
            k = cmpr["status"] + (f": real {cmpr['real']}, model {cmpr['model']}" if cmpr["status"] == "dtype" else "")
            disagree(k, {"target": t, **cmpr, **ctx, "chain (* = derived function)": rule_chain(date, t, K),
                         "data": popgen.frame_to_json(df)})
    Ks = sorted({m["cut"] for m in meta}, key=len)
    Kl = Ks[-1] if Ks else ()
    Cl = cones(date, Kl)
    skipped = sorted(n for n, c in Cl.items() if c["outside"])
    qualifying = [n for n, c in Cl.items() if not c["outside"] and (not cut or c["cone"] & set(Kl))
                  and (not only_rounded or set(c["rules"]) & keyed)]
    too_big = sorted(n for n in qualifying if Cl[n]["cost"] > max_cost)
    run.extra.setdefault("correspondence", {})[label or name] = {
        **stats,
        "agreement_rate": round(stats["agreements"] / max(1, stats["agreements"] + stats["disagreements"]), 4),
        "active_rules": len(S["active"]), "rules_given_to_the_model": len(S["rules"]),
        "rules_outside_the_fragment": sorted(S["outside"]),
        "cut_columns": [list(k) for k in Ks] if cut else [],
        "out_of_fragment_nodes_that_cannot_be_cut": sorted({x for m in meta for x in m["not_cut"]}),
        "function_nodes_of_the_graph": len(Cl),
        "nodes_qualifying_as_targets": len(qualifying),
        "nodes_skipped_out_of_fragment_rule_in_cone": len(skipped),
        "nodes_skipped_model_evaluation_too_expensive": too_big,
        "distinct_nodes_compared": len(nodes_compared),
        "distinct_nodes_agreeing_everywhere": len(nodes_agree - nodes_disagree),
        "distinct_nodes_with_a_disagreement": sorted(nodes_disagree),
        "distinct_function_nodes_in_the_compared_cones": len(cone_functions),
        "distinct_rules_in_the_compared_cones": len(cone_rules),
        "driver": "native (lean_exe gvdriver)" if native_driver() else "interpreter (lean --run Driver.lean)",
        "seconds": {"model": round(t_model, 1), "real": round(t_real, 1), "total": round(time.time() - t0, 1)}}
    return run.extra["correspondence"][label or name]


if __name__ == "__main__":
    import sys

    common.quiet()
    dates = sys.argv[1].split(",") if len(sys.argv) > 1 else popgen.DATES_QUICK
    n_pops = int(sys.argv[2]) if len(sys.argv) > 2 else 5
    n_sets = int(sys.argv[3]) if len(sys.argv) > 3 else 6
    n_targets = int(sys.argv[4]) if len(sys.argv) > 4 else 6
    # modes: plain | cut | rounded
    modes = sys.argv[5].split(",") if len(sys.argv) > 5 else ["plain", "cut"]
    max_cost = int(sys.argv[6]) if len(sys.argv) > 6 else 200_000
    max_clusters = int(sys.argv[7]) if len(sys.argv) > 7 else 2
    run = common.Run("T4", "adhoc")
    if "selftest" in modes:
        print("known float-rounding boundary case:", known_boundary_case())
        modes = [m for m in modes if m != "selftest"]
    for d in dates:
        for mode in modes:
            st = run_t4(run, common.rng(f"t4/{d}/{mode}"), d, n_pops, n_targets, n_sets, max_cost, cut=mode == "cut",
                        max_clusters=max_clusters, only_rounded=mode == "rounded",
                        near_copies_every=2 if mode == "rounded" else 4)
            print(json.dumps({f"{d} {mode}": st}, indent=1, ensure_ascii=False))
    for b in run.broken:
        print("BROKEN", b["name"], b["detail"][:3000])


def run_t4_quick(run, rnd, quick=True, with_cut=False):
    """The configuration used by the checks: the real rule system vs Core/Simulate.lean at the two quick dates (thorough:
    more dates, populations and target sets); `with_cut` also runs the mode in which out-of-fragment rule nodes are
    supplied as data to both sides, which reaches the deep benefit chains."""
    import popgen
    dates = popgen.DATES_QUICK if quick else popgen.DATES_2015[::3]
    for date in dates:
        run_t4(run, rnd, date, 2 if quick else 5, 6, n_sets=4 if quick else 6)
        if with_cut:
            run_t4(run, rnd, date, 1 if quick else 3, 6, n_sets=2 if quick else 4, cut=True, label=f"T4 (cut) at {date}")
