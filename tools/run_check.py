"""Entry point: ./check Cxx [--tier quick|thorough] [--replay file]."""
import argparse
import importlib
import os
import sys
import traceback

sys.path.insert(0, os.path.dirname(os.path.abspath(__file__)))


def main():
    ap = argparse.ArgumentParser()
    ap.add_argument("prop")
    ap.add_argument("--tier", default=os.environ.get("VERIF_TIER", "quick"),
                    choices=["quick", "thorough"])
    ap.add_argument("--replay", default=None)
    a = ap.parse_args()
    import common
    common.quiet()
    try:
        mod = importlib.import_module(f"check_{a.prop}")
    except ModuleNotFoundError:
        print(f"no check for {a.prop}", file=sys.stderr)
        sys.exit(2)
    try:
        if a.replay:
            rc = mod.replay(a.replay)
        else:
            rc = mod.run(a.tier)
    except Exception as e:
        tb = traceback.format_exc()
        frames = traceback.extract_tb(e.__traceback__)
        in_repo = [f for f in frames if str(common.REPO) in f.filename]
        if in_repo and not a.replay:
            # the implementation itself raised on an input the harness feeds it on every run of the unchanged
            # tree: the exploration could not be carried out, so the property is no longer shown to hold
            sys.stderr.write(tb)
            r = common.Run(a.prop, a.tier)
            r.rule = "the check aborted because gettsim raised"
            r.oblige("the check ran to completion", False, f"{type(e).__name__}: {str(e)[:200]}")
            r.broke("implementation-raises", f"{type(e).__name__} in {in_repo[-1].filename.split('/src/')[-1]}:{in_repo[-1].lineno} "
                    f"({in_repo[-1].name}) while running the check: {str(e)[:300]}", tb[-3000:])
            r.case({"aborted": str(e)[:100]})
            r.case({"aborted-2": tb[-200:]})
            sys.exit(r.finish())
        sys.stderr.write(tb)  # infrastructure error, never reported as a violation
        sys.exit(2)
    sys.exit(rc)


if __name__ == "__main__":
    main()
