"""Entry point: ./check Cxx [--tier quick|thorough] [--replay file]."""
import argparse
import importlib
import os
import sys
import traceback

sys.path.insert(0, os.path.dirname(os.path.abspath(__file__)))


def main():
    ap = argparse.ArgumentParser()
    ap.add_argument("prop")
    ap.add_argument("--tier", default=os.environ.get("VERIF_TIER", "quick"),
                    choices=["quick", "thorough"])
    ap.add_argument("--replay", default=None)
    a = ap.parse_args()
    import common
    common.quiet()
    try:
        mod = importlib.import_module(f"check_{a.prop}")
    except ModuleNotFoundError:
        print(f"no check for {a.prop}", file=sys.stderr)
        sys.exit(2)
    try:
        if a.replay:
            rc = mod.replay(a.replay)
        else:
            rc = mod.run(a.tier)
    except Exception:  # infrastructure error, never reported as a violation
        traceback.print_exc()
        sys.exit(2)
    sys.exit(rc)


if __name__ == "__main__":
    main()
