"""Static result-kind analysis of the scalar rules (verified: Core/TypeInfer.lean, Props/C03Types.lean):
for every rule of the modelled fragment active at a date, the set of kinds (int / flt / bool / inf / str / tree / none)
its result can have, given the kinds of its arguments (from the annotations) and the parameter trees of that date."""

from __future__ import annotations

import datetime
import json

import common
import extract
import paramsio
import ruleir
import t1

KINDS = {"float": ["flt"], "int": ["int"], "bool": ["bool"]}


def result_kinds(date: str):
    """[(registry entry, declared, answer of the driver)] for the rules of the fragment active at `date`."""
    o = datetime.date.fromisoformat(date).toordinal()
    kind, env_model = paramsio.model_envs([o])[0]
    if kind != "ok":
        raise RuntimeError(f"model environment at {date}: {env_model}")
    trees = [[g, t1.enc_tree(env_model[g])] for g in env_model]
    active = [e for e in extract.registry() if (not e["td"]) or e["start"] <= o <= e["stop"]]
    ops = [paramsio.load_raw_op(), {"op": "set_trees", "trees": trees}]
    plan, outside = [], []
    for e in active:
        fd = ruleir.fundef_inlined(extract.source_of(e), extract.helpers_of(e))
        if ruleir.opaque_nodes(fd["body"]) or e["skip_vectorization"]:
            outside.append(e["fname"])
            continue
        if any(a.endswith("_params") and a[:-7] not in env_model for a in e["args"]):
            outside.append(e["fname"])
            continue
        args, fixed = [], []
        for a in e["args"]:
            if a.endswith("_params"):
                args.append(["tree"])
                fixed.append([a, a[:-7]])
            else:
                args.append(KINDS.get(e["arg_types"].get(a), ["int", "flt", "bool"]))
        op = {"op": "type_infer", "fun": fd, "args": args, "fixed": fixed}
        if e.get("ret") in KINDS:
            op["declared"] = e["ret"]
        ops.append(op)
        plan.append(e)
    outs = common.driver([json.dumps(x, ensure_ascii=False) for x in ops])
    return [(e, e.get("ret"), json.loads(o_)) for e, o_ in zip(plan, outs[2:])], outside
