"""Throw-away differential fuzzer: random toy systems -> real compute_taxes_and_transfers + Lean terms.

usage: fuzz.py SEED N  -> writes Fuzz.lean (Lean program printing model results) and fuzz_real.txt
"""
import random, sys, warnings, os
import numpy as np, pandas as pd
warnings.filterwarnings("ignore")
from gettsim import compute_taxes_and_transfers
from _gettsim.shared import policy_info

ERRMAP = {"ValueError": "ValueError", "KeyError": "KeyError", "TypeError": "TypeError",
          "ZeroDivisionError": "ZeroDivisionError", "IndexError": "ShapeError", "NameError": "NameError",
          "NotImplementedError": "NotImplementedError"}

def fmt(v):
    if isinstance(v, (bool, np.bool_)): return "True" if v else "False"
    if isinstance(v, (int, np.integer)): return str(int(v))
    return f"{float(v) + 0.0:.6f}"

# ------------------------------------------------------------------ expressions
# ("c", value) | ("n", name) | ("bin", op, a, b) | ("neg", a) | ("cmp", first, [(op, e)...])
# | ("bool", isAnd, [e...]) | ("not", a) | ("if", c, a, b) | ("call", f, [e...]) | ("sub", e, key)
BIN = {"add": "+", "sub": "-", "mul": "*", "div": "/"}
CMP = {"lt": "<", "le": "<=", "gt": ">", "ge": ">=", "eq": "==", "ne": "!="}

def py_expr(e):
    t = e[0]
    if t == "c": return repr(e[1])
    if t == "n": return e[1]
    if t == "bin": return f"({py_expr(e[2])} {BIN[e[1]]} {py_expr(e[3])})"
    if t == "neg": return f"(-{py_expr(e[1])})"
    if t == "cmp": return "(" + py_expr(e[1]) + "".join(f" {CMP[o]} {py_expr(x)}" for o, x in e[2]) + ")"
    if t == "bool": return "(" + (" and " if e[1] else " or ").join(py_expr(x) for x in e[2]) + ")"
    if t == "not": return f"(not {py_expr(e[1])})"
    if t == "if": return f"({py_expr(e[2])} if {py_expr(e[1])} else {py_expr(e[3])})"
    if t == "call": return f"{e[1]}(" + ", ".join(py_expr(x) for x in e[2]) + ")"
    if t == "sub": return f"{py_expr(e[1])}[{e[2]!r}]"
    raise ValueError(t)

def py_block(stmts, ind):
    pad = "    " * ind
    out = ""
    for st in stmts:
        if st[0] == "ret": out += f"{pad}return {py_expr(st[1])}\n"
        elif st[0] == "assign": out += f"{pad}{st[1]} = {py_expr(st[2])}\n"
        elif st[0] == "aug": out += f"{pad}{st[1]} {BIN[st[2]]}= {py_expr(st[3])}\n"
        elif st[0] == "ite":
            out += f"{pad}if {py_expr(st[1])}:\n" + (py_block(st[2], ind + 1) if st[2] else f"{pad}    pass\n")
            if st[3]: out += f"{pad}else:\n" + py_block(st[3], ind + 1)
    return out

def lean_block(stmts):
    out = []
    for st in stmts:
        if st[0] == "ret": out.append(f".ret {lean_expr(st[1])}")
        elif st[0] == "assign": out.append(f'.assign "{st[1]}" {lean_expr(st[2])}')
        elif st[0] == "aug": out.append(f'.aug "{st[1]}" .{st[2]} {lean_expr(st[3])}')
        elif st[0] == "ite": out.append(f".ite {lean_expr(st[1])} {lean_block(st[2])} {lean_block(st[3])}")
    return "[" + ", ".join(out) + "]"

def lean_rat(v):
    from fractions import Fraction
    f = Fraction(v)
    return f"({f.numerator}/{f.denominator} : Rat)" if f.denominator != 1 else f"({f.numerator} : Rat)"

def lean_val(v):
    if isinstance(v, bool): return f"(.bool {'true' if v else 'false'})"
    if isinstance(v, int): return f"(.int ({v}))"
    return f"(.flt {lean_rat(v)})"

def lean_expr(e):
    t = e[0]
    if t == "c": return f"(.const {lean_val(e[1])})"
    if t == "n": return f'(.name "{e[1]}")'
    if t == "bin": return f"(.bin .{e[1]} {lean_expr(e[2])} {lean_expr(e[3])})"
    if t == "neg": return f"(.neg {lean_expr(e[1])})"
    if t == "cmp": return f"(.cmp {lean_expr(e[1])} [" + ", ".join(f"(.{o}, {lean_expr(x)})" for o, x in e[2]) + "])"
    if t == "bool": return f"(.boolop {'true' if e[1] else 'false'} [" + ", ".join(lean_expr(x) for x in e[2]) + "])"
    if t == "not": return f"(.not {lean_expr(e[1])})"
    if t == "if": return f"(.ifexp {lean_expr(e[1])} {lean_expr(e[2])} {lean_expr(e[3])})"
    if t == "call": return f'(.call "{e[1]}" [' + ", ".join(lean_expr(x) for x in e[2]) + "])"
    if t == "sub": return f'(.sub {lean_expr(e[1])} (.const (.str "{e[2]}")))'
    raise ValueError(t)

CONSTS = [0, 1, 2, 3, -1, 0.5, 1.5, 2.0, 0.25, -1.0, 4, 12, True, False]

def gen_expr(rng, args, pargs, depth):
    """args: column argument names, pargs: parameter argument names"""
    leaves = []
    if args: leaves += [("n", a) for a in args] * 3
    leaves += [("sub", ("n", p), rng.choice(["c1", "c2", "c1", "nokey"] if rng.random() < 0.15 else ["c1", "c2"])) for p in pargs] * 2
    if depth <= 0 or rng.random() < 0.25:
        if leaves and rng.random() < 0.75: return rng.choice(leaves)
        return ("c", rng.choice(CONSTS))
    r = rng.random()
    sub = lambda: gen_expr(rng, args, pargs, depth - 1)
    if r < 0.40: return ("bin", rng.choice(["add", "sub", "mul", "add", "sub", "mul", "div"]), sub(), sub())
    if r < 0.45: return ("neg", sub())
    if r < 0.60:
        k = 1 if rng.random() < 0.8 else 2
        return ("cmp", sub(), [(rng.choice(list(CMP)), sub()) for _ in range(k)])
    if r < 0.68: return ("bool", rng.random() < 0.5, [sub() for _ in range(rng.choice([2, 2, 3]))])
    if r < 0.72: return ("not", sub())
    if r < 0.87: return ("if", sub(), sub(), sub())
    if r < 0.95: return ("call", rng.choice(["min", "max"]), [sub(), sub()])
    return ("call", rng.choice(["abs", "float"]), [sub()])

# ------------------------------------------------------------------ systems
TYN = {"float": float, "int": int, "bool": bool}
SUFF = ["hh", "wthh", "fg", "bg", "eg", "ehe", "sn"]

def gen_system(rng):
    n = rng.choice([1, 2, 3, 4, 5, 6])
    pids = rng.sample(range(0, 12), n)
    data = {}  # name -> (kind, values)
    data["p_id"] = ("int", pids) if rng.random() < 0.9 else ("float", [float(p) for p in pids])
    hh = sorted(rng.choice([0, 1, 2, 5]) for _ in range(n))
    data["hh_id"] = ("int", hh) if rng.random() < 0.85 else ("float", [float(h) for h in hh])
    dy = [0.0, 0.5, 1.0, 1.5, 2.0, 2.5, 3.0, -1.0, 4.0, 10.0, 0.25, 7.0]
    data["x1"] = ("float", [rng.choice(dy) for _ in range(n)])
    if rng.random() < 0.7: data["x2_m"] = ("float", [rng.choice(dy) for _ in range(n)])
    data["k1"] = ("int", [rng.choice([-2, 0, 1, 2, 3, 7, 24, 30]) for _ in range(n)])
    if rng.random() < 0.7: data["f1"] = ("bool", [rng.random() < 0.5 for _ in range(n)])
    if os.environ.get("FUZZ_MODE") == "probe":
        data["f1"] = ("bool", [rng.random() < 0.5 for _ in range(n)])
        data["f2"] = ("bool", [rng.random() < 0.5 for _ in range(n)])
        data["f3_m"] = ("bool", [rng.random() < 0.5 for _ in range(n)])
    def ptr(allow_self=False):
        out = []
        for i in range(n):
            c = [-1, -1] + [p for p in pids if allow_self or p != pids[i]]
            out.append(rng.choice(c))
        return out
    if rng.random() < 0.7:
        vals = ptr(True)
        if rng.random() < 0.05: vals[rng.randrange(n)] = 99
        data["p_id_recv"] = ("int", vals) if rng.random() < 0.93 else ("float", [float(v) for v in vals])
    std = rng.random() < 0.6
    if std:
        # symmetric partner pointers
        partner = [-1] * n
        free = list(range(n)); rng.shuffle(free)
        while len(free) >= 2 and rng.random() < 0.6:
            a, b = free.pop(), free.pop()
            partner[a], partner[b] = pids[b], pids[a]
        data["p_id_einstandspartner"] = ("int", partner)
        data["p_id_ehepartner"] = ("int", list(partner) if rng.random() < 0.7 else ptr())
        data["p_id_elternteil_1"] = ("int", ptr())
        data["p_id_elternteil_2"] = ("int", ptr())
        data["alter"] = ("int", [rng.choice([3, 10, 17, 24, 25, 30, 40, 70]) for _ in range(n)])
        data["eigenbedarf_gedeckt"] = ("bool", [rng.random() < 0.5 for _ in range(n)])
        gv = [rng.random() < 0.6 for _ in range(n)]
        if rng.random() < 0.8:
            for i in range(n):
                if partner[i] >= 0: gv[i] = gv[pids.index(partner[i])]
        data["gemeinsam_veranlagt"] = ("bool", gv)
        data["wohngeld_vorrang_bg"] = ("bool", [rng.random() < 0.5 for _ in range(n)])
        if rng.random() < 0.8: data["wohngeld_kinderzuschl_vorrang_bg"] = ("bool", [rng.random() < 0.3 for _ in range(n)])
    if rng.random() < 0.2: data["sn_id"] = ("int", sorted(rng.choice([0, 1, 3]) for _ in range(n)))
    if rng.random() < 0.15:
        # a group-level data column (constant within hh most of the time)
        per = {h: rng.choice(dy) for h in set(hh)}
        vals = [per[h] for h in hh]
        if rng.random() < 0.2 and n > 1: vals[rng.randrange(n)] = rng.choice(dy)
        data["g1_hh"] = ("float", vals)

    if "x2_m" in data and rng.random() < 0.35:
        # a group-level, time-suffixed data column whose individual-level counterpart exists as well
        per = {h: rng.choice(dy) for h in set(hh)}
        data["x2_m_hh"] = ("float", [per[h] for h in hh])
    # ---- rule names
    nrules = rng.choice([1, 2, 3, 4, 5, 6])
    names = []
    for i in range(nrules):
        nm = f"r{i}"
        if rng.random() < 0.45: nm += "_" + rng.choice("ymwd")
        if rng.random() < 0.12: nm += "_" + rng.choice(SUFF if std else ["hh"])
        names.append(nm)
    if rng.random() < 0.08: names.append(rng.choice(["alter", "wohngeld_vorrang_bg", "fg_id", "x1", "hh_id"]))
    if rng.random() < 0.05 and names: names.append(names[0])  # duplicate name: later definition wins
    import re
    GS = ["hh"] * 3 + (SUFF if std else []) + (SUFF if rng.random() < 0.1 else [])
    def variants(nm):
        """names derived from nm"""
        out = [nm, nm]
        for _ in range(2):
            out.append(nm + "_" + rng.choice(GS))
        m = re.fullmatch(r"(.*_)([ymwd])((_(hh|wthh|fg|bg|eg|ehe|sn))?)", nm)
        if m:
            for u in "ymwd":
                if u != m.group(2):
                    out.append(m.group(1) + u + m.group(3))
                    if not m.group(3): out.append(m.group(1) + u + "_" + rng.choice(GS))
        if rng.random() < 0.1: out.append(nm + "_sn_hh")
        if rng.random() < 0.05: out.append(nm + "_hh_sn")
        return out
    pspecs = {}
    for i in range(rng.choice([0, 0, 1, 2])):
        nm = f"p{i}" + (("_" + rng.choice("ymwd")) if rng.random() < 0.5 else "")
        src = rng.choice(names + list(data) + ["nonexistent"])
        # the source may be a column that only a time conversion (of a data column / a rule) or a group sum provides
        if rng.random() < 0.3 and src != "nonexistent":
            src = rng.choice(variants(src))
        pspecs[nm] = {"p_id_to_aggregate_by": rng.choice(["p_id_recv"] * 4 + ["p_id_einstandspartner", "k1", "x1"]),
                      "source_col": src, "aggr": "sum"}
    universe = list(data) + names + list(pspecs)
    rules = []
    for i, nm in enumerate(names):
        nargs = rng.choice([0, 1, 1, 2, 2, 3]) if rng.random() < 0.97 else 0
        cands = []
        for u in universe:
            if u == nm: continue
            if u in names and names.index(u) >= i and rng.random() < 0.9: continue  # mostly acyclic
            if u in ("p_id", "hh_id", "sn_id") or u.startswith("p_id_"):
                cands += [u]
            else:
                cands += variants(u) if rng.random() < 0.5 else [u]
        cands += ["missing_col"] if rng.random() < 0.02 else []
        cands += [g + "_id" for g in ["wthh", "fg", "bg", "eg", "ehe", "sn"]] if std and rng.random() < 0.3 else []
        args = []
        for _ in range(nargs):
            a = rng.choice(cands)
            if a not in args and a != nm: args.append(a)
        pargs = []
        if rng.random() < 0.3: pargs.append("grp_params")
        if rng.random() < 0.05: pargs.append("nogrp_params")
        if nargs == 0 and not pargs and rng.random() < 0.8: pargs.append("grp_params")
        allargs = args + pargs
        rng.shuffle(allargs)
        d_ = rng.choice([1, 2, 2, 3])
        form = rng.random()
        if form < 0.6:
            body = [("ret", gen_expr(rng, args, pargs, d_))]
        elif form < 0.75:
            body = [("assign", "t", gen_expr(rng, args, pargs, d_ - 1)),
                    ("ret", gen_expr(rng, args + ["t"], pargs, d_ - 1))]
        elif form < 0.9:
            body = [("ite", gen_expr(rng, args, pargs, d_ - 1), [("ret", gen_expr(rng, args, pargs, d_ - 1))],
                     [("ret", gen_expr(rng, args, pargs, d_ - 1))])]
        else:
            body = [("assign", "t", gen_expr(rng, args, pargs, d_ - 1)),
                    ("ite", gen_expr(rng, args + ["t"], pargs, 1), [("aug", "t", rng.choice(["add", "sub", "mul", "div"]), gen_expr(rng, args, pargs, 1))], []),
                    ("ret", ("n", "t"))]
        ret = rng.choice(["float", "float", "int", "bool", None, None])
        if os.environ.get("FUZZ_MODE") == "probe" and rng.random() < 0.7: ret = None
        key = rng.choice(["grp", "grp", "grp", "nogrp"]) if rng.random() < 0.3 else None
        rules.append(dict(name=nm, args=allargs, body=body, ret=ret, key=key))
    # ---- params
    rspecs = {}
    for r in rules:
        if r["key"] == "grp" and rng.random() < 0.85:
            spec = {"base": rng.choice([0.5, 1.0, 2.0, 0.25, 10.0, 1.0]), "direction": rng.choice(["up", "down", "nearest", "nearest"])}
            if rng.random() < 0.3: spec["to_add_after_rounding"] = rng.choice([0.5, 1.0, -0.25])
            if rng.random() < 0.04: del spec["direction"]
            if rng.random() < 0.04: spec["direction"] = "sideways"
            rspecs[r["name"]] = spec
    params = {"grp": {"c1": rng.choice([1.5, 2.0, 0.0, -0.5]), "c2": rng.choice([0.25, 3.0, 12.0]), "rounding": rspecs}}
    if rng.random() < 0.05: params = {}
    # ---- group specs
    gspecs = {}
    fnames = [r["name"] for r in rules]
    for i in range(rng.choice([0, 0, 1, 2, 3])):
        if rng.random() < 0.4 and fnames:
            nm = rng.choice(fnames) + "_" + rng.choice(SUFF)
        else:
            nm = f"s{i}" + (("_" + rng.choice("ymwd")) if rng.random() < 0.3 else "") + "_" + rng.choice(SUFF if std else ["hh"])
        if rng.random() < 0.03: nm = f"s{i}"
        aggr = rng.choice(["sum", "mean", "max", "min", "any", "all", "count"])
        spec = {"aggr": aggr}
        if aggr != "count" or rng.random() < 0.3:
            spec["source_col"] = rng.choice(fnames + list(data) + list(pspecs) + ["nonexistent"] if rng.random() < 0.9 else ["nonexistent"])
            # the source of a specification may itself be an automatic group sum (`max over a_m_hh`)
            if rng.random() < 0.25 and spec["source_col"] != "nonexistent":
                spec["source_col"] = spec["source_col"] + "_" + rng.choice(SUFF if std else ["hh"])
        if aggr != "count" and rng.random() < 0.02: del spec["source_col"]
        gspecs[nm] = spec
    # ---- targets
    cands = []
    for u in fnames + list(pspecs) + list(gspecs):
        cands += variants(u)
    cands += list(gspecs)
    if std: cands += [g + "_id" for g in ["wthh", "fg", "bg", "eg", "ehe", "sn"]] * 2
    if "x2_m_hh" in data: cands += ["x2_y_hh", "x2_w_hh", "x2_y_hh"]
    for dcol in ["x1", "x2_m", "k1", "f1"]:
        if dcol in data: cands += [dcol + "_hh"] + ([dcol[:-1] + "y", dcol[:-1] + "y_hh"] if dcol.endswith("_m") else [])
    nt = rng.choice([1, 1, 2, 3, 4])
    # bias towards targets that exist: probe is expensive, so just sample
    targets = [rng.choice(cands) for _ in range(nt)]
    if rng.random() < 0.03: targets.append("junk")
    if rng.random() < 0.03: targets.append(rng.choice(list(data)))
    # the functions are handed over as a list of callables or (documented alternative) as a dict column name -> callable,
    # in which the callables' own `__name__`s are unrelated to the column names
    as_dict = rng.random() < 0.3 and len({r["name"] for r in rules}) == len(rules)
    return dict(data=data, rules=rules, params=params, gspecs=gspecs, pspecs=pspecs, targets=targets,
                rounding=rng.random() < 0.75, as_dict=as_dict)

# ------------------------------------------------------------------ run real
def make_func(r, pyname=None):
    sig = ", ".join(f"{a}" for a in r["args"])
    ann = f" -> {r['ret']}" if r["ret"] else ""
    pyname = pyname or r["name"]
    src = f"def {pyname}({sig}){ann}:\n" + py_block(r["body"], 1)
    ns = {}
    exec(src, ns)
    f = ns[pyname]
    if r["key"]:
        f = policy_info(params_key_for_rounding=r["key"])(f)
    return f, src

def run_real(s):
    dt = {"int": "int64", "float": "float64", "bool": "bool"}
    data = {k: pd.Series(v, dtype=dt[t]) for k, (t, v) in s["data"].items()}
    funcs = []
    for r in s["rules"]:
        f, _ = make_func(r)
        funcs.append(f)
    if s.get("as_dict"):
        funcs = {r["name"]: make_func(r, pyname=f"impl_{i}")[0] for i, r in enumerate(s["rules"])}
    out = []
    try:
        with np.errstate(all="ignore"):
            res = compute_taxes_and_transfers(data=data, params=s["params"], functions=funcs,
                                              aggregate_by_group_specs=s["gspecs"], aggregate_by_p_id_specs=s["pspecs"],
                                              targets=s["targets"], rounding=s["rounding"])
        for c in res.columns:
            kind = {"f": "float", "i": "int", "b": "bool", "O": "object"}[res[c].dtype.kind]
            if kind == "object":
                v0 = res[c].tolist()[0]
                kind = "bool" if isinstance(v0, (bool, np.bool_)) else "int" if isinstance(v0, (int, np.integer)) else "float"
            out.append(f"   {c}: {kind} [{', '.join(fmt(v) for v in res[c].tolist())}]")
    except Exception as e:
        out.append(f"   ERROR {ERRMAP.get(type(e).__name__, 'Error')}")
        out.append(f"#  {type(e).__name__}: {str(e)[:150]!r}")
    return out

# ------------------------------------------------------------------ Lean
def lean_str_list(xs): return "[" + ", ".join(f'"{x}"' for x in xs) + "]"

def lean_y(v):
    if isinstance(v, dict): return "(.dict [" + ", ".join(f'(.s "{k}", {lean_y(x)})' for k, x in v.items()) + "])"
    if isinstance(v, bool): return f"(.bool {'true' if v else 'false'})"
    if isinstance(v, str): return f'(.str "{v}")'
    return f"(.num {lean_rat(v)})"

def lean_system(s):
    rules = []
    for r in s["rules"]:
        ret = f"(some .{r['ret']})" if r["ret"] else "none"
        key = f'(some "{r["key"]}")' if r["key"] else "none"
        rules.append(f'{{ name := "{r["name"]}", fn := {{ name := "{r["name"]}", args := {lean_str_list(r["args"])}, '
                     f'body := {lean_block(r["body"])} }}, ret := {ret}, roundingKey := {key} }}')
    def col(t, v):
        if t == "int": return "[" + ", ".join(f".int ({x})" for x in v) + "]"
        if t == "float": return "[" + ", ".join(f".flt {lean_rat(x)}" for x in v) + "]"
        return "[" + ", ".join(f".bool {'true' if x else 'false'}" for x in v) + "]"
    data = ", ".join(f'("{k}", {col(t, v)})' for k, (t, v) in s["data"].items())
    params = ", ".join(f'("{k}", .tree {lean_y(v)})' for k, v in s["params"].items())
    gs = ", ".join(f'("{k}", {{ aggr := .{v["aggr"]}, source := ' + (f'some "{v["source_col"]}"' if "source_col" in v else "none") + " })"
                   for k, v in s["gspecs"].items())
    ps = ", ".join(f'("{k}", {{ pIdToAggregateBy := "{v["p_id_to_aggregate_by"]}", source := "{v["source_col"]}" }})' for k, v in s["pspecs"].items())
    return ("{ rules := [" + ",\n      ".join(rules) + "],\n    params := [" + params + "],\n    groupSpecs := [" + gs + "],\n    pidSpecs := [" + ps +
            "],\n    data := [" + data + "],\n    targets := " + lean_str_list(s["targets"]) + f",\n    rounding := {'true' if s['rounding'] else 'false'} }}")

LEAN_HEAD = '''import GettsimVerif.Core.Simulate
open GV GV.Simulate GV.Lang GV.Yaml
set_option maxRecDepth 100000
namespace FZ
def fmtRat (q : Rat) : String :=
  let scaled := GV.Round.roundHalfEven (q * 1000000)
  let a := scaled.natAbs
  let fs := toString (a % 1000000)
  (if scaled < 0 then "-" else "") ++ toString (a / 1000000) ++ "." ++ String.ofList (List.replicate (6 - fs.length) '0') ++ fs
def fmtVal : Val → String
  | .int i => toString i | .flt q => fmtRat q | .bool b => if b then "True" else "False" | _ => "?"
def kindOf (c : Column) : String :=
  match c with | .int _ :: _ => "int" | .flt _ :: _ => "float" | .bool _ :: _ => "bool" | _ => "?"
def showRes (name : String) (inp : Input) : IO Unit := do
  IO.println s!"== {name}"
  match simulateFrame inp with
  | .ok t => for (n, c) in t do IO.println s!"   {n}: {kindOf c} [{", ".intercalate (c.map fmtVal)}]"
  | .error e => IO.println s!"   ERROR {e}"
'''

def main():
    seed, N = int(sys.argv[1]), int(sys.argv[2])
    rng = random.Random(seed)
    real_lines, lean_defs, calls, srcs = [], [], [], []
    for i in range(N):
        picky = rng.random() < 0.75
        for _ in range(30):
            s = gen_system(rng)
            rl = run_real(s)
            boring = any(("no corresponding function" in l and "MissingFunctionsError" not in l) or "data columns are missing" in l
                         or "duplicate parameter" in l or "needs to have a suffix" in l for l in rl)
            if not (picky and boring): break
        real_lines.append(f"== sys{i}")
        real_lines += rl
        lean_defs.append(f"def sys{i} : Input :=\n  {lean_system(s)}\n")
        calls.append(f'  showRes "sys{i}" sys{i}')
        srcs.append(f"### sys{i}\n" + "".join(make_func(r)[1] + (f"# key={r['key']}\n" if r["key"] else "") for r in s["rules"]) +
                    f"data={s['data']}\nparams={s['params']}\ngspecs={s['gspecs']}\npspecs={s['pspecs']}\ntargets={s['targets']} rounding={s['rounding']}\n")
    open("fuzz_real.txt", "w").write("\n".join(real_lines) + "\n")
    open("fuzz_src.txt", "w").write("\n".join(srcs))
    open("Fuzz.lean", "w").write(LEAN_HEAD + "\n".join(lean_defs) + "\ndef main : IO Unit := do\n" + "\n".join(calls) + "\nend FZ\n#eval FZ.main\n")

main()
