#!/bin/bash
# tools/seed_recheck.sh <seed-id> "<checks>" : apply a stored seeded change to /repo, run the quick checks, revert.
ID=$1; CHECKS=$2; DST=/verif/seeded/$ID
cd /verif
git -C /repo apply $DST/patch.diff || exit 2
for c in $CHECKS; do
  OUT=$(./check $c --tier quick 2>&1 | grep -v conda)
  N=$(echo "$OUT" | grep -c "^VIOLATION")
  FIRST=$(echo "$OUT" | grep -A1 "^VIOLATION" | head -2 | tr '\n' ' ' | cut -c1-400)
  echo "check $c: violations=$N :: $FIRST"
  python3 - "$ID" "$c" "$N" "$FIRST" <<'PY'
import json,sys
i,c,n,first=sys.argv[1:5]
p=f'/verif/seeded/{i}/meta.json'; m=json.load(open(p))
cr=m["checks_run_on_the_change"]
if isinstance(cr,str): cr=eval(cr)
cr=[x for x in cr if x["check"]!=c]+[{"check":c,"violation_lines":int(n),"first":first}]
m["checks_run_on_the_change"]=cr
json.dump(m,open(p,'w'),indent=1,ensure_ascii=False)
PY
done
git -C /repo checkout -- . ; git -C /repo status --short | head -3
