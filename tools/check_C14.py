"""C14 — simulation is pure, deterministic and independent of process history."""

from __future__ import annotations

import copy
import hashlib
import importlib
import json
import os
import random
import subprocess
import sys
import warnings
from concurrent.futures import ThreadPoolExecutor

import numpy as np

import common
import extract

HERE = os.path.dirname(os.path.abspath(__file__))


# ---------------------------------------------------------------------------------
# operations (executed identically in this process and in fresh interpreters)
# ---------------------------------------------------------------------------------


def _hash(obj) -> str:
    return hashlib.sha256(json.dumps(obj, sort_keys=True, default=_canon, ensure_ascii=False).encode()).hexdigest()[:20]


def _canon(o):
    if isinstance(o, np.ndarray):
        return [_canon(x) for x in o.tolist()]
    if isinstance(o, (np.floating, float)):
        return repr(float(o))
    if isinstance(o, (np.integer,)):
        return int(o)
    if isinstance(o, (np.bool_,)):
        return bool(o)
    if isinstance(o, np.datetime64):
        return str(o)
    if hasattr(o, "isoformat"):
        return o.isoformat()
    return repr(o)


def _params_digest(params):
    def walk(v):
        if isinstance(v, dict):
            return {str(k): walk(x) for k, x in v.items()}
        if isinstance(v, np.ndarray):
            return [walk(x) for x in v.tolist()]
        if isinstance(v, (list, tuple)):
            return [walk(x) for x in v]
        return _canon(v) if not isinstance(v, (str, bool, int, type(None))) else v
    return _hash(walk(params))


def _functions_digest(functions) -> dict:
    """The caller's function collection: which objects it holds and every attribute those function objects carry."""
    items = functions.items() if isinstance(functions, dict) else enumerate(functions)
    out = {}
    for k, f in items:
        try:
            attrs = sorted((a, _state_repr(v)[:200]) for a, v in vars(f).items())
        except TypeError:
            attrs = []
        out[str(k)] = _hash([id(f), attrs])
    return out


def _frame_digest(df):
    return _hash({c: [repr(x) for x in df[c].tolist()] + [str(df[c].dtype)] for c in df.columns})


def exec_op(op: dict, keep: dict | None = None) -> str:
    """Run one API call and return a digest of everything it returns."""
    import popgen
    from gettsim import compute_taxes_and_transfers, set_up_policy_environment

    with warnings.catch_warnings():
        warnings.simplefilter("ignore")
        if op["op"] == "setup":
            params, functions = set_up_policy_environment(op["date"])
            return _hash([_params_digest(params), sorted((k, f.__module__, f.__name__) for k, f in functions.items())])
        if op["op"] in ("simulate", "reform"):
            params, functions = set_up_policy_environment(op["date"])
            df, _ = popgen.population(random.Random(op["seed"]), op["date"], n_clusters=2)
            if op["op"] == "reform":
                params = copy.deepcopy(params)
                params["kindergeld"]["kindergeld"] = {k: v + 50 for k, v in params["kindergeld"]["kindergeld"].items()} \
                    if isinstance(params["kindergeld"].get("kindergeld"), dict) else params["kindergeld"]["kindergeld"]

                def sozialv_beitr_arbeitnehmer_m(ges_rentenv_beitr_arbeitnehmer_m: float) -> float:
                    return ges_rentenv_beitr_arbeitnehmer_m * 2.0

                functions = {**functions, "sozialv_beitr_arbeitnehmer_m": sozialv_beitr_arbeitnehmer_m}
            data = dict(df) if op.get("as_dict") else df
            if op.get("int_as_float"):
                data = dict(df)
                data["alter"] = data["alter"].astype(float)
            before = {k: id(v) for k, v in data.items()} if isinstance(data, dict) else None
            snap = _params_digest(params)
            fsnap = _functions_digest(functions)
            res = compute_taxes_and_transfers(data=data, params=params, functions=functions,
                                              targets=op.get("targets"), rounding=op.get("rounding", True))
            if keep is not None:
                keep["data_mutated"] = before is not None and before != {k: id(v) for k, v in data.items()}
                keep["params_mutated"] = snap != _params_digest(params)
                after = _functions_digest(functions)
                if after != fsnap:
                    keep["functions_mutated"] = sorted(k for k in set(after) | set(fsnap) if after.get(k) != fsnap.get(k))[:5]
            return _frame_digest(res)
        if op["op"] == "reform_wrapper":
            # a reform written as a decorator-style wrapper around the function the environment hands out
            import functools
            params, functions = set_up_policy_environment(op["date"])
            df, _ = popgen.population(random.Random(op["seed"]), op["date"], n_clusters=2)
            name = op["rule"] if op["rule"] in functions else "kindergeld_m"
            orig = functions[name]

            @functools.wraps(orig)
            def wrapper(*a, **k):
                return orig(*a, **k) * 2.0

            res = compute_taxes_and_transfers(data=df, params=params, functions={**functions, name: wrapper},
                                              targets=[name], rounding=False)
            return _frame_digest(res)
        if op["op"] == "reform_aggspec":
            # a reform that re-defines a built-in aggregate through the documented aggregation-spec arguments
            params, functions = set_up_policy_environment(op["date"])
            df, _ = popgen.population(random.Random(op["seed"]), op["date"], n_clusters=2)
            kw = {}
            g = extract.aggregation_dicts("aggregate_by_group")
            if op["group_key"] in g:
                kw["aggregate_by_group_specs"] = {op["group_key"]: {"aggr": "sum", "source_col": "kind"}}
            p = extract.aggregation_dicts("aggregate_by_p_id")
            if op["pid_key"] in p:
                kw["aggregate_by_p_id_specs"] = {op["pid_key"]: {**p[op["pid_key"]], "aggr": "sum", "source_col": "kind"}}
            snap = json.dumps(kw, sort_keys=True)
            try:
                res = compute_taxes_and_transfers(data=df, params=params, functions=functions,
                                                  targets=[op["group_key"], op["pid_key"], "arbeitsl_geld_2_m_bg"], **kw)
            except ZeroDivisionError:
                # the reform itself can make a rule divide by zero (a head count re-defined as the number of children is 0
                # in a childless household); that outcome must then be the same in a fresh process, which is what is compared
                return _hash(["err", "ZeroDivisionError"])
            if keep is not None:
                keep["params_mutated"] = snap != json.dumps(kw, sort_keys=True)
            return _frame_digest(res)
        if op["op"] == "reform_inplace":
            # a user edits the environment they were handed, in place, and simulates with it; nothing of this may
            # reach environments set up later
            params, functions = set_up_policy_environment(op["date"])
            leaves = []

            def walk(t, path):
                if isinstance(t, dict):
                    for k, v in t.items():
                        if k not in ("rounding", "datum"):
                            walk(v, path + [k])
                elif isinstance(t, (int, float)) and not isinstance(t, bool) and np.isfinite(t):
                    leaves.append(path)

            walk(params, [])
            rr = random.Random(op["seed"])
            for path in rr.sample(leaves, min(len(leaves), 40)):
                cur = params
                for k in path[:-1]:
                    cur = cur[k]
                cur[path[-1]] = cur[path[-1]] * 1.5 + 1
            return _params_digest(params)
        if op["op"] == "vectorize":
            from _gettsim.vectorization import make_vectorizable
            mod = importlib.import_module(op["module"])
            f = getattr(mod, op["rule"])
            g = make_vectorizable(f, backend="numpy")
            import inspect
            args = list(inspect.signature(f).parameters)
            params, _ = set_up_policy_environment(op["date"])
            kw = {}
            for a in args:
                if a.endswith("_params"):
                    kw[a] = params[a[:-7]]
                else:
                    t = f.__annotations__.get(a)
                    kw[a] = np.asarray([True, False, True]) if t in (bool, "bool") else \
                        np.asarray([1, 30, 70]) if t in (int, "int") else np.asarray([0.0, 1500.5, 90000.0])
            try:
                out = g(**kw)
                return _hash(["ok", np.asarray(out).tolist()])
            except Exception as e:  # noqa: BLE001
                return _hash(["err", type(e).__name__])
    raise ValueError(op)


def _state_repr(o, depth=0):
    """Canonical text of a module-level value: containers by content, functions/classes by qualified name."""
    if depth > 6:
        return "…"
    if isinstance(o, dict):
        return "{" + ",".join(sorted(f"{_state_repr(k, depth + 1)}:{_state_repr(v, depth + 1)}" for k, v in o.items())) + "}"
    if isinstance(o, (list, tuple)):
        return "[" + ",".join(_state_repr(v, depth + 1) for v in o) + "]"
    if isinstance(o, (set, frozenset)):
        return "{" + ",".join(sorted(_state_repr(v, depth + 1) for v in o)) + "}"
    if callable(o):
        return f"<{getattr(o, '__module__', '?')}.{getattr(o, '__qualname__', type(o).__name__)}>"
    if isinstance(o, (str, int, float, bool, type(None))):
        return repr(o)
    if isinstance(o, np.ndarray):
        return "nd" + repr(o.tolist())
    return f"<{type(o).__module__}.{type(o).__name__}>"


def process_state() -> dict:
    """What the model's PState abstracts: identities of the rule functions bound in their modules, names injected
    into the module namespaces, length of the registry -- and a digest of EVERY module-level container (dict, list,
    set, tuple) of every loaded `_gettsim` module (aggregation specs, configuration tables, registries, caches)."""
    from _gettsim.shared import TIME_DEPENDENT_FUNCTIONS
    mods = {}
    injected = {}
    for e in extract.registry():
        m = sys.modules.get(e["module"])
        if m is None:
            continue
        fobj = getattr(m, e["fname"], None)
        try:
            attrs = sorted((a, _state_repr(v)[:120]) for a, v in vars(fobj).items())
        except TypeError:
            attrs = []
        mods[f"{e['module']}.{e['fname']}"] = _hash([id(fobj), attrs])
        injected[e["module"]] = sorted(k for k in vars(m) if k in ("numpy", "jax", "jax.numpy"))
    containers = {}
    for name, m in sorted(sys.modules.items()):
        if not (name == "_gettsim" or name.startswith("_gettsim.")) or m is None or name.startswith("_gettsim_tests"):
            continue
        for k, v in sorted(vars(m).items()):
            if k.startswith("__") or not isinstance(v, (dict, list, set, tuple)):
                continue
            containers[f"{name}.{k}"] = hashlib.sha256(_state_repr(v).encode()).hexdigest()[:12]
        # caches hidden in function objects (functools.lru_cache and friends)
        for k, v in sorted(vars(m).items()):
            info = getattr(v, "cache_info", None)
            if callable(info) and getattr(v, "__module__", None) == name:
                try:
                    containers[f"{name}.{k}.cache"] = "lru_cache present"
                except Exception:  # noqa: BLE001
                    pass
    return {"modules": mods, "injected": injected, "containers": containers,
            "registry": sum(len(v) for v in TIME_DEPENDENT_FUNCTIONS.values())}


def fresh(op: dict) -> str:
    p = subprocess.run([sys.executable, os.path.join(HERE, "check_C14.py"), "--worker", json.dumps(op)],
                       capture_output=True, text=True, timeout=600, env={**os.environ, "PYTHONDONTWRITEBYTECODE": "1"})
    lines = [l for l in p.stdout.splitlines() if l.startswith("DIGEST ")]
    if not lines:
        return "fresh-process-failed: " + (p.stderr[-300:] or p.stdout[-300:])
    return lines[-1][7:]


def random_history(rnd, length):
    dates = ["2019-07-01", "2023-07-01", "2015-01-01", "2021-01-01", "2024-07-01"]
    rules = [e for e in extract.registry() if not e["skip_vectorization"] and e["ret"] in ("float", "bool", "int")
             and not e["td"] and len(e["args"]) <= 4]
    h = []
    for _ in range(length):
        k = rnd.random()
        d = rnd.choice(dates)
        if k < 0.2:
            h.append({"op": "setup", "date": d})
        elif k < 0.6:
            h.append({"op": "simulate", "date": d, "seed": rnd.randint(0, 50),
                      "targets": rnd.choice([None, ["kindergeld_m", "eink_st_y_sn"], ["arbeitsl_geld_2_m_bg"]]),
                      "rounding": rnd.random() < 0.7, "as_dict": rnd.random() < 0.5,
                      "int_as_float": rnd.random() < 0.3})
        elif k < 0.7:
            h.append({"op": "reform", "date": d, "seed": rnd.randint(0, 50), "targets": ["kindergeld_m", "sozialv_beitr_arbeitnehmer_m"]})
        elif k < 0.74:
            h.append({"op": "reform_wrapper", "date": d, "seed": rnd.randint(0, 50),
                      "rule": rnd.choice(["kindergeld_m", "elterngeld_m", "arbeitsl_geld_m", "eink_st_y_sn", "wohngeld_m_wthh"])})
        elif k < 0.78:
            h.append({"op": "reform_inplace", "date": d, "seed": rnd.randint(0, 50)})
        elif k < 0.86:
            h.append({"op": "reform_aggspec", "date": d, "seed": rnd.randint(0, 50),
                      "group_key": rnd.choice(["anz_kinder_bis_6_fg", "anz_personen_hh", "anz_erwachsene_bg", "anz_kinder_bis_17_hh"]),
                      "pid_key": "kindergeld_anz_ansprüche"})
        else:
            e = rnd.choice(rules)
            h.append({"op": "vectorize", "rule": e["fname"], "module": e["module"], "date": d})
    return h


def run(tier: str) -> int:
    r = common.Run("C14", tier)
    quick = tier == "quick"
    r.rule = ("random histories of real API calls in one process (set-up for a date, simulate a population with targets / "
              "rounding / DataFrame or dict input / a column needing conversion, reform of parameters and functions, in-place edit of "
              "a returned environment, re-definition of built-in aggregates through aggregation specs, rewrite a rule into array form); "
              "after every step the process state (identity of every rule function in its module, injected names, registry "
              "length, digest of every module-level container of every _gettsim module) and the caller's objects are compared with the state machine model (fixed transition = identity); "
              "every call's result digest is compared with the same call in a fresh interpreter, and with its own repetition. "
              "distinct = distinct (history prefix, call).")
    common.build_and_audit(r, ["C14"], leanchecker=not quick)
    rnd = common.rng("C14")
    import _gettsim.functions  # noqa: F401  (import everything as a fresh process would)
    n_hist, length = (2, 7) if quick else (12, 12)
    with ThreadPoolExecutor(max_workers=12) as pool:
        for hi in range(n_hist):
            h = random_history(rnd, length)
            d0 = rnd.choice(["2021-01-01", "2023-07-01", "2019-07-01"])
            y = int(d0[:4])
            h = h[:2] + [{"op": "reform_inplace", "date": f"{y}-03-01", "seed": rnd.randint(0, 50)},
                         {"op": "reform_aggspec", "date": d0, "seed": rnd.randint(0, 50), "group_key": "anz_kinder_bis_6_fg",
                          "pid_key": "kindergeld_anz_ansprüche"},
                         {"op": "setup", "date": d0},
                         {"op": "simulate", "date": d0, "seed": rnd.randint(0, 50), "targets": None, "rounding": True,
                          "as_dict": False, "int_as_float": False},
                         {"op": "reform_wrapper", "date": d0, "seed": rnd.randint(0, 50), "rule": "kindergeld_m"}] + h[2:]
            futures = [pool.submit(fresh, op) for op in h]
            s0 = process_state()
            prefix = []
            for op, fut in zip(h, futures):
                keep = {}
                ok, d1 = r.attempt(f"history {hi}: {op['op']}", exec_op, op, keep)
                if not ok:
                    continue
                prefix.append(op)
                r.case({"history": [json.dumps(x, sort_keys=True) for x in prefix]})
                r.traces += 1
                s1 = process_state()
                # modules imported lazily bring new containers: they join the baseline, only changes count
                for k2, v2 in s1["containers"].items():
                    s0["containers"].setdefault(k2, v2)
                if s1 != s0:
                    changed = [k for k in s1["modules"] if s1["modules"][k] != s0["modules"].get(k)][:3]
                    inj = {k: v for k, v in s1["injected"].items() if v != s0["injected"].get(k)}
                    cont = sorted(k for k in set(s1["containers"]) | set(s0["containers"])
                                  if s1["containers"].get(k) != s0["containers"].get(k))[:4]
                    r.hit({"kind": "process-state-changed", "op": op["op"]},
                          f"after {op['op']} the process state differs from the initial one: rebound {changed}, injected {inj}, "
                          f"module-level containers changed {cont}, registry {s0['registry']} -> {s1['registry']}",
                          {"history": prefix})
                    r.broke("correspondence", "process state vs Core/Process.lean (fixed transition = identity)", json.dumps(op))
                    s0 = s1
                if keep.get("data_mutated"):
                    r.hit({"kind": "caller-data-mutated", "op": op["op"]},
                          "the dict of Series passed as data was modified by the call", {"history": prefix})
                if keep.get("functions_mutated"):
                    r.hit({"kind": "caller-functions-mutated", "op": op["op"]},
                          f"function objects of the collection passed by the caller were modified by the call (new / changed "
                          f"attributes): {keep['functions_mutated']}", {"history": prefix})
                if keep.get("params_mutated"):
                    r.hit({"kind": "caller-params-mutated", "op": op["op"]},
                          "the params dictionary passed by the caller was modified by the call", {"history": prefix})
                d_fresh = fut.result()
                if d_fresh.startswith("fresh-process-failed"):
                    r.broke("search", "fresh-process oracle", d_fresh)
                elif d_fresh != d1:
                    r.hit({"kind": "history-dependence", "op": op["op"]},
                          f"{op['op']} after {len(prefix) - 1} earlier calls returns a different result than in a fresh process",
                          {"history": prefix, "digest_in_history": d1, "digest_fresh": d_fresh})
                ok, d2 = r.attempt("repeat", exec_op, op)
                if ok and d2 != d1:
                    r.hit({"kind": "non-deterministic", "op": op["op"]},
                          f"repeating {op['op']} immediately gives a different result", {"history": prefix})
            r.sample({"history": h[:4]}, limit=2)
    return r.finish()


def replay(path: str) -> int:
    d = json.load(open(path))
    print(json.dumps(d, ensure_ascii=False)[:1500])
    return 1


if __name__ == "__main__" and len(sys.argv) > 2 and sys.argv[1] == "--worker":
    sys.path.insert(0, HERE)
    warnings.filterwarnings("ignore")
    print("DIGEST " + exec_op(json.loads(sys.argv[2])))
