"""Chains of rules as functions of one real input (the gross wage), for the verified symbolic
evaluator Core/Sym.lean: built from the *real* dependency graph at a date, with every rule's
syntax tree taken from /repo's source (rule IR, validated by T1)."""

from __future__ import annotations

import datetime
import inspect
import json
import math
from fractions import Fraction

import networkx as nx
import numpy as np

import common
import extract
import paramsio
import popgen
import ruleir
import t1

UNITS = {"y": Fraction(1), "m": Fraction(12), "w": Fraction(36525, 700), "d": Fraction(36525, 100)}


def single_person(date: str, **over):
    import random
    p = popgen.Pop(random.Random(7), date)
    p.cluster("single")
    df = p.frame(relabel=False, shuffle=False)
    base = dict(alter=40, geburtsjahr=int(date[:4]) - 40, rentner=False, selbstständig=False, in_priv_krankenv=False,
                kind=False, eink_selbst_m=0.0, bruttolohn_m=2000.0, priv_rente_m=0.0, entgeltp_ost=0.0, entgeltp_west=0.0,
                ges_pflegev_hat_kinder=True, wohnort_ost=False, arbeitsstunden_w=40.0,
                # an employee without a statutory pension: the column is supplied (C05), so the pension
                # rules (rounded, Hinzuverdienst) are not part of the contribution chain
                ges_rente_m=0.0)
    base.update(over)
    for k, v in base.items():
        df[k] = v
    return popgen.to_frame(df.to_dict("records"))


def val_json(v):
    if isinstance(v, (bool, np.bool_)):
        return {"t": "bool", "v": bool(v)}
    if isinstance(v, (int, np.integer)):
        return {"t": "int", "v": int(v)}
    if isinstance(v, (float, np.floating)):
        f = float(v)
        if math.isinf(f):
            return {"t": "inf", "neg": f < 0}
        return {"t": "flt", "v": ruleir.fstr(Fraction(f))}
    raise TypeError(type(v))


def build_chain(date: str, targets: list[str], df=None, wname="bruttolohn_m"):
    """-> (chain json, info) ; info['unsupported'] lists w-dependent nodes outside the fragment."""
    df = single_person(date) if df is None else df
    dag, fno = graph_for(date, tuple(targets), tuple(df.columns))
    _, functions = popgen.env(date)
    real = popgen.simulate(df, date, targets=[n for n in dag.nodes if n in fno])
    for c in df.columns:
        if c not in real.columns:
            real[c] = df[c].to_numpy()
    o = datetime.date.fromisoformat(date).toordinal()
    kind, env_model = paramsio.model_envs([o])[0]
    if kind != "ok":
        raise RuntimeError(f"model environment at {date}: {env_model}")
    reg = {}
    for e in extract.registry():
        if (not e["td"]) or e["start"] <= o <= e["stop"]:
            reg[e["dag"] if e["td"] else e["fname"]] = e
    anc = set()
    for t in targets:
        anc |= nx.ancestors(dag, t) | {t}
    wdep = nx.descendants(dag, wname) | {wname}
    consts, nodes, unsupported, kinds = [], [], [], {}
    for n in nx.topological_sort(dag):
        if n not in anc or n == wname:
            continue
        if n.endswith("_params"):
            g = n[:-7]
            consts.append([n, {"t": "tree", "v": t1.enc_tree(env_model[g])}])
            continue
        if n not in fno:  # data column
            consts.append([n, val_json(df[n].iloc[0])])
            continue
        f = fno[n]
        args = list(inspect.signature(f).parameters)
        e = reg.get(n) if n in functions else None
        rounded = e is not None and e["rounding_key"]
        fd = None
        if e is not None and not e["skip_vectorization"] and not rounded:
            cand = ruleir.fundef_inlined(extract.source_of(e), extract.helpers_of(e))
            if ruleir.in_fragment(cand):
                fd = cand
                kinds[n] = "rule"
        elif e is None and len(args) == 1 and n in fno and _is_timeconv(n, args[0]):
            u, v = _units(args[0], n)
            fac = UNITS[u] / UNITS[v]
            fd = {"name": n, "args": [args[0]], "body": [{"k": "ret", "e": {
                "k": "bin", "op": "mul", "a": {"k": "name", "n": args[0]},
                "b": {"k": "const", "t": "flt", "v": ruleir.fstr(fac)}}}]}
            kinds[n] = "timeconv"
        if fd is not None:
            nodes.append({"name": n, "fn": fd, "argNames": list(fd["args"]) if kinds[n] == "timeconv" else e["args"]})
        else:
            if n in wdep:
                unsupported.append(n)
            v = real[n].iloc[0]
            consts.append([n, val_json(v)])
            kinds[n] = "const(rounded)" if rounded else "const"
    chain = {"wname": wname, "consts": consts, "nodes": nodes}
    return chain, {"unsupported": unsupported, "kinds": kinds, "real": real, "df": df, "env": env_model}


import functools


@functools.lru_cache(maxsize=256)
def graph_for(date, targets, data_cols):
    """the real graph of `targets` when exactly `data_cols` are supplied as data"""
    import warnings
    from _gettsim.functions_loader import load_and_check_functions
    from _gettsim.interface import set_up_dag
    _, functions = popgen.env(date)
    with warnings.catch_warnings():
        warnings.simplefilter("ignore")
        fno, fo = load_and_check_functions(functions, list(targets), list(data_cols), {}, {})
        dag = set_up_dag(fno, list(targets), set(fo), "ignore")
    return dag, fno


def _is_timeconv(name, src):
    try:
        _units(src, name)
        return True
    except Exception:  # noqa: BLE001
        return False


def _units(src, dst):
    import re
    rx = re.compile(r"(?P<b>.*_)(?P<u>[ymwd])(?P<a>_hh|_wthh|_fg|_bg|_eg|_ehe|_sn)?")
    a, b = rx.fullmatch(src), rx.fullmatch(dst)
    if not a or not b or a.group("b") != b.group("b") or (a.group("a") or "") != (b.group("a") or ""):
        raise ValueError("not a time conversion")
    return a.group("u"), b.group("u")


def numeric_leaves(tree, out):
    if isinstance(tree, dict):
        for v in tree.values():
            numeric_leaves(v, out)
    elif isinstance(tree, (list, tuple)):
        for v in tree:
            numeric_leaves(v, out)
    elif isinstance(tree, (int, Fraction)) and not isinstance(tree, bool):
        out.add(Fraction(tree))


def candidate_breakpoints(chain, info, lo=Fraction(0), hi=Fraction(10**9)):
    cands = set()
    numeric_leaves(info["env"].get("sozialv_beitr", {}), cands)
    for n, v in chain["consts"]:
        if v.get("t") in ("flt", "int"):
            cands.add(Fraction(v["v"]))
    # values of wage-independent rules (e.g. contribution ceilings, limits) from the real run
    for n, k in info["kinds"].items():
        if n in info["real"]:
            x = info["real"][n].iloc[0]
            if isinstance(x, (int, float, np.integer, np.floating)) and not isinstance(x, (bool, np.bool_)) and math.isfinite(float(x)):
                cands.add(Fraction(float(x)))
    # numeric literals of the rules themselves
    def lits(t):
        if isinstance(t, dict):
            if t.get("k") == "const" and t.get("t") in ("int", "flt"):
                cands.add(Fraction(t["v"]))
            for v in t.values():
                lits(v)
        elif isinstance(t, list):
            for v in t:
                lits(v)
    lits([n["fn"]["body"] for n in chain["nodes"]])
    more = set()
    for c in cands:
        more |= {c * 12, c / 12}
    cands |= more
    return sorted(c for c in cands if lo < c < hi)


def point_breaks(xs):
    out = []
    for x in xs:
        out.append([ruleir.fstr(x), False])   # x belongs to the right piece: [.., x) then {x}
        out.append([ruleir.fstr(x), True])    # {x} closed, then (x, ..)
    return out


def sym(chain, target, checks, xs, start=Fraction(0)):
    op = {"op": "sym", "chain": chain, "target": target, "start": ruleir.fstr(start), "bs": point_breaks(xs), "checks": checks}
    out = json.loads(common.driver([json.dumps(op, ensure_ascii=False)])[0])
    if "bad" in out:
        raise RuntimeError(out["bad"])
    return out


def chain_run(chain, targets, ws):
    op = {"op": "chain_run", "chain": chain, "targets": targets, "w": [ruleir.fstr(Fraction(w)) for w in ws]}
    out = json.loads(common.driver([json.dumps(op, ensure_ascii=False)])[0])
    return out
