"""Translator, part 1: /repo's current working tree -> intermediate representation.

Everything is read from the *files* under /repo (ast / yaml), never from an installed copy:
  * the YAML parameter files as trees with exact-decimal leaves,
  * the registry of rule functions (module, name, name_in_dag, validity, rounding key,
    arguments, annotations, skip_vectorization) from the decorators,
  * literal tables of config.py and policy_environment.py.
"""

from __future__ import annotations

import ast
import datetime
import functools
import re
from fractions import Fraction
from pathlib import Path

import yaml

from common import REPO

SRC = REPO / "src" / "_gettsim"
PARAM_DIR = SRC / "parameters"
RULE_DIRS = ["social_insurance_contributions", "transfers", "taxes", "demographic_vars.py"]


# ---------------------------------------------------------------------------------
# YAML with exact decimals
# ---------------------------------------------------------------------------------


class ExactLoader(yaml.SafeLoader):
    pass


def _float(loader, node):
    s = loader.construct_scalar(node).replace("_", "").lower()
    if s in (".inf", "+.inf"):
        return float("inf")
    if s == "-.inf":
        return float("-inf")
    if s == ".nan":
        return float("nan")
    return Fraction(s)


ExactLoader.add_constructor("tag:yaml.org,2002:float", _float)


@functools.lru_cache(maxsize=None)
def raw_yaml(group: str):
    return yaml.load((PARAM_DIR / f"{group}.yaml").read_text(encoding="utf-8"), Loader=ExactLoader)


def param_groups() -> list[str]:
    return sorted(p.stem for p in PARAM_DIR.glob("*.yaml"))


def ordinal(d: datetime.date) -> int:
    return d.toordinal()


def enc_key(k):
    if isinstance(k, bool):
        raise TypeError("bool key")
    if isinstance(k, int):
        return {"ki": k}
    if isinstance(k, datetime.date):
        return {"kd": ordinal(k)}
    return {"ks": str(k)}


def fstr(q: Fraction) -> str:
    return str(q.numerator) if q.denominator == 1 else f"{q.numerator}/{q.denominator}"


def enc_y(v):
    if isinstance(v, bool):
        return {"b": v}
    if isinstance(v, int):
        return {"q": str(v)}
    if isinstance(v, Fraction):
        return {"q": fstr(v)}
    if isinstance(v, float):
        if v == float("inf"):
            return {"inf": 1}
        if v == float("-inf"):
            return {"inf": -1}
        return {"q": fstr(Fraction(repr(v)))}
    if v is None:
        return {"null": 0}
    if isinstance(v, datetime.date):
        return {"date": ordinal(v)}
    if isinstance(v, str):
        return {"s": v}
    if isinstance(v, (list, tuple)):
        return {"l": [enc_y(x) for x in v]}
    if isinstance(v, dict):
        return {"d": [[enc_key(k), enc_y(x)] for k, x in v.items()]}
    raise TypeError(f"cannot encode {type(v)}")


DOC_KEYS = {"name", "description", "unit", "reference_period"}


def strip_docs(group_tree: dict) -> dict:
    """Drop keys the loader provably never reads (top-level documentation of a parameter)."""
    out = {}
    for param, body in group_tree.items():
        if isinstance(body, dict) and param != "rounding":
            out[param] = {k: v for k, v in body.items() if k not in DOC_KEYS}
        else:
            out[param] = body
    return out


def raw_all_encoded() -> list:
    return [[g, enc_y(strip_docs(raw_yaml(g)))] for g in param_groups()]


def all_entry_dates() -> list[int]:
    dates = set()

    def walk(v):
        if isinstance(v, dict):
            for k, x in v.items():
                if isinstance(k, datetime.date):
                    dates.add(ordinal(k))
                walk(x)

    for g in param_groups():
        walk(raw_yaml(g))
    return sorted(dates)


# ---------------------------------------------------------------------------------
# literal tables from the framework source
# ---------------------------------------------------------------------------------


def _module_ast(rel: str) -> ast.Module:
    return ast.parse((SRC / rel).read_text(encoding="utf-8"))


def _literal_assign(tree: ast.AST, name: str, env=None):
    for node in ast.walk(tree):
        if isinstance(node, ast.Assign) and any(
                isinstance(t, ast.Name) and t.id == name for t in node.targets):
            return _eval_literal(node.value, env or {})
    raise KeyError(name)


def _eval_literal(node, env):
    if isinstance(node, ast.Constant):
        return node.value
    if isinstance(node, ast.Name):
        if node.id in ("int", "float", "bool"):
            return node.id
        if node.id in env:
            return env[node.id]
        return f"<{node.id}>"
    if isinstance(node, ast.List):
        return [_eval_literal(e, env) for e in node.elts]
    if isinstance(node, ast.Tuple):
        return tuple(_eval_literal(e, env) for e in node.elts)
    if isinstance(node, ast.Dict):
        return {_eval_literal(k, env): _eval_literal(v, env) for k, v in zip(node.keys, node.values)}
    if isinstance(node, ast.BinOp) and isinstance(node.op, ast.Div):
        a, b = _eval_literal(node.left, env), _eval_literal(node.right, env)
        if isinstance(a, (int, Fraction, float)) and isinstance(b, (int, Fraction, float)):
            return Fraction(repr(a)) / Fraction(repr(b)) if not isinstance(a, Fraction) else a / Fraction(repr(b))
        return f"<{ast.unparse(node)}>"
    return f"<{ast.unparse(node)}>"


@functools.lru_cache(maxsize=None)
def config_tables() -> dict:
    cfg = _module_ast("config.py")
    pe = _module_ast("policy_environment.py")
    tc = _module_ast("time_conversion.py")
    out = {
        "SUPPORTED_GROUPINGS": list(_literal_assign(cfg, "SUPPORTED_GROUPINGS")),
        "SUPPORTED_TIME_UNITS": list(_literal_assign(cfg, "SUPPORTED_TIME_UNITS")),
        "DEFAULT_TARGETS": _literal_assign(cfg, "DEFAULT_TARGETS"),
        "TYPES_INPUT_VARIABLES": _literal_assign(cfg, "TYPES_INPUT_VARIABLES"),
        "FOREIGN_KEYS": _literal_assign(cfg, "FOREIGN_KEYS"),
        "INTERNAL_PARAMS_GROUPS": _literal_assign(cfg, "INTERNAL_PARAMS_GROUPS"),
    }
    # rounding_parameters inside _load_rounding_parameters
    for node in ast.walk(pe):
        if isinstance(node, ast.FunctionDef) and node.name == "_load_rounding_parameters":
            out["rounding_parameters"] = _literal_assign(node, "rounding_parameters")
    m = _literal_assign(tc, "_M_PER_Y")
    w = _literal_assign(tc, "_W_PER_Y")
    d = _literal_assign(tc, "_D_PER_Y")
    out["per_year"] = {"m": Fraction(repr(m)), "w": w if isinstance(w, Fraction) else Fraction(repr(w)),
                       "d": Fraction(repr(d))}
    return out


# ---------------------------------------------------------------------------------
# registry of rule functions
# ---------------------------------------------------------------------------------


def rule_files() -> list[Path]:
    files = []
    for r in RULE_DIRS:
        p = SRC / r
        if p.is_dir():
            files += sorted(p.rglob("*.py"))
        else:
            files.append(p)
    return files


def module_name(path: Path) -> str:
    return ".".join(path.relative_to(SRC.parent).with_suffix("").parts)


def _const(node, default=None):
    return node.value if isinstance(node, ast.Constant) else default


def _ann(node) -> str | None:
    return None if node is None else ast.unparse(node)


@functools.lru_cache(maxsize=None)
def registry() -> list[dict]:
    """One entry per top-level function defined in the rule modules, in module order."""
    out = []
    for path in rule_files():
        tree = ast.parse(path.read_text(encoding="utf-8"))
        mod = module_name(path)
        for node in tree.body:
            if not isinstance(node, ast.FunctionDef):
                continue
            info = {"module": mod, "fname": node.name, "dag": node.name, "td": False,
                    "start": datetime.date(1, 1, 1).toordinal(),
                    "stop": datetime.date(9999, 12, 31).toordinal(),
                    "start_iso": "0001-01-01", "stop_iso": "9999-12-31",
                    "rounding_key": None, "skip_vectorization": False,
                    "args": [a.arg for a in node.args.args],
                    "arg_types": {a.arg: _ann(a.annotation) for a in node.args.args},
                    "ret": _ann(node.returns), "lineno": node.lineno, "file": str(path)}
            for dec in node.decorator_list:
                if isinstance(dec, ast.Call) and getattr(dec.func, "id", getattr(dec.func, "attr", "")) == "policy_info":
                    info["td"] = True
                    for kw in dec.keywords:
                        v = _const(kw.value)
                        if kw.arg == "start_date":
                            info["start_iso"] = v
                            info["start"] = datetime.date.fromisoformat(v).toordinal()
                        elif kw.arg == "end_date":
                            info["stop_iso"] = v
                            info["stop"] = datetime.date.fromisoformat(v).toordinal()
                        elif kw.arg == "name_in_dag" and v:
                            info["dag"] = v
                        elif kw.arg == "params_key_for_rounding":
                            info["rounding_key"] = v
                        elif kw.arg == "skip_vectorization":
                            info["skip_vectorization"] = bool(v)
            out.append(info)
    return out


def function_boundaries() -> list[int]:
    b = set()
    for e in registry():
        if e["td"]:
            b.add(e["start"])
            b.add(e["stop"])
    return sorted(b)


def aggregation_dicts(kind: str) -> dict:
    """Module-level `aggregate_by_group_*` / `aggregate_by_p_id_*` dictionaries (literal)."""
    out = {}
    for path in rule_files():
        tree = ast.parse(path.read_text(encoding="utf-8"))
        for node in tree.body:
            if isinstance(node, ast.Assign) and len(node.targets) == 1 and isinstance(node.targets[0], ast.Name) \
                    and node.targets[0].id.startswith(f"{kind}_"):
                v = node.value
                if isinstance(v, ast.Call) and getattr(v.func, "id", "") == "_add_grouping_suffixes_to_keys":
                    base = _eval_literal(v.args[0], {})
                    for key, spec in base.items():
                        for g in config_tables()["SUPPORTED_GROUPINGS"]:
                            out[f"{key}_{g}"] = spec
                else:
                    lit = _eval_literal(v, {})
                    if not isinstance(lit, dict):
                        raise ValueError(f"cannot read aggregation dictionary {node.targets[0].id} in {path}")
                    out.update(lit)
    return out


def source_of(entry: dict) -> ast.FunctionDef:
    tree = ast.parse(Path(entry["file"]).read_text(encoding="utf-8"))
    for node in tree.body:
        if isinstance(node, ast.FunctionDef) and node.name == entry["fname"] and node.lineno == entry["lineno"]:
            return node
    raise KeyError(entry["fname"])


DATE_RE = re.compile(r"\d{4}-\d{2}-\d{2}")


# ---------------------------------------------------------------------------------
# helper functions called by rules (module-level defs of _gettsim that are not DAG primitives)
# ---------------------------------------------------------------------------------

_NOT_HELPERS = {"piecewise_polynomial", "join_numpy", "min", "max", "abs", "float", "int", "bool", "sum", "any",
                "all", "len", "sorted", "list", "dict", "zip", "iter", "next", "round", "range", "enumerate"}


@functools.lru_cache(maxsize=None)
def _parsed(path: str):
    tree = ast.parse(Path(path).read_text(encoding="utf-8"))
    defs: dict[str, list] = {}
    for n in tree.body:
        if isinstance(n, ast.FunctionDef):
            defs.setdefault(n.name, []).append(n)
    imports = {}
    for n in tree.body:
        if isinstance(n, ast.ImportFrom) and n.module and n.module.startswith("_gettsim"):
            for a in n.names:
                imports[a.asname or a.name] = (n.module, a.name)
    return defs, imports


def helpers_of(entry: dict) -> dict[str, ast.FunctionDef]:
    """Module-level functions of the package that the rule calls by name, transitively (purely syntactic)."""
    out: dict[str, ast.FunctionDef] = {}
    root = source_of(entry)

    def visit(fn_node, path):
        defs, imports = _parsed(path)
        for c in ast.walk(fn_node):
            if not (isinstance(c, ast.Call) and isinstance(c.func, ast.Name)):
                continue
            name = c.func.id
            if name in out or name in _NOT_HELPERS or name == root.name:
                continue
            if name in defs and len(defs[name]) == 1:
                out[name] = defs[name][0]
                visit(defs[name][0], path)
            elif name in imports:
                mod, orig = imports[name]
                p = SRC.parent / (mod.replace(".", "/") + ".py")
                if p.exists():
                    d2, _ = _parsed(str(p))
                    if orig in d2 and len(d2[orig]) == 1:
                        out[name] = d2[orig][0]
                        visit(d2[orig][0], str(p))

    visit(root, entry["file"])
    return out
