"""C02 — unrelated households do not influence each other; relabelling ids changes only labels."""

from __future__ import annotations

import json

import numpy as np
import pandas as pd

import common
import meta
import popgen


def relabelled(rnd, df):
    pids = sorted(df["p_id"].unique())
    new = rnd.sample(range(0, 20 * len(pids) + 1000), len(pids))
    pmap = dict(zip(pids, new))
    hids = sorted(df["hh_id"].unique())
    hmap = dict(zip(hids, rnd.sample(range(0, 20 * len(hids) + 500), len(hids))))
    d2 = df.copy()
    d2["p_id"] = d2["p_id"].map(pmap)
    d2["hh_id"] = d2["hh_id"].map(hmap)
    for c in popgen.POINTERS:
        d2[c] = d2[c].map(lambda v: pmap[v] if v >= 0 else v)
    return d2.astype({c: "int64" for c in ["p_id", "hh_id", *popgen.POINTERS]}), pmap


def two_populations(rnd, date):
    """A and B with disjoint ids, each closed under household membership and pointers."""
    pa = popgen.Pop(rnd, date)
    for _ in range(rnd.randint(1, 3)):
        pa.cluster()
    na, nh = pa.next_p, pa.next_hh
    pb = popgen.Pop(rnd, date)
    pb.next_p, pb.next_hh = na, nh
    for _ in range(rnd.randint(1, 3)):
        pb.cluster()
    a = pa.frame(relabel=False, shuffle=False)
    b = pb.frame(relabel=False, shuffle=False)
    return a, b


def scale_case(run, rnd, date, n_b):
    """A small A next to a B of several hundred persons in which group counters run past 100 (ids are built as
    `100 * fg_id + counter`, `hh_id`-offsets, ...): the persons of A must not notice."""
    pa = popgen.Pop(rnd, date)
    pa.cluster("self_sufficient_child")
    pa.cluster("single_parent")
    pa.cluster()
    pb = popgen.Pop(rnd, date)
    pb.next_p, pb.next_hh = pa.next_p, pa.next_hh
    for i in range(n_b):
        pb.cluster("self_sufficient_child" if i % 4 else None)
    a = pa.frame(relabel=False, shuffle=False)
    b = pb.frame(relabel=False, shuffle=False)
    # ids of B below and above those of A
    lo = b["p_id"] < b["p_id"].median()
    shift = int(a["p_id"].max() + b["p_id"].max() + 10)
    pmap = {p: (p + shift if l else p) for p, l in zip(b["p_id"], lo)}
    b["p_id"] = b["p_id"].map(pmap)
    for c in popgen.POINTERS:
        b[c] = b[c].map(lambda v: pmap.get(v, v) if v >= 0 else v)
    b = b.astype({c: "int64" for c in ["p_id", *popgen.POINTERS]})
    ok, ra = run.attempt(f"simulate(A) at {date}", popgen.simulate_all, a, date,
                         replay={"date": date, "data": popgen.frame_to_json(a)})
    if not ok:
        return
    base = meta.by_pid(ra, a)
    ok, rb = run.attempt(f"simulate(large B) at {date}", popgen.simulate_all, b, date,
                         replay={"date": date, "data": popgen.frame_to_json(b)})
    base_b = meta.by_pid(rb, b) if ok else None
    for label, u in (("A ++ large B", pd.concat([a, b])), ("large B ++ A", pd.concat([b, a]))):
        u = u.reset_index(drop=True)
        ok, ru = run.attempt(f"simulate({label}) at {date}", popgen.simulate_all, u, date,
                             replay={"date": date, "data": popgen.frame_to_json(u)})
        if not ok:
            continue
        keyed = meta.by_pid(ru, u)
        run.case({"date": date, "A": common.digest(popgen.frame_to_json(a)), "B": common.digest(popgen.frame_to_json(b)), "arr": label})
        # the statement is symmetric: neither the persons of A nor those of B may notice the other population
        for who, bs, part in (("A", base, a), ("B", base_b, b)):
            if bs is None:
                continue
            sub = keyed.loc[keyed.index.isin(set(part["p_id"]))]
            for col, why in meta.diff_columns(bs, sub, check_dtype=True):
                run.hit({"node": col, "kind": "not-separable"},
                        f"{col} for the persons of {who} at {date} differs between simulate({who}) and simulate({label}) "
                        f"({len(b)} persons in B, {int(b['eigenbedarf_gedeckt'].sum())} self-supporting children): {why}",
                        {"date": date, "A": popgen.frame_to_json(a), "B": popgen.frame_to_json(b),
                         "arrangement": label, "node": col, "detail": why})
    run.extra.setdefault("scale_cases", []).append({"date": date, "rows_A": len(a), "rows_B": len(b),
                                                    "self_supporting_children_in_B": int(b["eigenbedarf_gedeckt"].sum())})


def relabel_beyond_valid(run, rnd, date, n_pops):
    """Relabelling invariance does not rest on the validity assumptions about family structures: ids are only names.
    Tables in which several persons compete for one family unit (a child under 25 living with the parents AND an own
    partner; co-resident parents who are not a couple) are relabelled order-reversingly and at random, rows unchanged."""
    for k in range(n_pops):
        p = popgen.Pop(rnd, date)
        p.cluster(rnd.choice(["child_with_partner", "coparents_not_partners"]))
        if rnd.random() < 0.6:
            p.cluster()
        a = p.frame(relabel=False, shuffle=rnd.random() < 0.5)
        ok, ra = run.attempt(f"simulate(competing family) at {date}", popgen.simulate_all, a, date,
                             replay={"date": date, "data": popgen.frame_to_json(a)})
        if not ok:
            run.broken.pop()        # such tables may legitimately be rejected; then there is nothing to compare
            continue
        base = meta.by_pid(ra, a)
        pids = sorted(a["p_id"].unique())
        hids = sorted(a["hh_id"].unique())
        top = 7 * (max(pids) + 3)
        maps = [("order-reversing", {q: top - 7 * q for q in pids}, {h: 5 * (max(hids) + 2) - 5 * h for h in hids})]
        a_rand, pm = relabelled(rnd, a)
        for label, pmap, hmap in maps + [("random", pm, None)]:
            if hmap is None:
                a2 = a_rand
            else:
                a2 = a.copy()
                a2["p_id"] = a2["p_id"].map(pmap)
                a2["hh_id"] = a2["hh_id"].map(hmap)
                for c in popgen.POINTERS:
                    a2[c] = a2[c].map(lambda v: pmap[v] if v >= 0 else v)
                a2 = a2.astype({c: "int64" for c in ["p_id", "hh_id", *popgen.POINTERS]})
            ok, r2 = run.attempt(f"simulate({label} relabelling of a competing family) at {date}", popgen.simulate_all, a2, date,
                                 replay={"date": date, "data": popgen.frame_to_json(a2)})
            if not ok:
                continue
            k1 = base.copy()
            k1.index = k1.index.map(pmap)
            k1 = k1.sort_index()
            k2 = meta.by_pid(r2, a2)
            run.case({"date": date, "competing": common.digest(popgen.frame_to_json(a)), "relabel": label})
            for col, why in meta.diff_columns(k1, k2, check_dtype=True, pid_map=pmap,
                                              cols=[c for c in k1.columns if c != "hh_id"]):
                run.hit({"node": col, "kind": "relabelling-changes-values"},
                        f"{col} at {date} changes under a {label} relabelling of p_id / hh_id (rows in the same order; a family in "
                        f"which several persons compete for one family unit): {why}",
                        {"date": date, "data": popgen.frame_to_json(a), "relabelled": popgen.frame_to_json(a2),
                         "node": col, "detail": why})


def run(tier: str) -> int:
    r = common.Run("C02", tier)
    quick = tier == "quick"
    r.rule = ("pairs of valid populations A, B with disjoint ids (each closed under households and pointers): all nodes "
              "of simulate(A ++ B), simulate(B ++ A) and a random interleaving restricted to A vs simulate(A); injective "
              "relabelling of p_id/hh_id (sparse, up to 20x) applied consistently to the pointer columns; values 2^-40, "
              "dtypes exactly, id columns as partitions; one scale case per date (B with several hundred persons and more "
              "than 100 self-supporting children, ids below and above A's). distinct = (A, B, arrangement).")
    common.build_and_audit(r, ["C02", "C02Sim", "C02E2E", "C02Ids", "C12Cor"], leanchecker=not quick)
    rnd = common.rng("C02")
    for date in (popgen.DATES_QUICK if quick else popgen.DATES_2015):
        if quick or date in popgen.DATES_QUICK:
            scale_case(r, rnd, date, 110 if quick else 160)
        relabel_beyond_valid(r, rnd, date, 4 if quick else 25)
        for k in range(4 if quick else 20):
            a, b = two_populations(rnd, date)
            ok, ra = r.attempt(f"simulate(A) at {date}", popgen.simulate_all, a, date,
                               replay={"date": date, "data": popgen.frame_to_json(a)})
            if not ok:
                continue
            base = meta.by_pid(ra, a)
            n = len(a) + len(b)
            arrangements = [("A ++ B", pd.concat([a, b])), ("B ++ A", pd.concat([b, a])),
                            ("interleaved", pd.concat([a, b]).iloc[rnd.sample(range(n), n)])]
            for label, u in arrangements:
                u = u.reset_index(drop=True)
                ok, ru = r.attempt(f"simulate({label}) at {date}", popgen.simulate_all, u, date,
                                   replay={"date": date, "data": popgen.frame_to_json(u)})
                if not ok:
                    continue
                keyed = meta.by_pid(ru, u)
                sub = keyed.loc[keyed.index.isin(set(a["p_id"]))]
                r.case({"date": date, "A": common.digest(popgen.frame_to_json(a)), "B": common.digest(popgen.frame_to_json(b)),
                        "arr": label})
                for col, why in meta.diff_columns(base, sub, check_dtype=True):
                    r.hit({"node": col, "kind": "not-separable"},
                          f"{col} for the persons of A at {date} differs between simulate(A) and simulate({label}): {why}",
                          {"date": date, "A": popgen.frame_to_json(a), "B": popgen.frame_to_json(b),
                           "arrangement": label, "node": col, "detail": why})
            # relabelling
            a2, pmap = relabelled(rnd, a)
            ok, r2 = r.attempt(f"simulate(relabelled A) at {date}", popgen.simulate_all, a2, date,
                               replay={"date": date, "data": popgen.frame_to_json(a2)})
            if ok:
                k1 = base.copy()
                k1.index = pd.Index([pmap[p] for p in a.sort_values("p_id")["p_id"]]) if False else k1.index.map(pmap)
                k1 = k1.sort_index()
                k2 = meta.by_pid(r2, a2)
                r.case({"date": date, "A": common.digest(popgen.frame_to_json(a)), "relabel": sorted(pmap.items())[:5]})
                skip = {"hh_id"}
                for col, why in meta.diff_columns(k1, k2, check_dtype=True, pid_map=pmap,
                                                  cols=[c for c in k1.columns if c not in skip]):
                    r.hit({"node": col, "kind": "relabelling-changes-values"},
                          f"{col} at {date} changes when p_id / hh_id are relabelled consistently: {why}",
                          {"date": date, "data": popgen.frame_to_json(a), "relabelled": popgen.frame_to_json(a2),
                           "node": col, "detail": why})
            r.sample({"date": date, "rows_A": len(a), "rows_B": len(b)}, limit=3)
    return r.finish()


def replay(path: str) -> int:
    d = json.load(open(path))
    print(json.dumps({k: v for k, v in d.items() if k not in ("A", "B", "data", "relabelled")}, ensure_ascii=False)[:1500])
    return 1
