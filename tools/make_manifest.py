"""Writes MANIFEST.json from the table below (keeps it valid at all times)."""
import json
from pathlib import Path

VERIF = Path(__file__).resolve().parent.parent
PROPS = [json.loads(l) for l in (VERIF / "properties.jsonl").read_text().splitlines() if l.strip()]

LEVEL_NOTE = ("Trusted: Lean 4.33 kernel; axioms propext/Classical.choice/Quot.sound only (audited every run by "
              "#print axioms; no sorry/native_decide/own axioms); the translator tools/extract.py+emit_lean.py; the "
              "correspondence harness and generators; numpy/pandas/numpy_groupies/dags/PyYAML are modelled, not "
              "verified; IEEE-754 is replaced by exact rationals in the model (float effects are only explored).")

# property -> (design section, technique, text); only implemented checks are listed
CLAIMED = {
 "C10": ("5/C10", "Lean 4 theorems on the rounding wrapper over ℚ (grid, direction bounds, half-even ties, error < 1 step, "
         "identity when off, loud error without spec) + kernel-decided obligations on the rounding tables regenerated from "
         "the YAML files and the registry + model/code correspondence + rounded-vs-unrounded search on the real system",
         "Proof: Props/C10.lean (generic, unbounded over base/direction/offset/value) and Props/C10Inst.lean (decide +kernel "
         "over every dated rounding entry and every rule carrying a rounding key, regenerated from /repo each run); the "
         "wrapper and the loader's spec selection are tied to the code by differential runs; float evaluation of the real "
         "wrapper is only explored (partial there)."),
 "C11": ("5/C11", "Lean 4 theorems: scatter/gather aggregation model equals the fold over the group's members, "
         "permutation / relabelling invariance, conservation, pointer sums, joins, loud guards; model tied to "
         "aggregation_numpy.py / shared.join_numpy by differential runs; definition-oracle search on every aggregation node",
         "Proof: Props/C11.lean for all columns, ids and sizes; correspondence (exact on dyadic values) ties the model to the "
         "code; the real graph's aggregation nodes and the precedence auto < built-in < user are searched against an "
         "independent reference. numpy_groupies itself is modelled, not verified."),
 "C12": ("5/C12", "Lean 4 theorems: partition specifications of the six id constructors by scan invariants (pairId/snId/bgId/"
         "wthhId/fgId incl. order independence of the family unit), nesting and collision lemmas; exact-id correspondence "
         "with groupings.py; exhaustive enumeration of small valid structures x all row orders against the unit definitions",
         "Proof: Props/C12.lean (fg_spec, pairId_spec, snId_spec, bgId_spec, nesting) for every valid pointer structure and "
         "row order; the algorithms are modelled as written and compared id-for-id with the code, also on invalid inputs; "
         "the search is exhaustive up to 3 (quick) / 4 persons (thorough)."),
 "C13": ("5/C13", "Lean 4 theorems over ℚ: the 12 converters are multiplication by fixed factors, round trip, composition, "
         "additivity (commutes with sums), name-pattern parser and creation rules of derived nodes; parser/factory tied to "
         "time_conversion.py by differential runs on the real name universe; ratio search on the real graph",
         "Proof: Props/C13.lean; constants regenerated from time_conversion.py; float round-off of the real converters is "
         "only explored (≤ 2^-40 relative)."),
 "C18": ("5/C18", "Lean 4 theorems on piecewise-polynomial schedules (bin selection, evaluation = polynomial of the unique "
         "piece, continuity of generated intercepts, monotone / convex / marginal rate <= top rate / soli <= rate*tax + 1 cent "
         "from decidable coefficient conditions, parser accepts only well-formed input) + kernel-decided conditions for every "
         "schedule in force at every date its resolved value changes (regenerated from the YAML files) + parser and evaluator "
         "tied to the code by exact differential runs + shape search on the real float evaluator",
         "Proof: Props/C18.lean (all real arguments, any schedule satisfying the decidable conditions) and Props/C18Inst.lean "
         "(decide +kernel on 44 regenerated schedule entries: all well-formed; all 18 income-tax tariffs zero below the "
         "allowance, monotone, convex, marginal rate <= top rate; all 8 soli schedules monotone and <= rate*tax + 0.01); "
         "the merged raw pieces come from the Lean loader model, which is compared with the real loader on every run; float "
         "evaluation of the real evaluator is only explored."),
}

NOT_YET = "check not built yet in this round (design in DESIGN.md §5); the property itself is in scope of the technique"


def main():
    checks, na = [], []
    for p in PROPS:
        pid = p["id"]
        if pid in CLAIMED:
            ref, tech, text = CLAIMED[pid]
            checks.append({
                "property_id": pid,
                "quick_cmd": f"./check {pid} --tier quick",
                "thorough_cmd": f"./check {pid} --tier thorough",
                "evidence_file": f"evidence/{pid}.json",
                "replay_cmd_template": f"./check {pid} --replay {{path}}",
                "engine": "lean4-proof+correspondence",
                "level_claimed": {"category": "proof", "text": text, "design_ref": f"DESIGN.md §{ref}"},
                "level_note": LEVEL_NOTE,
                "technique": tech,
            })
        else:
            na.append({"property_id": pid, "reason": NOT_YET})
    m = {
        "version": 1,
        "setup_cmd": "./setup.sh",
        "hooks": {"guard": "GETTSIM_VERIF", "enable": "no source hooks are needed: all observation is by calling "
                  "gettsim's functions in-process from /venv/bin/python (editable install of /repo/src)",
                  "baseline_off_cmd": "cd /repo && /venv/bin/python -m pytest -q -p no:cacheprovider --timeout=900 "
                  "--continue-on-collection-errors", "source_commits": [], "add_only": True},
        "engines": [{"name": "lean4-proof+correspondence", "path": "lean/ + tools/",
                     "serves_properties": sorted(CLAIMED),
                     "kind_free_text": "Lean 4 models + theorems (lake build, #print axioms audit), translator "
                     "regenerating tables from /repo, differential correspondence model vs code, failing-input search"}],
        "checks": checks,
        "not_applicable": na,
        "notes": "Exit codes: 0 held (KNOWN-FINDING lines for listed defects), 1 violation, 2 infrastructure error. "
                 "Repairs of genuine defects are fix: commits in /repo, listed in known_findings.json.",
    }
    (VERIF / "MANIFEST.json").write_text(json.dumps(m, indent=1, ensure_ascii=False) + "\n")
    print("claimed:", sorted(CLAIMED), "not yet:", [x["property_id"] for x in na])


if __name__ == "__main__":
    main()
