"""Writes MANIFEST.json from the table below (keeps it valid at all times)."""
import json
from pathlib import Path

VERIF = Path(__file__).resolve().parent.parent
PROPS = [json.loads(l) for l in (VERIF / "properties.jsonl").read_text().splitlines() if l.strip()]

LEVEL_NOTE = ("Trusted: Lean 4.33 kernel; axioms propext/Classical.choice/Quot.sound only (audited every run by "
              "#print axioms; no sorry/native_decide/own axioms); the translator tools/extract.py+emit_lean.py; the "
              "correspondence harness and generators; numpy/pandas/numpy_groupies/dags/PyYAML are modelled, not "
              "verified; IEEE-754 is replaced by exact rationals in the model (float effects are only explored).")

# property -> (design section, technique, text); only implemented checks are listed
CLAIMED = {
 "C10": ("5/C10", "Lean 4 theorems on the rounding wrapper over ℚ (grid, direction bounds, half-even ties, error < 1 step, "
         "identity when off, loud error without spec) + kernel-decided obligations on the rounding tables regenerated from "
         "the YAML files and the registry + model/code correspondence + rounded-vs-unrounded search on the real system",
         "Proof: Props/C10.lean (generic, unbounded over base/direction/offset/value) and Props/C10Inst.lean (decide +kernel "
         "over every dated rounding entry and every rule carrying a rounding key, regenerated from /repo each run); the "
         "wrapper and the loader's spec selection are tied to the code by differential runs; float evaluation of the real "
         "wrapper is only explored (partial there)."
         " Concrete model: Props/C10Sim.lean (ruleOp_rounding_factor: rounding is applied once, after the rule; roundWith_eq_roundTo; ruleOp_rounded_values: grid, direction, error < base; nodeOf_rounding_only_rules; plan_missing_spec_is_error)."),
 "C11": ("5/C11", "Lean 4 theorems: scatter/gather aggregation model equals the fold over the group's members, "
         "permutation / relabelling invariance, conservation, pointer sums, joins, loud guards; model tied to "
         "aggregation_numpy.py / shared.join_numpy by differential runs; definition-oracle search on every aggregation node",
         "Proof: Props/C11.lean for all columns, ids and sizes; correspondence (exact on dyadic values) ties the model to the "
         "code; the real graph's aggregation nodes and the precedence auto < built-in < user are searched against an "
         "independent reference. numpy_groupies itself is modelled, not verified."
         " Concrete model: Props/C11Sim.lean (groupAggFns_user_wins / _automatic / _only_if / _never_shadows, buildFunctions_merge_order: precedence of user specs over automatic sums in Core/Simulate.lean)."
         " Props/SimSpecs.lean, Props/C15E2E.lean: table-level definitions (simulate_group_sum/_max/_min/_any/_all/_count)."),
 "C12": ("5/C12", "Lean 4 theorems: partition specifications of the six id constructors by scan invariants (pairId/snId/bgId/"
         "wthhId/fgId incl. order independence of the family unit), nesting and collision lemmas; exact-id correspondence "
         "with groupings.py; exhaustive enumeration of small valid structures x all row orders against the unit definitions",
         "Proof: Props/C12.lean (fg_spec, pairId_spec, snId_spec, bgId_spec, nesting) for every valid pointer structure and "
         "row order; the algorithms are modelled as written and compared id-for-id with the code, also on invalid inputs; "
         "the search is exhaustive up to 3 (quick) / 4 persons (thorough)."
         " Props/C12Cor.lean: order independence, separability, relabelling and nesting / non-collision corollaries for all six constructors."),
 "C13": ("5/C13", "Lean 4 theorems over ℚ: the 12 converters are multiplication by fixed factors, round trip, composition, "
         "additivity (commutes with sums), name-pattern parser and creation rules of derived nodes; parser/factory tied to "
         "time_conversion.py by differential runs on the real name universe; ratio search on the real graph",
         "Proof: Props/C13.lean; constants regenerated from time_conversion.py; float round-off of the real converters is "
         "only explored (≤ 2^-40 relative)."
         " Concrete model: Props/C13Sim.lean (timeConvOp_values, timeConvOp_round_trip, timeConvOp_groupSum_commute on Core/Simulate.lean)."
         " Props/SimSpecs.lean: simulate_time_variant (requested derived variant = requested source x fixed factor, at table level)."),
 "C18": ("5/C18", "Lean 4 theorems on piecewise-polynomial schedules (bin selection, evaluation = polynomial of the unique "
         "piece, continuity of generated intercepts, monotone / convex / marginal rate <= top rate / soli <= rate*tax + 1 cent "
         "from decidable coefficient conditions, parser accepts only well-formed input) + kernel-decided conditions for every "
         "schedule in force at every date its resolved value changes (regenerated from the YAML files) + parser and evaluator "
         "tied to the code by exact differential runs + shape search on the real float evaluator",
         "Proof: Props/C18.lean (all real arguments, any schedule satisfying the decidable conditions) and Props/C18Inst.lean "
         "(decide +kernel on 44 regenerated schedule entries: all well-formed; all 18 income-tax tariffs zero below the "
         "allowance, monotone, convex, marginal rate <= top rate; all 8 soli schedules monotone and <= rate*tax + 0.01); "
         "the merged raw pieces come from the Lean loader model, which is compared with the real loader on every run; float "
         "evaluation of the real evaluator is only explored."),
 "C01": ("5/C01", "Lean 4 theorems on the abstract evaluation of the dependency graph (eval_respects: any relation respected by all node "
         "operations and by the data is respected by every node; instances: row-wise operations and commutative-associative group "
         "aggregations are equivariant under every row permutation; fg_id/pairId partition theorems from C12 are order independent) + "
         "metamorphic search on the real system over adversarial row orders and index labellings, all nodes"
         " + the same on the CONCRETE model of compute_taxes_and_transfers (Core/Simulate.lean, tied to the real interface by T3 toy systems): node operations and DAG evaluation equivariant under row permutations",
         "Proof: Props/C01.lean (simulate_perm, simulate_perm_grouped, eval_respects for arbitrary systems, data, permutations) on the "
         "abstract DAG model Core/Dag.lean; the node kinds' models (Agg, Groupings, VecDtype) are tied to the code by C11/C12/C03 "
         "correspondences; the assembly of the real function set is explored, not modelled: partial there."
         " Concrete model: Props/C01Sim.lean (ruleOp/timeConvOp/groupAggOp/pidSumOp of Core/Simulate.lean equivariant under every row permutation, lifted through Dag.eval: sys_eval_perm, pruned_eval_perm, …_fails_iff; witness that an undeclared return type breaks it), Props/C12Cor.lean (every id constructor: partition independent of the row order)."
         " End to end: Props/C01E2E.lean (simulate_perm: Simulate.simulate of the row-permuted table is the row-permuted result; fails-iff), Props/C01Ids.lean (id constructors: same partition under permutation, aggregates depend on ids only through the partition, sys_eval_perm_ids). Tie T4: Simulate.simulate vs the real compute_taxes_and_transfers on the REAL rules, parameters and populations (≈ 290 of 320 nodes of the default graph)."),
 "C02": ("5/C02", "Lean 4 theorems: simulate_union (row-wise and group-aggregation nodes whose id columns are not cut evaluate on A++B "
         "restricted to A as on A), relabel_invariance under injective id relabellings, union_separable_grouped; metamorphic search on "
         "the real system (A, B, A++B, B++A, interleavings, relabelled A; all nodes)"
         " + separability of the concrete node operations and DAG evaluation of Core/Simulate.lean, union/relabelling corollaries for all id constructors",
         "Proof: Props/C02.lean on the abstract DAG model for arbitrary systems and populations; ties as for C01; the derived-id "
         "arithmetic (hh*100+flag, fg*100+k with k<100) is covered by C12 (wthh_no_collision, bg_nests_in_fg, bg_collision_at_100)."
         " Concrete model: Props/C02Sim.lean (ruleOp/groupAggOp/pidSumOp on A++B restricted to A = on A under disjoint group ids / closed pointers, lifted: sys_eval_union, pruned_eval_union, sys_eval_union_of_parts; counterexamples without the separation hypotheses), Props/C12Cor.lean (union and relabelling theorems for all id constructors)."
         " End to end: Props/C02E2E.lean (simulate_union, simulate_union_snd, simulate_union_of_parts with computable separation checks and counterexamples)."
         " Props/C02Ids.lean: id constructors under unions (groupingOp_union, groupAggOp_grouping_union); sys_eval_union_ids (the DAG lift with computed ids under unions)."),
 "C04": ("5/C04", "Lean 4 theorems: prune_sound, targets_indep, run_shape, extra_data_irrelevant on the abstract DAG model; search on "
         "the real system: every node alone / in random target sets / with all nodes, noise columns, debug and minimal-specification options"
         " + target independence, sub-target success and row count proved for the concrete model Core/Simulate.lean; node-purity search (read-only inputs)",
         "Proof: Props/C04.lean for arbitrary systems, data, fuel and target lists; the real creation of automatic group sums from the "
         "target list and the result assembly are explored on the real system (bit-identical comparison), not modelled: partial there."
         " Concrete model: Props/C04Sim.lean (simulate_target_indep at full strength for Core/Simulate.lean, simulate_subtargets_succeed, simulate_rows, buildFunctions_targets_agree); the proof exposed a defect of the Python code, repaired by 86c6dca."
         " Tie T4 (real rule system vs Core/Simulate.lean, also with out-of-fragment nodes cut) runs in this check."
         " Props/C04Extra.lean: simulate_extra_column(s) — an unused column (computable check, each condition shown necessary) changes nothing."),
 "C05": ("5/C05", "Lean 4 theorems: override_equiv (supplying a node's own value changes no other node), override_used (data wins over "
         "the function of the same name), overridden_spec (the overlap that triggers the warning); search on the real system over the "
         "nodes of the default graph incl. the warning and 'supplied column is used'"
         " + feed-back theorem with necessary side conditions and 'supplied column is used' on the concrete model",
         "Proof: Props/C05.lean on the abstract DAG model; time-unit re-association through a supplied unit is covered by C13 "
         "(conv_compose) over Q and explored with 1e-9 tolerance on floats."
         " Concrete model: Props/C05Sim.lean (simulate_feed_back_gen/_compat with the necessary side conditions S/T/F, each shown necessary by a kernel-checked counterexample; simulate_supplied_is_used; the unconditional statement is refuted for the model: simulate_feed_back_false)."
         " Tie T4 runs in this check."
         " Props/C05Rule.lean: simulate_feed_back_rule under name/annotation conditions only."),
 "C06": ("5/C06", "Lean 4 theorems: locality (systems agreeing outside U agree on every node that cannot reach U), replace_by_copy, "
         "params_locality; search on the real system: per-group parameter perturbations, function replacements, identical copies, "
         "bit-identical comparison outside the predicted cone"
         " + parameter-reform locality proved for the concrete model; rounding-rule reforms in the search",
         "Proof: Props/C06.lean on the abstract DAG model for arbitrary systems; users(g) (rules with a <g>_params argument or rounding key "
         "g) is computed from the real function objects in the search."
         " Concrete model: Props/C06Sim.lean (simulate_params_locality, simulate_params_copy, simulate_rule_copy for Core/Simulate.lean)."
         " Tie T4 runs in this check."
         " Props/C06Fn.lean: function-reform locality (simulate_rule_locality, simulate_rule_pruned, simulate_rule_locality_checked)."),
 "C07": ("5/C07", "Lean 4 theorems on the parameter-loader model: latest_spec, loadGroup_cut / env_cut (the environment depends on the date "
         "only through finitely many entry-date cuts at the probes subYear^k d, jan1, and the year), functionsFor_spec / active_unique / "
         "functionsFor_cut, conflictTest_iff_overlap; kernel-decided registry obligations (pairwise disjoint validity intervals for all "
         "pairs, unique names, no parameter named datum, acyclic cross-file deviations); every calendar day of the window classified "
         "by its cut key; per class the Lean loader model is compared with the real set_up_policy_environment",
         "Proof: Props/C07.lean (generic, any raw YAML trees and registry) + Props/C07Inst.lean (decide +kernel on the registry regenerated "
         "from the decorators); the loader model is tied to the code by differential runs at the first/last/random day of the classes; "
         "calendar arithmetic is checked against datetime, general calendar lemmas only on a window (calendar_window_ok)."),
 "C09": ("5/C09", "Lean 4 theorems: the rewriter model (mirrors vectorization.py incl. quirks) is sound on a typed fragment: tExpr_sound, "
         "transform_sound (array result at row i = scalar result, or the array run is loud), rejection theorems, kernel-checked witnesses "
         "of the unsound shapes; rewriter model compared term-by-term with the real _make_vectorizable_ast on all 397 rule functions and "
         "random programs; array semantics compared with numpy; search: real array form vs scalar rule row by row, module-namespace snapshot",
         "Proof: Props/C09.lean for every function accepted by the decidable predicate funOK (350 of the 397 rule functions; the others are "
         "listed in the evidence and rest on the search); numpy itself is modelled (Core/ArrSem.lean), dtype promotion is not modelled; "
         "known findings: the documented style contains shapes the rewriter translates unsoundly (recorded per rule)."),
 "C03": ("5/C03", "Lean 4 theorems on the model of numpy.vectorize with declared output type: dtype independent of the data, element = "
         "cast of the rule's result, lossless for float, equivariance; kernel-checked witnesses that dtype *inference* depends on "
         "the first row; model compared with the real _vectorize_func; search: every scalar rule's column vs the rule called row by "
         "row, dtype vs declaration"
         " + verified result-kind analysis run over all rules (static obligations) + row-wise specification of the concrete ruleOp",
         "Proof: Props/C03.lean; the wrapper model is tied to functions_loader._vectorize_func by exact differential runs; that each "
         "rule's results are lossless for its declared type is explored on the real system (row-by-row recomputation), not proved."
         " Props/C03Types.lean: verified result-kind analysis of the rule language (tyFun_sound, declared_cast_lossless, declared_column_lossless) executed over every rule of the modelled fragment at the sampled dates (one obligation per rule and date: the cast to the declared dtype is lossless for every possible result); Props/C03Sim.lean: ruleOp_rowwise_spec / ruleOp_row_independent / ruleOp_dtype_declared on the concrete model."),
 "C14": ("5/C14", "Lean 4 theorems on a state machine of the Python process (module bindings, injected names, registry, caller objects): "
         "for the repaired transitions every operation is the identity on the state, hence history_indep by induction over the "
         "history; kernel-checked two-step witnesses for the original (unrepaired) transitions; random histories of real API calls "
         "compared with the model (process-state digests) and with fresh interpreters",
         "Proof: Props/C14.lean covers the bookkeeping; 'equal to a fresh process' is inherently runtime and is explored (fresh-"
         "interpreter oracle): partial there."),
 "C15": ("5/C15", "Lean 4 theorems: constancy analysis over the dependency graph is sound (const_sound / constTable_sound: a node is "
         "constant on every group of every level the analysis returns, for every valid population), refinement order of the seven "
         "levels; the graph of the default targets is rebuilt from the real function set each run and analysed by the Lean model; "
         "search with populations whose members differ in the individual-level inputs",
         "Proof: Props/C15.lean; one obligation per suffixed node and date, evaluated by the Lean interpreter on the regenerated "
         "graph (not kernel-decided); nodes in the cone of a recorded finding (three roots) are not claimed; the refinement order "
         "(incl. eg within bg) is an assumption backed by the C12 theorems and checked on every generated population."
         " Concrete model: Props/C15Sim.lean (groupAggOp_const, ruleOp_const, timeConvOp_const, sys_eval_const, suffix_check_sound)."
         " Props/C15E2E.lean: the same at the level of the result table (simulate_const_column, simulate_suffix_columns)."),
 "C20": ("5/C20", "Lean 4 theorems on the model of the input validators and type conversion: accepts_iff (declarative characterisation), "
         "one rejection theorem per fault class, convert_lossless under the explicit 2^53 guard with a kernel-checked witness beyond "
         "it, convert_rejects_lossy, warning_iff_converted; model compared with the real functions on every dtype pair and on random "
         "fault-injected tables; fault injection on the real system",
         "Proof: Props/C20.lean; pandas/numpy conversions are modelled from probes of the installed versions (table in "
         "Core/Typing.lean) and compared on every run; sn-consistency of spouses is C12's snId_error_iff."
         " Concrete model: Props/C20Sim.lean (checkData_ok_iff, convertCol_lossless, convertCol_error_iff, convertData_only_typed on Core/Simulate.lean)."
         " Props/C20Bridge.lean: the two independent models of the input validation (Core/Typing.lean and the validation stage of Core/Simulate.lean) agree on every table both can represent (checkData_agree, convertCol_agree, convertData_agree; witnesses where they differ: beyond 2^53 / int64, ragged tables)."),
 "C17": ("5/C17", "Lean 4 theorems over the shallow ℚ/Bool definitions of the ten decision rules (regenerated from /repo by the "
         "translator every run): ALG II > 0 excludes Kinderzuschlag and Wohngeld, Grundsicherung excludes all three, Kinderzuschlag "
         "only if need covered, needs unit within one part-household; definitions compared with the repo source on exact rationals; "
         "rule-level exhaustive search over the Boolean cube and population search across the break-even points",
         "Proof: Props/C17.lean for all real amounts and flag values; the aggregation to part-households is modelled by its C11/C12 "
         "specification (any over members sharing the wthh flag); group-constancy of the inputs is C15's subject (three recorded "
         "findings there concern wealth allowance / Wohngeld rent inputs, not the priority logic)."
         " The rules are also generated wired by argument NAME (Consistent ρ β); the wired theorems (kiz_only_if_need_covered_wired, alg2_kiz_exclusive_wired, grunds_excludes_others_wired, alg2_pos_need_uncovered_wired) depend on which columns the current sources read."),
 "C08": ("5/C08", "Lean 4 theorems: a topological certificate implies acyclicity and bounded evaluation depth (cert_sound, "
         "eval_terminates_with_fuel_n, rootsAllowed_spec); the real default-target graphs from 2015-01-01 on (one per distinct function "
         "table, regenerated every run) are certified by the kernel (acyclic, every leaf a documented input / parameter-only rule); "
         "per class of calendar days every static parameter path of every reachable rule, every rounding spec and the absence of "
         "stubs are checked in the Lean environment model; corner-population search on the real system",
         "Proof: Props/C08.lean + Props/C08Inst.lean (decide +kernel on 13 regenerated graphs); the classes of days come from the C07 "
         "cut theorem; parameter paths are looked up in the Lean loader model (interpreter), which is compared with the real loader; "
         "dynamic subscripts (household size, birth-year tables) are covered only by their static prefix and by the search: partial there."
         " Concrete model: Props/C08Sim.lean (plan_roots_are_data, plan_acyclic, exec_fuel_suffices: a successful plan is complete, acyclic, and the fuel bound is no source of errors)."),
 "C19": ("5/C19", "verified symbolic evaluator (Core/Sym.lean, soundness in Props/SymSound.lean): for a chain of rules as a function of one "
         "real input it certifies piecewise-affine forms on intervals and decides non-negativity, monotonicity, zero below a limit, "
         "constancy above a ceiling, continuity at a point and sum identities for ALL wages >= 0; the chains are built from the real "
         "graph and the rule sources at every date where contribution rules or parameters change x east/west x children x 4 branches; "
         "8 instances are decided by the kernel (Props/C19Inst.lean), the others by the Lean interpreter; chain vs real system at sample "
         "wages; dense wage sweep on the real system",
         "Proof: symExpr_sound / symChain_sound / nonneg_sound / nondecreasing_sound / zeroBelow_sound / constantAbove_sound / "
         "continuousAt_sound / sumEq_sound; contribution_shape lifts the kernel-decided certificates to all wages. The person is an "
         "employee without statutory pension (ges_rente_m supplied as 0), rounded parameter-only nodes (minijob_grenze, midijob_faktor_f) "
         "enter as the constants the real system computes; floats are exact rationals in the model."),
 "C16": ("5/C16", "verified sign analysis (Core/Sign.lean: abstract interpretation of the rule language with branch refinement, sound by "
         "absExpr_sound / absFun_sound / signTable_sound / absLeArg_sound / leFacts_sound) run over the dependency graph of the default "
         "targets rebuilt from the rule sources at every sampled date: one obligation per default target it classifies non-negative "
         "and per cap it certifies (benefit after priority checks <= entitlement before); corner-population search on the real system "
         "for finiteness, sign and caps",
         "Proof: Props/C16.lean (for all inputs satisfying the documented ranges: non-negative amounts, Boolean flags, parameter trees "
         "without negative leaves); PARTIAL: the analysis classifies 7-8 of the 18 default targets (transfers with clamps); income tax, "
         "soli (piecewise schedules: covered by C18's eval_nonneg_of_mono), the four contributions (covered for all wages by C19) and "
         "pensions are listed as not classified in the evidence and rest on those properties and on the search; finiteness (no NaN/inf) "
         "is explored only; evaluated by the Lean interpreter on regenerated graphs, not by the kernel."
         " Props/C16PE.lean: verified partial evaluation of the parameter trees (peFun_sound, peGraph_sem, signTablePE_sound) before the sign analysis; the facts certified on the unchanged tree (9 default targets, 2 caps) are claimed obligations: a fact the analysis can no longer derive from the current sources is reported."),
}

NOT_YET = "check not built yet in this round (design in DESIGN.md §5); the property itself is in scope of the technique"


def main():
    checks, na = [], []
    for p in PROPS:
        pid = p["id"]
        if pid in CLAIMED:
            ref, tech, text = CLAIMED[pid]
            checks.append({
                "property_id": pid,
                "quick_cmd": f"./check {pid} --tier quick",
                "thorough_cmd": f"./check {pid} --tier thorough",
                "evidence_file": f"evidence/{pid}.json",
                "replay_cmd_template": f"./check {pid} --replay {{path}}",
                "engine": "lean4-proof+correspondence",
                "level_claimed": {"category": "proof", "text": text, "design_ref": f"DESIGN.md §{ref}"},
                "level_note": LEVEL_NOTE,
                "technique": tech,
            })
        else:
            na.append({"property_id": pid, "reason": NOT_YET})
    m = {
        "version": 1,
        "setup_cmd": "./setup.sh",
        "hooks": {"guard": "GETTSIM_VERIF", "enable": "no source hooks are needed: all observation is by calling "
                  "gettsim's functions in-process from /venv/bin/python (editable install of /repo/src)",
                  "baseline_off_cmd": "cd /repo && /venv/bin/python -m pytest -q -p no:cacheprovider --timeout=900 "
                  "--continue-on-collection-errors", "source_commits": [], "add_only": True},
        "engines": [{"name": "lean4-proof+correspondence", "path": "lean/ + tools/",
                     "serves_properties": sorted(CLAIMED),
                     "kind_free_text": "Lean 4 models + theorems (lake build, #print axioms audit), translator "
                     "regenerating tables from /repo, differential correspondence model vs code, failing-input search"}],
        "checks": checks,
        "not_applicable": na,
        "notes": "Exit codes: 0 held (KNOWN-FINDING lines for listed defects), 1 violation, 2 infrastructure error. "
                 "Repairs of genuine defects are fix: commits in /repo, listed in known_findings.json.",
    }
    (VERIF / "MANIFEST.json").write_text(json.dumps(m, indent=1, ensure_ascii=False) + "\n")
    print("claimed:", sorted(CLAIMED), "not yet:", [x["property_id"] for x in na])


if __name__ == "__main__":
    main()
