"""Tie T1: every rule in the modelled fragment, Lean scalar evaluator vs. the repo's own source
executed on exact rationals (`exactpy`), on sampled inputs, at a given date.

`exactpy` re-parses the function's source from /repo, replaces float literals by exact
Fractions and `/` by exact division, and execs it; nothing else is changed.  Both sides get
the same exact parameter trees (the Lean environment model's output, itself compared with
the real environment by the C07 correspondence).
"""

from __future__ import annotations

import ast
import copy
import datetime
import json
import math
from fractions import Fraction

import numpy as np

import common
import extract
import paramsio
import ruleir

# ---------------------------------------------------------------------------------
# exactpy
# ---------------------------------------------------------------------------------


def _F(x):
    if isinstance(x, float):
        if math.isinf(x):
            return x
        return Fraction(repr(x))
    if isinstance(x, str):
        return Fraction(x)
    return Fraction(x)


def _div(a, b):
    if isinstance(b, float) and math.isinf(b):
        return Fraction(0)
    if isinstance(a, float) and math.isinf(a):
        return a if b > 0 else -a
    if b == 0:
        raise ZeroDivisionError("division by zero")
    return Fraction(a) / Fraction(b)


class NaNProduced(ArithmeticError):
    """inf - inf, 0 * inf: an error in the model (Core/Lang.lean: `Err.other`)"""


def _nonan(v):
    if isinstance(v, float) and v != v:
        raise NaNProduced
    return v


class _Exact(ast.NodeTransformer):
    def __init__(self):
        self.tests = 0

    def visit_Constant(self, node):
        if isinstance(node.value, float):
            return ast.copy_location(ast.Call(ast.Name("_F", ast.Load()), [ast.Constant(repr(node.value))], []), node)
        return node

    def visit_BinOp(self, node):
        self.generic_visit(node)
        if isinstance(node.op, ast.Div):
            return ast.copy_location(ast.Call(ast.Name("_div", ast.Load()), [node.left, node.right], []), node)
        if isinstance(node.op, (ast.Add, ast.Sub, ast.Mult)):
            node = ast.copy_location(ast.Call(ast.Name("_nonan", ast.Load()), [node], []), node)
        return node

    def visit_Call(self, node):
        self.generic_visit(node)
        if isinstance(node.func, ast.Name) and node.func.id == "float":
            node.func = ast.Name("_F", ast.Load())
        return node

    def visit_If(self, node):
        self.generic_visit(node)
        i = self.tests
        self.tests += 1
        node.test = ast.Call(ast.Name("_t", ast.Load()), [ast.Constant(i), node.test], [])
        return node

    def visit_IfExp(self, node):
        self.generic_visit(node)
        i = self.tests
        self.tests += 1
        node.test = ast.Call(ast.Name("_t", ast.Load()), [ast.Constant(i), node.test], [])
        return node


def exact_function(entry: dict):
    """(callable, n_tests, coverage-set) for the rule's source with exact arithmetic."""
    from _gettsim.piecewise_functions import piecewise_polynomial

    tr = _Exact()
    defs = []
    for node in [*copy.deepcopy(list(extract.helpers_of(entry).values())), extract.source_of(entry)]:
        node = ast.FunctionDef(name=node.name, args=node.args, body=node.body, decorator_list=[],
                               returns=None, type_comment=None, lineno=1, col_offset=0)
        node = tr.visit(node)
        for a in node.args.args:
            a.annotation = None
        defs.append(node)
    mod = ast.Module(body=defs, type_ignores=[])
    ast.fix_missing_locations(mod)
    cov = set()

    def _t(i, v):
        cov.add((i, bool(v)))
        return v

    scope = {"_F": _F, "_div": _div, "_t": _t, "_nonan": _nonan, "piecewise_polynomial": piecewise_polynomial,
             "np": np, "numpy": np}
    exec(compile(mod, f"<exactpy:{entry['fname']}>", "exec"), scope)  # noqa: S102
    return scope[entry["fname"]], tr.tests, cov


# ---------------------------------------------------------------------------------
# parameters as exact trees
# ---------------------------------------------------------------------------------


def py_params(env_model: dict) -> dict:
    """Model environment (Fractions) -> what a rule expects (numpy object arrays for schedules)."""

    def conv(v):
        if isinstance(v, dict):
            if set(v) >= {"thresholds", "rates", "intercepts_at_lower_thresholds"}:
                out = dict(v)
                out["thresholds"] = np.array(v["thresholds"], dtype=object)
                out["rates"] = np.array(v["rates"], dtype=object)
                out["intercepts_at_lower_thresholds"] = np.array(v["intercepts_at_lower_thresholds"], dtype=object)
                return out
            return {k: conv(x) for k, x in v.items()}
        if isinstance(v, str) and v in ("inf", "-inf"):
            return float(v)
        return v

    return {g: conv(b) for g, b in env_model.items()}


def enc_tree(v):
    """Python params (model env) -> Y JSON for the driver."""
    if isinstance(v, datetime.date):
        return {"date": v.toordinal()}
    return extract.enc_y(v)


# ---------------------------------------------------------------------------------
# sampling
# ---------------------------------------------------------------------------------


def numeric_leaves(v, out):
    if isinstance(v, dict):
        for x in v.values():
            numeric_leaves(x, out)
    elif isinstance(v, (list, tuple, np.ndarray)):
        for x in v:
            numeric_leaves(x, out)
    elif isinstance(v, (int, Fraction)) and not isinstance(v, bool):
        out.add(Fraction(v))


def static_paths(fn_node: ast.FunctionDef) -> set[tuple]:
    """`g_params["a"]["b"]` chains with constant keys."""
    paths = set()
    for n in ast.walk(fn_node):
        if isinstance(n, ast.Subscript):
            keys = []
            cur = n
            while isinstance(cur, ast.Subscript) and isinstance(cur.slice, ast.Constant):
                keys.append(cur.slice.value)
                cur = cur.value
            if isinstance(cur, ast.Name) and cur.id.endswith("_params") and keys:
                paths.add((cur.id, tuple(reversed(keys))))
    return paths


def thresholds_for(entry, params_py) -> list[Fraction]:
    node = extract.source_of(entry)
    vals = set()
    for n in ast.walk(node):
        if isinstance(n, ast.Constant) and isinstance(n.value, (int, float)) and not isinstance(n.value, bool):
            vals.add(Fraction(repr(n.value)))
    for name, keys in static_paths(node):
        cur = params_py.get(name[:-7])
        try:
            for k in keys:
                cur = cur[k]
        except Exception:  # noqa: BLE001
            continue
        leaves = set()
        numeric_leaves(cur, leaves)
        vals |= set(list(leaves)[:40])
    return sorted(vals)


INT_POOL = [0, 1, 2, 3, 4, 5, 6, 11, 12, 14, 17, 18, 24, 25, 26, 40, 50, 57, 58, 60, 63, 65, 66, 67, 100,
            1940, 1947, 1952, 1958, 1964, 1970, 1990, 2000, 2010, 2020]


def sample_rows(rnd, entry, params_py, n):
    thr = thresholds_for(entry, params_py)
    free = [a for a in entry["args"] if not a.endswith("_params")]
    rows = []
    for _ in range(n):
        row = []
        for a in free:
            t = entry["arg_types"].get(a)
            if t == "bool":
                row.append(rnd.random() < 0.5)
            elif t == "int":
                c = [int(x) for x in thr if x.denominator == 1 and abs(x) < 10**6]
                pool = INT_POOL + c + [x + 1 for x in c] + [x - 1 for x in c]
                row.append(int(rnd.choice(pool)))
            else:
                r = rnd.random()
                if thr and r < 0.55:
                    base = rnd.choice(thr) * rnd.choice([1, 1, 1, 12, Fraction(1, 12), 2])
                    row.append(base + rnd.choice([0, 0, Fraction(1, 100), Fraction(-1, 100), 1, -1]))
                elif r < 0.65:
                    row.append(Fraction(0))
                elif r < 0.7:
                    row.append(Fraction(rnd.choice([10**5, 10**6, 10**7])))
                elif r < 0.75:
                    row.append(Fraction(-rnd.randint(1, 2000), 4))
                else:
                    row.append(Fraction(rnd.randint(0, 800000), 100))
        rows.append(row)
    return free, rows


def enc_val(v):
    if isinstance(v, (bool, np.bool_)):
        return {"t": "bool", "v": bool(v)}
    if isinstance(v, (int, np.integer)):
        return {"t": "int", "v": int(v)}
    if isinstance(v, Fraction):
        return {"t": "flt", "v": ruleir.fstr(v)}
    if isinstance(v, float):
        if math.isinf(v):
            return {"t": "inf", "neg": v < 0}
        return {"t": "flt", "v": ruleir.fstr(Fraction(v))}
    if v is None:
        return {"t": "none"}
    raise TypeError(type(v))


def canon_py(kind, v):
    if kind == "err":
        return ("err", v)
    if isinstance(v, (bool, np.bool_)):
        return ("bool", bool(v))
    if isinstance(v, (int, np.integer, Fraction)):
        return ("num", Fraction(v))
    if isinstance(v, float):
        if math.isinf(v):
            return ("inf", v < 0)
        return ("num", Fraction(v))
    if v is None:
        return ("none", None)
    return ("other", repr(v))


def canon_model(j):
    if "err" in j:
        return ("err", j["err"])
    v = j["ok"]
    t = v["t"]
    if t == "bool":
        return ("bool", v["v"])
    if t in ("int", "flt"):
        return ("num", Fraction(v["v"]))
    if t == "inf":
        return ("inf", v["neg"])
    if t == "none":
        return ("none", None)
    return ("other", json.dumps(v))


ERR = {"ZeroDivisionError": "ZeroDivisionError", "KeyError": "KeyError", "NameError": "NameError",
       "UnboundLocalError": "NameError", "TypeError": "TypeError", "IndexError": "ShapeError", "NaNProduced": "Error"}


def run_t1(run: common.Run, rnd, date: str, rows_per_rule: int, only: set | None = None):
    """Returns per-rule status; disagreements are reported on `run` as broken correspondence."""
    o = datetime.date.fromisoformat(date).toordinal()
    kind, env_model = paramsio.model_envs([o])[0]
    if kind != "ok":
        run.broke("correspondence", f"T1: model environment at {date}", str(env_model))
        return {}
    params_py = py_params(env_model)
    trees = [[g, enc_tree(env_model[g])] for g in env_model]
    active = [e for e in extract.registry() if (not e["td"]) or e["start"] <= o <= e["stop"]]
    ops = [paramsio.load_raw_op(), {"op": "set_trees", "trees": trees}]
    plan = []
    status = {}
    for e in active:
        if only is not None and e["dag"] not in only and e["fname"] not in only:
            continue
        fd = ruleir.fundef_inlined(extract.source_of(e), extract.helpers_of(e))
        opq = ruleir.opaque_nodes(fd["body"])
        if opq or e["skip_vectorization"]:
            status[e["fname"]] = {"in_fragment": False, "why": sorted(set(opq))[:4] or ["skip_vectorization"]}
            continue
        missing = [a for a in e["args"] if a.endswith("_params") and a[:-7] not in env_model]
        if missing:
            status[e["fname"]] = {"in_fragment": True, "skipped": f"no parameter group {missing}"}
            continue
        free, rows = sample_rows(rnd, e, params_py, rows_per_rule)
        fixed = [[a, a[:-7]] for a in e["args"] if a.endswith("_params")]
        ops.append({"op": "run_rule", "fun": fd, "fixed": fixed,
                    "rows": [[enc_val(v) for v in row] for row in rows]})
        plan.append((e, free, rows))
    outs = common.driver([json.dumps(x, ensure_ascii=False) for x in ops])
    bad_rules = 0
    for (e, free, rows), out in zip(plan, outs[2:]):
        res = json.loads(out)
        if isinstance(res, dict) and "bad" in res:
            run.broke("correspondence", f"T1 {e['fname']} at {date}: driver rejected the rule", res["bad"])
            status[e["fname"]] = {"in_fragment": True, "driver": res["bad"]}
            continue
        f, n_tests, cov = exact_function(e)
        kinds = {}
        first_bad = None
        for row, mj in zip(rows, res):
            kwargs = dict(zip(free, row))
            for a in e["args"]:
                if a.endswith("_params"):
                    kwargs[a] = params_py[a[:-7]]
            try:
                pv = ("ok", f(**kwargs))
            except Exception as ex:  # noqa: BLE001
                pv = ("err", ERR.get(type(ex).__name__, type(ex).__name__))
            a = canon_py(*pv)
            b = canon_model(mj)
            run.evaluations += 1
            run.traces += 1
            kinds[a[0] if a[0] != "err" else a[1]] = kinds.get(a[0] if a[0] != "err" else a[1], 0) + 1
            if a != b and first_bad is None:
                first_bad = {"rule": e["fname"], "date": date, "args": {k: str(v) for k, v in zip(free, row)},
                             "python": [a[0], str(a[1])], "model": [b[0], str(b[1])]}
        run.distinct.add(common.digest([e["fname"], date, sorted(kinds)]))
        status[e["fname"]] = {"in_fragment": True, "rows": len(rows), "outcomes": kinds,
                              "branch_coverage": f"{len(cov)}/{2 * n_tests}", "agree": first_bad is None}
        if first_bad is not None:
            bad_rules += 1
            run.broke("correspondence", f"T1 rule {e['fname']} at {date}: Lean evaluator vs repo source on exact rationals",
                      json.dumps(first_bad, ensure_ascii=False))
    covered = [s for s in status.values() if s.get("in_fragment") and "rows" in s]
    run.extra.setdefault("T1", {})[date] = {
        "active_rules": len(active), "in_fragment_and_compared": len(covered),
        "outside_fragment": sorted(k for k, s in status.items() if not s.get("in_fragment")),
        "disagreeing_rules": bad_rules,
        "branch_outcomes_hit": sum(int(s["branch_coverage"].split("/")[0]) for s in covered),
        "branch_outcomes_total": sum(int(s["branch_coverage"].split("/")[1]) for s in covered)}
    return status
