"""C20 — malformed input data are rejected, and type coercion is lossless."""

from __future__ import annotations

import json
import warnings
from fractions import Fraction

import numpy as np
import pandas as pd

import common
import corr
import extract
import meta
import popgen


# ---------------------------------------------------------------------------------
# encoding for the Lean Typing model
# ---------------------------------------------------------------------------------


def dtype_name(s: pd.Series) -> str:
    d = str(s.dtype)
    if d in ("int64", "float64", "bool", "object", "str"):
        return d
    if d.startswith("datetime64"):
        return "datetime"
    if d == "string":
        return "str"
    raise ValueError(d)


def cell(v, dn):
    if dn == "datetime":
        return f"d:{int(v)}"
    if isinstance(v, (bool, np.bool_)):
        return f"b:{1 if v else 0}"
    if isinstance(v, (int, np.integer)):
        return f"i:{int(v)}"
    if isinstance(v, (float, np.floating)):
        v = float(v)
        if v != v:
            return "nan"
        if v in (float("inf"), float("-inf")):
            return "inf" if v > 0 else "-inf"
        f = Fraction(v)
        return f"f:{f.numerator}/{f.denominator}"
    if isinstance(v, str):
        return f"s:{v}"
    raise ValueError(repr(v))


def enc_col(s: pd.Series):
    dn = dtype_name(s)
    vals = list(s.astype("int64")) if dn == "datetime" else list(s)
    return {"dtype": dn, "cells": [cell(v, dn) for v in vals]}


def enc_table(df) -> list:
    return [[str(c), enc_col(df.iloc[:, i])] for i, c in enumerate(df.columns)]


def err_class(e) -> str:
    if isinstance(e, ValueError):
        return "ValueError"
    if isinstance(e, TypeError):
        return "TypeError"
    if isinstance(e, KeyError):
        return "KeyError"
    return "Error"


ITY = {float: "float", int: "int", bool: "bool", np.datetime64: "datetime"}


def random_series(rnd, n):
    kind = rnd.choice(["int", "float", "float_int", "bool", "str", "object", "date", "int01", "float01", "floatnan", "bigint",
                       "float_near_int", "float_near_int"])
    if kind == "int":
        return pd.Series([rnd.randint(-3, 40) for _ in range(n)], dtype="int64")
    if kind == "int01":
        return pd.Series([rnd.randint(0, 1) for _ in range(n)], dtype="int64")
    if kind == "bigint":
        return pd.Series([rnd.choice([2**53, 2**53 + 1, -(2**53) - 1, 2**60 + 7, 5]) for _ in range(n)], dtype="int64")
    if kind == "float":
        return pd.Series([rnd.choice([0.0, 1.0, 2.5, -1.25, 1e6, 0.1]) for _ in range(n)], dtype="float64")
    if kind == "float_near_int":
        # non-integral values whose fraction is small relative to their size, and integral ones of the same size
        return pd.Series([rnd.choice([54321.5, 54322.0, 1958.01, 1958.0, 1e6 + 0.25, 1e6, 2.0**40 + 0.5, 2.0**40,
                                      3.000000001, 3.0, 1e9 + 0.125, 7.0000001, 123456.75]) for _ in range(n)], dtype="float64")
    if kind == "float_int":
        return pd.Series([float(rnd.randint(-3, 40)) for _ in range(n)], dtype="float64")
    if kind == "float01":
        return pd.Series([float(rnd.randint(0, 1)) for _ in range(n)], dtype="float64")
    if kind == "floatnan":
        return pd.Series([rnd.choice([0.0, 1.0, float("nan"), float("inf"), 3.0]) for _ in range(n)], dtype="float64")
    if kind == "bool":
        return pd.Series([rnd.random() < 0.5 for _ in range(n)], dtype="bool")
    if kind == "str":
        return pd.Series([rnd.choice(["1", "0", "2.5", " 7 ", "abc", "1e3", "True", "-4"]) for _ in range(n)])
    if kind == "object":
        return pd.Series([rnd.choice([1, "a", 2.5, True]) for _ in range(n)], dtype="object")
    return pd.Series(pd.to_datetime([rnd.choice(["2020-01-01", "1999-12-31", "2024-02-29"]) for _ in range(n)]))


def conversion_correspondence(run, rnd, n_cases):
    from _gettsim.gettsim_typing import check_series_has_expected_type, convert_series_to_internal_type

    ops, real = [], []
    for _ in range(n_cases):
        s = random_series(rnd, rnd.randint(0, 5))
        t = rnd.choice([float, int, bool, np.datetime64])
        try:
            col = enc_col(s)
        except ValueError:
            continue
        ops.append({"op": "typing_has", "col": col, "target": ITY[t]})
        real.append(("has", bool(check_series_has_expected_type(s, t)), s, t))
        ops.append({"op": "typing_convert", "col": col, "target": ITY[t]})
        try:
            with warnings.catch_warnings():
                warnings.simplefilter("ignore")
                out = convert_series_to_internal_type(s, t)
            real.append(("ok", enc_col(out), s, t))
        except Exception as e:  # noqa: BLE001
            real.append(("err", err_class(e), s, t))
    outs = common.driver([json.dumps(o, ensure_ascii=False) for o in ops])
    bad = []
    for op, (k, v, s, t), o in zip(ops, real, outs):
        j = json.loads(o)
        run.case(op)
        run.traces += 1
        if k == "has":
            agree = j.get("ok") == v
        elif k == "ok":
            agree = j.get("ok") == v
        else:
            agree = "err" in j and (j["err"] == v or {j["err"], v} <= {"ValueError", "Error", "TypeError"} and j["err"] != "KeyError")
        if not agree:
            bad.append({"op": op, "code": [k, v], "model": j})
        # the property on the real converter: no numeric value changes (|int| <= 2^53 guard is finding 6.11)
        if k == "ok" and v["dtype"] in ("float64", "int64", "bool") and op["col"]["dtype"] in ("int64", "float64", "bool"):
            for a, b in zip(op["col"]["cells"], v["cells"]):
                na, nb = _num(a), _num(b)
                if na is not None and nb is not None and na != nb:
                    big = a.startswith("i:") and abs(int(a[2:])) > 2**53
                    run.hit({"kind": "conversion-changes-value", "from": op["col"]["dtype"], "to": ITY[t], "beyond_2_53": big},
                            f"convert_series_to_internal_type turned {a} ({op['col']['dtype']}) into {b} ({ITY[t]})",
                            {"series": op["col"], "target": ITY[t]})
                    break
    run.extra.setdefault("correspondence", {})["convert_series_to_internal_type / check_series_has_expected_type vs Core/Typing.lean"] = {
        "cases": len(ops), "disagreements": len(bad)}
    if bad:
        run.broke("correspondence", "gettsim_typing vs Core/Typing.lean", json.dumps(bad[0], ensure_ascii=False, default=str)[:1500])


def _num(c):
    if c.startswith("i:"):
        return Fraction(int(c[2:]))
    if c.startswith("f:"):
        return Fraction(c[2:])
    if c.startswith("b:"):
        return Fraction(int(c[2:]))
    return None


# ---------------------------------------------------------------------------------
# fault injection on the real system
# ---------------------------------------------------------------------------------


def faults(rnd, df):
    """(label, faulty frame) for every enumerated fault class at a random eligible position."""
    n = len(df)
    out = []
    i = rnd.randrange(n)
    j = rnd.choice([k for k in range(n) if k != i]) if n > 1 else i
    if n > 1:
        d = df.copy(); d.loc[i, "p_id"] = d.loc[j, "p_id"]; out.append(("duplicate p_id", d))
    out.append(("missing p_id column", df.drop(columns=["p_id"])))
    for fk in ["p_id_ehepartner", "p_id_einstandspartner", "p_id_elternteil_1", "p_id_elternteil_2"]:
        d = df.copy(); d.loc[i, fk] = int(df["p_id"].max()) + 17; out.append((f"{fk} to a missing person", d))
        d = df.copy(); d.loc[i, fk] = d.loc[i, "p_id"]; out.append((f"{fk} to oneself", d))
        d = df.copy(); d.loc[i, fk] = -2; out.append((f"{fk} = -2", d))
    for c in popgen.HH_VARS:
        hh = df["hh_id"]
        multi = [h for h in hh.unique() if (hh == h).sum() > 1]
        if not multi:
            continue
        h = rnd.choice(multi)
        row = rnd.choice(list(df.index[hh == h]))
        d = df.copy()
        if d[c].dtype == bool:
            d.loc[row, c] = not d.loc[row, c]
        else:
            d.loc[row, c] = d.loc[row, c] + rnd.choice([1, -1])
        out.append((f"{c} varies within a household", d))
        if df[c].dtype.kind == "f":
            # a value for some members and a missing value for another member is a household-level input that varies as well
            d = df.copy(); d.loc[row, c] = float("nan")
            out.append((f"{c} is missing (NaN) for one member of a household", d))
    # contradictory joint assessment
    sp = df.index[df["p_id_ehepartner"] >= 0]
    if len(sp):
        row = rnd.choice(list(sp))
        d = df.copy(); d.loc[row, "gemeinsam_veranlagt"] = not d.loc[row, "gemeinsam_veranlagt"]
        out.append(("spouses with contradictory gemeinsam_veranlagt", d))
    # missing required column
    need = [c for c in ["bruttolohn_m", "alter", "wohnort_ost", "kind"] if c in df.columns]
    c = rnd.choice(need)
    out.append((f"missing required column {c}", df.drop(columns=[c])))
    # duplicate column name
    d = pd.concat([df, df[["alter"]]], axis=1); out.append(("duplicate column name", d))
    # columns that cannot be converted without changing a value
    d = df.copy(); d["alter"] = d["alter"].astype(float); d.loc[i, "alter"] = d.loc[i, "alter"] + 0.5
    out.append(("non-integral float for an int input", d))
    d = df.copy(); d["hh_id"] = d["hh_id"].astype(float) + 50000.0; d.loc[i, "hh_id"] = d.loc[i, "hh_id"] + 0.5
    out.append(("non-integral float for an int input (large magnitude)", d))
    d = df.copy(); d["geburtsjahr"] = d["geburtsjahr"].astype(float); d.loc[i, "geburtsjahr"] = d.loc[i, "geburtsjahr"] + 0.01
    out.append(("non-integral float for an int input (year + 0.01)", d))
    d = df.copy(); d["kind"] = d["kind"].astype(int); d.loc[i, "kind"] = 2
    out.append(("value 2 for a bool input", d))
    d = df.copy(); d["bruttolohn_m"] = df["kind"].to_numpy()
    out.append(("bool column for a float input", d))
    d = df.copy(); d["alter"] = [None if k == i else "x" for k in range(n)]; d["alter"] = d["alter"].astype(object)
    out.append(("object column for an int input", d))
    d = df.copy(); d["alter"] = d["alter"].astype(float); d.loc[i, "alter"] = float("nan")
    out.append(("NaN for an int input", d))
    return out


def lossless_variants(rnd, df):
    out = []
    d = df.copy(); d["alter"] = d["alter"].astype(float); out.append(("int input as integral float", d))
    d = df.copy(); d["kind"] = d["kind"].astype(int); out.append(("bool input as 0/1 int", d))
    d = df.copy(); d["weiblich"] = d["weiblich"].astype(float); out.append(("bool input as 0.0/1.0 float", d))
    d = df.copy(); d["bruttolohn_m"] = (d["bruttolohn_m"] * 0 + d["bruttolohn_m"].round()).astype(int); out.append(("float input as int", d))
    d = df.copy(); d["hh_id"] = d["hh_id"].astype(float); out.append(("hh_id as integral float", d))
    # narrower storage of the SAME kind (no conversion is needed, none is announced; the values must arrive unchanged)
    d = df.copy(); d["alter"] = d["alter"].astype("int8"); d["geburtsjahr"] = d["geburtsjahr"].astype("int16")
    out.append(("same kind, narrower: alter as int8, geburtsjahr as int16", d))
    d = df.copy(); d["p_id"] = d["p_id"].astype("int32"); d["hh_id"] = d["hh_id"].astype("int32")
    out.append(("same kind, narrower: p_id and hh_id as int32", d))
    d = df.copy(); d["alter"] = d["alter"].astype("Int64"); out.append(("same kind, nullable: alter as Int64 without missing values", d))
    d = df.copy(); d["kind"] = d["kind"].astype("uint8"); out.append(("bool input as uint8 0/1", d))
    return out


def system_search(run, rnd, dates, n_pops):
    classes = {}
    for date in dates:
        for k in range(n_pops):
            df, kinds = popgen.population(rnd, date, n_clusters=rnd.randint(2, 4), shuffle=True)
            df = df.reset_index(drop=True)
            ok, base = run.attempt(f"baseline at {date}", popgen.simulate, df, date,
                                   replay={"date": date, "data": popgen.frame_to_json(df)})
            if not ok:
                continue
            fs = faults(rnd, df)
            # pairs of faults in the thorough tier are generated by applying a second fault to a faulty table
            for label, bad in fs:
                run.case({"fault": label, "date": date, "pop": common.digest(popgen.frame_to_json(df))})
                classes[label.split(" to ")[0] if label.startswith("p_id_") else label] = classes.get(label, 0) + 1
                # rejection must not depend on where the faulty row sits: the table as built, reversed, and shuffled
                accepted = None
                variants = [("", bad)]
                if isinstance(bad, pd.DataFrame) and len(bad) > 1 and bad.columns.is_unique:
                    perm = rnd.sample(range(len(bad)), len(bad))
                    variants += [(" (rows reversed)", bad.iloc[::-1].reset_index(drop=True)),
                                 (" (rows shuffled)", bad.iloc[perm].reset_index(drop=True))]
                for suffix, tab in variants:
                    try:
                        res = popgen.simulate(tab, date)
                    except Exception:  # noqa: BLE001  rejected: what the property demands
                        continue
                    accepted = (suffix, tab)
                    break
                if accepted is None:
                    continue
                where, bad = accepted
                cls = label
                for fk in ("p_id_ehepartner", "p_id_einstandspartner", "p_id_elternteil_1", "p_id_elternteil_2"):
                    cls = cls.replace(fk, "<pointer>")
                for c in popgen.HH_VARS:
                    cls = cls.replace(c, "<hh column>")
                run.hit({"kind": "malformed-data-accepted", "fault": cls},
                        f"a table with the fault '{label}'{where} is simulated at {date} instead of being rejected",
                        {"date": date, "fault": label, "data": {c: [str(x) for x in bad.iloc[:, i].tolist()] for i, c in enumerate(bad.columns)}})
            for label, var in lossless_variants(rnd, df):
                run.case({"variant": label, "date": date, "pop": common.digest(popgen.frame_to_json(df))})
                with warnings.catch_warnings(record=True) as w:
                    warnings.simplefilter("always")
                    try:
                        from gettsim import compute_taxes_and_transfers
                        params, functions = popgen.env(date)
                        res = compute_taxes_and_transfers(data=var, params=params, functions=functions)
                    except Exception as e:  # noqa: BLE001
                        run.hit({"kind": "lossless-variant-rejected", "variant": label},
                                f"'{label}' is rejected at {date}: {type(e).__name__}: {str(e)[:150]}", {"date": date, "variant": label})
                        continue
                if not label.startswith("same kind") and not any("have been converted" in str(x.message) for x in w):
                    run.hit({"kind": "conversion-not-announced", "variant": label},
                            f"'{label}' at {date}: the automatic conversion raised no warning", {"date": date, "variant": label})
                bad_cols = meta.diff_columns(base, res)
                if label == "float input as int":
                    continue  # the input values themselves were rounded to build this variant
                for col, why in bad_cols:
                    run.hit({"kind": "lossless-variant-changes-results", "variant": label, "node": col},
                            f"'{label}' at {date} changes {col}: {why}", {"date": date, "variant": label, "node": col})
    for date in dates:
        narrow_table_faults(run, rnd, date)
    run.extra["fault_classes_injected"] = len(classes)


def narrow_table_faults(run, rnd, date):
    """The same fault classes on a NARROW table with many households (a user who computes one column supplies only the
    columns it needs): few columns, more households than columns, the requested target needs them all."""
    df, kinds = popgen.population(rnd, date, n_clusters=rnd.randint(10, 14), shuffle=True)
    fks = ["p_id_ehepartner", "p_id_einstandspartner", "p_id_elternteil_1", "p_id_elternteil_2"]
    nar = df[["p_id", "hh_id", "bruttokaltmiete_m_hh", "heizkosten_m_hh", *fks]].reset_index(drop=True)
    T = ["bruttokaltmiete_y_hh", "heizkosten_y_hh"]
    try:
        popgen.simulate(nar, date, targets=T)
    except Exception as ex:  # noqa: BLE001
        run.broke("implementation-raises", f"narrow valid table at {date}: {type(ex).__name__}: {str(ex)[:200]}", "")
        return
    n = len(nar)
    hh = nar["hh_id"]
    multi = [h for h in hh.unique() if (hh == h).sum() > 1]
    i = rnd.randrange(n)
    j = rnd.choice([k for k in range(n) if k != i])
    out = []
    if multi:
        row = rnd.choice(list(nar.index[hh == rnd.choice(multi)]))
        for c in ("bruttokaltmiete_m_hh", "heizkosten_m_hh"):
            d = nar.copy(); d.loc[row, c] = d.loc[row, c] + 25.0
            out.append((f"{c} varies within a household (narrow table, {hh.nunique()} households, {nar.shape[1]} columns)", d))
            d = nar.copy(); d.loc[row, c] = float("nan")
            out.append((f"{c} is missing (NaN) for one member of a household (narrow table)", d))
    d = nar.copy(); d.loc[i, "p_id"] = d.loc[j, "p_id"]; out.append(("duplicate p_id (narrow table)", d))
    for fk in fks:
        d = nar.copy(); d.loc[i, fk] = int(nar["p_id"].max()) + 17; out.append((f"{fk} to a missing person (narrow table)", d))
        d = nar.copy(); d.loc[i, fk] = d.loc[i, "p_id"]; out.append((f"{fk} to oneself (narrow table)", d))
    for label, bad in out:
        run.case({"fault": label, "date": date})
        for suffix, tab in (("", bad), (" (rows reversed)", bad.iloc[::-1].reset_index(drop=True))):
            try:
                popgen.simulate(tab, date, targets=T)
            except Exception:  # noqa: BLE001  rejected, as the property demands
                continue
            cls = label
            for fk in fks:
                cls = cls.replace(fk, "<pointer>")
            for c in ("bruttokaltmiete_m_hh", "heizkosten_m_hh"):
                cls = cls.replace(c, "<hh column>")
            cls = cls.split(" (narrow table")[0] + " (narrow table)"
            run.hit({"kind": "malformed-data-accepted", "fault": cls},
                    f"a table with the fault '{label}'{suffix} is simulated at {date} instead of being rejected",
                    {"date": date, "fault": label, "targets": T,
                     "data": {c: [str(x) for x in tab[c].tolist()] for c in tab.columns}})
            break


def table_correspondence(run, rnd, n_cases):
    """`_process_and_check_data` + `_convert_data_to_correct_types` vs the Lean validators on small random tables."""
    from _gettsim.config import FOREIGN_KEYS, SUPPORTED_GROUPINGS, TYPES_INPUT_VARIABLES
    from _gettsim.interface import _convert_data_to_correct_types, _process_and_check_data

    ops, real = [], []
    types = [[k, ITY[v]] for k, v in TYPES_INPUT_VARIABLES.items()]
    for _ in range(n_cases):
        n = rnd.randint(1, 5)
        pid = rnd.sample(range(0, 12), n)
        if rnd.random() < 0.15 and n > 1:
            pid[0] = pid[1]
        cols = {"p_id": pd.Series(pid, dtype="int64"), "hh_id": pd.Series([rnd.randint(0, 2) for _ in range(n)], dtype="int64")}
        if rnd.random() < 0.1:
            del cols["p_id"]
        for fk in rnd.sample(list(FOREIGN_KEYS), rnd.randint(0, 3)):
            cols[fk] = pd.Series([rnd.choice(pid + [-1, -1, -2, 99]) if rnd.random() < 0.3 else -1 for _ in range(n)], dtype="int64")
        for c in rnd.sample(["wohnfläche_hh", "bruttokaltmiete_m_hh", "x_hh", "y_wthh", "alter", "kind", "bruttolohn_m"], 3):
            s = random_series(rnd, n)
            if c.endswith("_hh") and rnd.random() < 0.6 and "hh_id" in cols:
                first = {}
                vals = [first.setdefault(h, v) for h, v in zip(cols["hh_id"], s)]
                try:
                    s = pd.Series(vals, dtype=s.dtype)
                except Exception:  # noqa: BLE001
                    pass
            cols[c] = s
        df = pd.DataFrame(cols)
        if rnd.random() < 0.08:
            df = pd.concat([df, df[[df.columns[0]]]], axis=1)
        try:
            table = enc_table(df)
        except ValueError:
            continue
        ops.append({"op": "typing_process", "levels": list(SUPPORTED_GROUPINGS), "fks": list(FOREIGN_KEYS), "table": table})
        try:
            _process_and_check_data(df)
            real.append(("ok", None))
        except Exception as e:  # noqa: BLE001
            real.append(("err", err_class(e)))
        if not df.columns.duplicated().any():
            ops.append({"op": "typing_convert_all", "types": types, "table": table})
            try:
                with warnings.catch_warnings(record=True) as w:
                    warnings.simplefilter("always")
                    outd = _convert_data_to_correct_types(dict(df), {})
                conv = sorted(c for c in df.columns if str(outd[c].dtype) != str(df[c].dtype))
                real.append(("ok", {"dtypes": {c: dtype_name(outd[c]) for c in outd}, "warned": bool(w)}))
            except Exception as e:  # noqa: BLE001
                real.append(("err", err_class(e)))
    outs = common.driver([json.dumps(o, ensure_ascii=False) for o in ops])
    bad = []
    for op, (k, v), o in zip(ops, real, outs):
        j = json.loads(o)
        run.case({"op": op["op"], "t": common.digest(op["table"])})
        run.traces += 1
        if k == "err":
            agree = "err" in j
        elif op["op"] == "typing_process":
            agree = "ok" in j
        else:
            agree = "ok" in j and {n: c["dtype"] for n, c in j["ok"]["table"]} == v["dtypes"] and \
                (len(j["ok"]["converted"]) > 0) == v["warned"]
        if not agree:
            bad.append({"op": op["op"], "table": op["table"], "code": [k, v], "model": j})
    run.extra.setdefault("correspondence", {})["_process_and_check_data / _convert_data_to_correct_types vs Core/Typing.lean"] = {
        "cases": len(ops), "disagreements": len(bad)}
    if bad:
        run.broke("correspondence", "input validators vs Core/Typing.lean", json.dumps(bad[0], ensure_ascii=False, default=str)[:1800])


def run(tier: str) -> int:
    r = common.Run("C20", tier)
    quick = tier == "quick"
    r.rule = ("T2: every (source dtype, documented type) pair on random small series incl. NaN/inf/strings/objects/dates/"
              "|int| > 2^53, and random small tables with injected duplicates / dangling, self and -2 pointers / "
              "non-constant *_hh columns, vs the Lean model (exact cells, error class); search: valid populations with one "
              "fault of every enumerated class at a random eligible position must raise; lossless dtype variants must leave "
              "all default targets unchanged and be announced by the conversion warning. distinct = distinct tables / (population, fault).")
    common.build_and_audit(r, ["C20", "C20Sim", "C20Bridge"], leanchecker=not quick)
    rnd = common.rng("C20")
    conversion_correspondence(r, rnd, 300 if quick else 6000)
    table_correspondence(r, rnd, 150 if quick else 3000)
    system_search(r, rnd, popgen.DATES_QUICK[-1:] if quick else popgen.DATES_2015[::3], 3 if quick else 25)
    r.sample({"fault": "p_id_ehepartner to oneself", "expected": "ValueError"})
    return r.finish()


def replay(path: str) -> int:
    d = json.load(open(path))
    print(json.dumps({k: v for k, v in d.items() if k != "data"}, ensure_ascii=False)[:1500])
    return 1
