"""C15 — group-level columns have one value per group."""

from __future__ import annotations

import inspect
import json

import networkx as nx
import numpy as np

import common
import extract
import popgen

LEVELS = ["hh", "wthh", "fg", "bg", "eg", "ehe", "sn"]


def level_of(name: str):
    for g in LEVELS:
        if name.endswith(f"_{g}"):
            return g
    return None


def build_graph(date: str):
    """The dependency graph of the default targets as `Levels.Graph` (dependencies first)."""
    dag, fno = popgen.graph(date)
    _, functions = popgen.env(date)
    by_group = extract.aggregation_dicts("aggregate_by_group")
    by_pid = extract.aggregation_dicts("aggregate_by_p_id")
    order = list(nx.topological_sort(dag))
    graph, names = [], []
    for n in order:
        if n.endswith("_params"):
            graph.append([n, {"k": "param"}])
            continue
        if n not in fno:  # data column
            if n in ("hh_id",):
                graph.append([n, {"k": "grouping", "level": "hh"}])
            else:
                lv = level_of(n)
                graph.append([n, {"k": "input", **({"level": lv} if lv else {})}])
            continue
        f = fno[n]
        args = [a for a in inspect.signature(f).parameters]
        if n.endswith("_id") and n[:-3] in LEVELS:
            kind = {"k": "grouping", "level": n[:-3]}
        elif n in functions:
            if getattr(functions[n], "__info__", {}).get("skip_vectorization"):
                kind = {"k": "opaque"}
            else:
                kind = {"k": "rowwise", "args": args}
        elif n in by_pid:
            kind = {"k": "opaque"}
        elif n in by_group or (level_of(n) and len(args) == 2 and args[1] == f"{level_of(n)}_id") or \
                (level_of(n) and args == [f"{level_of(n)}_id"]):
            kind = {"k": "agg", "level": level_of(n)}
        elif len(args) == 1:
            kind = {"k": "timeconv", "src": args[0]}
        else:
            kind = {"k": "opaque"}
        graph.append([n, kind])
        lv = level_of(n)
        if lv:
            names.append([n, lv])
    return graph, names, dag, fno


def analysis(date: str):
    graph, names, dag, fno = build_graph(date)
    out = json.loads(common.driver([json.dumps({"op": "levels", "graph": graph, "names": names}, ensure_ascii=False)])[0])
    if "unproved" not in out:
        raise RuntimeError(str(out)[:500])
    return out["unproved"], dict((n, ls) for n, ls in out["table"]), names, graph, dag, fno


def blame(node, table, graph):
    """the arguments of `node` that are not constant on its level"""
    lv = level_of(node)
    kinds = dict((n, k) for n, k in graph)
    k = kinds.get(node, {})
    if k.get("k") == "rowwise":
        return [a for a in k["args"] if lv not in table.get(a, [])]
    if k.get("k") == "timeconv":
        return [k["src"]]
    return []


def diverse_population(rnd, date):
    """members of a group differ in every individual-level input"""
    df, kinds = popgen.population(rnd, date, n_clusters=rnd.randint(2, 4))
    df = df.copy()
    for c in df.columns:
        if c in ("p_id", "hh_id") or c in popgen.POINTERS or level_of(c):
            continue
        if c in ("gemeinsam_veranlagt", "eigenbedarf_gedeckt", "alter", "geburtsjahr", "kind", "wohnort_ost"):
            continue
        if c == "mietstufe":
            lo, hi = int(df[c].min()), int(df[c].max())
            levels = sorted(set(df[c])) + [max(1, lo - 1), min(6, hi + 1)]
            df[c] = [rnd.choice(levels) for _ in range(len(df))]
            continue
        if df[c].dtype == bool:
            df[c] = [rnd.random() < 0.5 for _ in range(len(df))]
        elif df[c].dtype.kind == "f" and rnd.random() < 0.7:
            df[c] = df[c] + np.asarray([rnd.choice([0.0, 0.0, 37.25, 410.0]) for _ in range(len(df))])
    return df, kinds


def run(tier: str) -> int:
    r = common.Run("C15", tier)
    quick = tier == "quick"
    r.rule = ("static: constancy analysis (Core/Levels.lean, sound by const_sound/constTable_sound) on the dependency graph of "
              "the default targets at every sampled date, one obligation per suffixed node; dynamic: populations whose members "
              "differ in the individual-level inputs (incl. bürgerg_bezug_vorj, alleinerz, monate_elterngeldbezug, wealth), all "
              "suffixed nodes grouped by the matching id column. distinct = (date, node) / (population).")
    common.build_and_audit(r, ["C15", "C15Sim", "C15E2E"], leanchecker=not quick)
    rnd = common.rng("C15")
    dates = popgen.DATES_QUICK + ["2015-01-01"] if quick else popgen.DATES_2015
    for date in dates:
        unproved, table, names, graph, dag, fno = analysis(date)
        r.extra.setdefault("suffixed_nodes", {})[date] = len(names)
        r.extra.setdefault("not_provably_constant", {})[date] = {n: blame(n, table, graph) for n in unproved}
        # roots = unproved nodes whose blamed arguments are not themselves unproved suffixed nodes;
        # every other unproved node lies in the cone of a root and is attributed to it
        unp = set(unproved)
        roots = [n for n in unproved if not any(a in unp for a in blame(n, table, graph))]
        cone_of = {}
        for n in unproved:
            if n in roots:
                continue
            stack, seen = [n], set()
            while stack:
                x = stack.pop()
                for a in blame(x, table, graph):
                    if a in roots:
                        cone_of.setdefault(n, set()).add(a)
                    elif a in unp and a not in seen:
                        seen.add(a)
                        stack.append(a)
        r.extra.setdefault("unproved_roots", {})[date] = {n: blame(n, table, graph) for n in roots}
        known_roots = {n for n in roots if common.match_known(
            "C15", {"node": n, "kind": "reads-non-group-level-argument", "args": sorted(blame(n, table, graph))})}
        for n, lv in names:
            r.case({"static": n, "date": date})
            if n in unp:
                rs = {n} if n in roots else cone_of.get(n, set())
                if rs and rs <= known_roots:
                    continue  # not claimed: inside the cone of a recorded finding
                r.oblige(f"{n} constant per {lv} ({date})", False, f"reads {blame(n, table, graph)}")
            else:
                r.oblige(f"{n} constant per {lv} ({date})", True)
        # dynamic search; the statically unproved nodes are the prime suspects
        nodes = popgen.computed_nodes(date)
        witnesses = {}
        for k in range(6 if quick else 40):
            df, kinds = diverse_population(rnd, date)
            ok, res = r.attempt(f"simulate at {date}", popgen.simulate_all, df, date,
                                replay={"date": date, "data": popgen.frame_to_json(df)})
            if not ok:
                continue
            r.case({"dynamic": common.digest(popgen.frame_to_json(df)), "date": date})
            for n, lv in names:
                if n not in res.columns:
                    continue
                gid = res[f"{lv}_id"].to_numpy()
                col = res[n].to_numpy()
                seen = {}
                for g, v in zip(gid, col):
                    if g in seen and not (seen[g] == v or (v != v and seen[g] != seen[g])):
                        if n not in witnesses:
                            witnesses[n] = (df, g, seen[g], v)
                        break
                    seen.setdefault(g, v)
        for n in roots:
            args = blame(n, table, graph)
            w = witnesses.get(n)
            key = {"node": n, "kind": "reads-non-group-level-argument", "args": sorted(args)}
            if w is not None:
                df, g, v0, v1 = w
                r.hit(key, f"{n} at {date} takes the values {v0!r} and {v1!r} inside one {level_of(n)} group (id {g}); "
                           f"it reads {args}", {"date": date, "data": popgen.frame_to_json(df), "node": n, "group": int(g)})
            elif common.match_known("C15", key):
                r.hit(key, "", {})
            else:
                r.broke("theorem", f"constancy obligation for {n} at {date}",
                        f"{n} reads {args}, which the analysis cannot show constant per {level_of(n)}")
        for n, (df, g, v0, v1) in witnesses.items():
            if n in roots or (n in cone_of and cone_of[n] <= set(roots)):
                continue  # reported at its root
            r.hit({"node": n, "kind": "not-constant-within-group"},
                  f"{n} at {date} takes the values {v0!r} and {v1!r} inside one {level_of(n)} group (id {g}) although "
                  f"the analysis shows it constant — the model of the graph and the code disagree",
                  {"date": date, "data": popgen.frame_to_json(df), "node": n, "group": int(g)})
    r.sample({"node": "arbeitsl_geld_2_m_bg", "obligation": "bg ∈ constLevels", "via": "constTable"})
    return r.finish()


def replay(path: str) -> int:
    d = json.load(open(path))
    print(json.dumps({k: v for k, v in d.items() if k != "data"}, ensure_ascii=False)[:1500])
    return 1
