"""C13 — time-unit variants of a column differ exactly by the fixed factors."""

from __future__ import annotations

import inspect
import json
import re
from fractions import Fraction

import numpy as np

import common
import corr
import emit_lean
import extract
import popgen

UNITS = ["y", "m", "w", "d"]
PER_YEAR = {"y": Fraction(1), "m": Fraction(12), "w": Fraction(36525, 700), "d": Fraction(36525, 100)}


def factor(u, v) -> Fraction:
    return PER_YEAR[u] / PER_YEAR[v]


def real_regex():
    from _gettsim.config import SUPPORTED_GROUPINGS, SUPPORTED_TIME_UNITS

    units = "".join(SUPPORTED_TIME_UNITS)
    groupings = "|".join([f"_{g}" for g in SUPPORTED_GROUPINGS])
    return re.compile(f"(?P<base_name>.*_)(?P<time_unit>[{units}])(?P<aggregation>{groupings})?")


def name_universe():
    names = set()
    for e in extract.registry():
        names.add(e["dag"])
        names.add(e["fname"])
        names.update(e["args"])
    names.update(extract.config_tables()["TYPES_INPUT_VARIABLES"])
    names.update(extract.aggregation_dicts("aggregate_by_group"))
    names.update(extract.aggregation_dicts("aggregate_by_p_id"))
    return sorted(names)


def random_names(rnd, n):
    parts = ["a", "b", "x", "eink", "m", "y", "w", "d", "hh", "sn", "fg", "bg", "eg", "ehe", "wthh", "st", "_", ""]
    out = []
    for _ in range(n):
        k = rnd.randint(1, 5)
        out.append("_".join(rnd.choice(parts) for _ in range(k)))
    return out


def parser_correspondence(run, rnd, n_random):
    names = name_universe() + random_names(rnd, n_random)
    rx = real_regex()
    outs = corr.model_results([{"op": "parse_name", "names": names}])[0][1]
    bad = []
    matched = 0
    for n, m in zip(names, outs):
        mm = rx.fullmatch(n)
        real = None if mm is None else [mm.group("base_name"), mm.group("time_unit"), mm.group("aggregation") or ""]
        run.case({"name": n})
        run.traces += 1
        matched += real is not None
        if real != m:
            bad.append({"name": n, "regex": real, "model": m})
    run.extra.setdefault("correspondence", {})["name pattern: re.fullmatch vs TimeConv.parseName"] = {
        "names": len(names), "with_time_unit": matched, "disagreements": len(bad)}
    if bad:
        run.broke("correspondence", "name pattern: re.fullmatch vs TimeConv.parseName", json.dumps(bad[:3], ensure_ascii=False))


def converter_correspondence(run):
    from _gettsim import time_conversion as T

    xs = [Fraction(0), Fraction(1), Fraction(-7, 2), Fraction(1000), Fraction(36525, 7), Fraction(123456789, 1000)]
    ops, real = [], []
    for u in UNITS:
        for v in UNITS:
            if u == v:
                continue
            ops.append({"op": "conv", "u": u, "v": v, "x": [corr.fstr(x) for x in xs]})
            f = getattr(T, f"{u}_to_{v}")       # the public converter functions
            real.append([f(float(x)) for x in xs])
    res = corr.model_results(ops)
    bad = []
    for op, (k, m), r in zip(ops, res, real):
        for x, a, b in zip(xs, r, m):
            run.case({"conv": op["u"] + op["v"], "x": str(x)})
            run.traces += 1
            exact = x * factor(op["u"], op["v"])
            if Fraction(b) != exact:
                bad.append({"conv": op, "model": b, "documented": str(exact)})
            if abs(a - float(exact)) > 2.0**-40 * max(1.0, abs(float(exact))):
                run.hit({"node": f"{op['u']}_to_{op['v']}", "kind": "converter-factor"},
                        f"real converter {op['u']}_to_{op['v']}({float(x)}) = {a!r}, documented factor gives {float(exact)!r}",
                        {"call": op, "observed": a, "expected": float(exact)})
    # constants of the source
    c = extract.config_tables()["per_year"]
    for k in ("m", "w", "d"):
        run.case({"const": k})
        if c[k] != PER_YEAR[k]:
            run.hit({"node": f"_{k.upper()}_PER_Y", "kind": "converter-factor"},
                    f"constant for {k} per year is {c[k]}, documented {PER_YEAR[k]}", {})
    run.extra.setdefault("correspondence", {})["12 converters vs TimeConv.conv / documented factors"] = {
        "cases": len(ops) * len(xs), "disagreements": len(bad)}
    if bad:
        run.broke("correspondence", "converters vs TimeConv.conv", json.dumps(bad[:3]))


def describe_real(created):
    out = {}
    for name, f in created.items():
        src = list(inspect.signature(f).parameters)
        val = f(**{src[0]: 1.0})
        out[name] = (src[0], val)
    return out


def factory_correspondence(run, rnd, dates, n_toy):
    from _gettsim.time_conversion import create_time_conversion_functions

    cases = []
    for date in dates:
        _, functions = popgen.env(date)
        data_cols = list(extract.config_tables()["TYPES_INPUT_VARIABLES"])
        cases.append((f"real rules at {date}", functions, data_cols))
        # inputs supplied in another unit
        alt = [c for c in data_cols if c != "bruttolohn_m"] + ["bruttolohn_y"]
        cases.append((f"real rules at {date}, bruttolohn_y supplied", functions, alt))
    for i in range(n_toy):
        names = list({rnd.choice(["a", "b", "c"]) + "_" + rnd.choice(UNITS) + rnd.choice(["", "", "_hh", "_sn"])
                      for _ in range(rnd.randint(1, 6))})
        pool = names + [n[:-1] + "y" for n in names if n[-1] in "mwd"] + ["z", "a_m", "a_y", "b_w_hh"]
        fs = {}
        for n in names:
            deps = rnd.sample(pool, rnd.randint(0, 2))
            deps = [d for d in deps if d != n]
            src = f"def {n}({', '.join(dict.fromkeys(deps))}):\n    return 0.0\n"
            ns = {}
            exec(src, ns)  # noqa: S102
            fs[n] = ns[n]
        data = list({rnd.choice(pool) for _ in range(rnd.randint(0, 3))})
        cases.append((f"toy {i}", fs, data))
    ops = []
    for label, fs, data in cases:
        ops.append({"op": "tc_create",
                    "functions": [[n, list(inspect.signature(f).parameters)] for n, f in fs.items()],
                    "data_cols": data})
    res = corr.model_results(ops)
    bad = []
    for (label, fs, data), (k, m) in zip(cases, res):
        real = describe_real(create_time_conversion_functions(fs, data))
        model = {d[0]: (d[1], float(factor(d[2], d[3]))) for d in m}
        run.case({"factory": label, "names": sorted(model)[:50]})
        run.traces += 1
        ok = set(real) == set(model) and all(
            real[n][0] == model[n][0] and abs(real[n][1] - model[n][1]) <= 1e-12 * abs(model[n][1]) for n in real)
        if not ok:
            diff = sorted(set(real) ^ set(model))[:6] or [
                (n, real[n], model[n]) for n in real if real[n][0] != model[n][0]][:3]
            bad.append({"case": label, "difference": str(diff)})
        # the wiring properties on the real factory output
        for n, (src, val) in real.items():
            if n in data:
                run.hit({"node": n, "kind": "derived-node-shadows-data"},
                        f"a derived time-conversion node {n} was created although the column is in the data ({label})", {})
    run.extra.setdefault("correspondence", {})["create_time_conversion_functions vs TimeConv.create"] = {
        "cases": len(cases), "disagreements": len(bad)}
    if bad:
        run.broke("correspondence", "create_time_conversion_functions vs TimeConv.create", json.dumps(bad[:2], ensure_ascii=False))


def graph_search(run, rnd, dates, n_pops, n_alt=5):
    rx = real_regex()
    for date in dates:
        nodes = popgen.computed_nodes(date)
        _, functions = popgen.env(date)
        timed = []
        for n in nodes + list(extract.config_tables()["TYPES_INPUT_VARIABLES"]):
            m = rx.fullmatch(n)
            if m:
                timed.append((n, m.group("base_name"), m.group("time_unit"), m.group("aggregation") or ""))
        variants = sorted({f"{b}{u}{a}" for _, b, _, a in timed for u in UNITS})
        for k in range(n_pops):
            df, kinds = popgen.population(rnd, date)
            targets = [v for v in variants if v not in df.columns]
            ok, res = run.attempt(f"all four time units of every flow column at {date}", popgen.simulate,
                                  df, date, targets=targets, replay={"date": date, "data": popgen.frame_to_json(df)})
            if not ok:
                break
            cols = {c: res[c].to_numpy() for c in res.columns}
            cols.update({c: df[c].to_numpy() for c in df.columns})
            for n, b, u, a in timed:
                for v in UNITS:
                    if v == u:
                        continue
                    other = f"{b}{v}{a}"
                    if other not in cols or n not in cols:
                        continue
                    run.case({"pair": [n, other], "date": date, "pop": k})
                    exp = cols[n].astype(float) * float(factor(u, v))
                    if not popgen.close(cols[other].astype(float), exp, rel=1e-9):
                        # a rounded rule may exist in both units as separate rules; only derived nodes must agree
                        if other in functions and n in functions:
                            continue
                        run.hit({"node": other, "kind": "time-units-disagree"},
                                f"{other} is not {n} x {factor(u, v)} at {date}",
                                {"date": date, "data": popgen.frame_to_json(df), "node": other,
                                 "expected": exp.tolist()[:50], "observed": cols[other].tolist()[:50]})
            # a group-level flow column supplied as data (with values that differ from the internal sum):
            # its other-unit variants must follow the SUPPLIED column
            okid, ids = run.attempt("group ids", popgen.simulate, df, date,
                                    targets=["wthh_id", "fg_id", "bg_id", "eg_id", "ehe_id", "sn_id"])
            if okid:
                for c in ids.columns:
                    cols[c] = ids[c].to_numpy()
            grp = [(n, b, u, a) for n, b, u, a in timed if a and n in nodes and n in cols and cols[n].dtype.kind == "f"]
            for n, b, u, a in rnd.sample(grp, min(len(grp), 6)):
                lv = a[1:]
                gid = cols.get(f"{lv}_id")
                if gid is None:
                    continue
                per = {}
                supplied = np.asarray([per.setdefault(g, float(x) * 2.0 + 7.0) for g, x in zip(gid, cols[n])])
                # only variants that are DERIVED (not rules of their own) have to follow the supplied column
                pairs = [(v, f"{b}{v}{a}") for v in UNITS if v != u and f"{b}{v}{a}" not in functions]
                if not pairs:
                    continue
                others = [o for _, o in pairs]
                d2 = df.assign(**{n: supplied})
                ok2, res2 = run.attempt(f"{n} supplied as data, other units requested", popgen.simulate, d2, date, targets=others)
                if not ok2:
                    run.broken.pop()
                    continue
                run.case({"supplied": n, "date": date, "pop": k})
                for v, o in pairs:
                    exp = supplied * float(factor(u, v))
                    if not popgen.close(res2[o].to_numpy().astype(float), exp, rel=1e-9):
                        run.hit({"node": o, "kind": "derived-unit-ignores-supplied-column"},
                                f"{o} at {date} is not {n} x {factor(u, v)} when {n} is supplied in the data",
                                {"date": date, "data": popgen.frame_to_json(d2), "node": o,
                                 "expected": exp.tolist()[:30], "observed": res2[o].tolist()[:30]})
            # supplying an input in another time unit gives the same results: (unit of the input, unit supplied) pairs
            # are drawn evenly, then an input of that unit
            flow_inputs = {}
            for c in df.columns:
                m = rx.fullmatch(c)
                if m and df[c].dtype.kind == "f":
                    flow_inputs.setdefault(m.group("time_unit"), []).append((c, m.group("base_name"), m.group("aggregation") or ""))
            pairs = [(u, v) for u in flow_inputs for v in UNITS if v != u]
            ok, r1 = run.attempt("default targets", popgen.simulate, df, date)
            # the first population of a date tries every (unit of the input, unit supplied) pair, the others a sample
            trials = [(u, v, rnd.choice(flow_inputs[u])) for u, v in (pairs if k == 0 else rnd.sample(pairs, min(len(pairs), n_alt)))]
            if k == 0:
                # … and every flow input once (inputs differ in how they are consumed: by rules, by group sums, by
                # person-pointer aggregations)
                trials += [(u, rnd.choice([v for v in UNITS if v != u]), inp) for u in flow_inputs for inp in flow_inputs[u]]
            for u, v, (c, b, a) in (trials if ok else []):
                c2 = f"{b}{v}{a}"
                if c2 in df.columns:
                    continue
                alt = df.drop(columns=[c]).assign(**{c2: df[c] * float(factor(u, v))})
                ok2, r2 = run.attempt(f"default targets with {c2} instead of {c}", popgen.simulate, alt, date)
                if not ok2:
                    continue
                # the reference run gets the values the converter will give back (bit for bit), so that a value that sits
                # exactly on a threshold or a rounding tie is not moved by the float round trip x -> x*k -> (x*k)/k
                from _gettsim import time_conversion as T
                back = getattr(T, f"{v}_to_{u}")(alt[c2].to_numpy())
                if np.array_equal(back, df[c].to_numpy()):
                    ref = r1
                else:
                    ok3, ref = run.attempt(f"default targets with {c} = {v}_to_{u}({c2})", popgen.simulate, df.assign(**{c: back}), date)
                    if not ok3:
                        continue
                run.case({"alt-unit": [c, c2], "date": date, "pop": k})
                for t in ref.columns:
                    if not popgen.close(ref[t].to_numpy(), r2[t].to_numpy(), rel=1e-9):
                        run.hit({"node": t, "kind": "input-in-other-unit-changes-result", "units": f"{v}->{u}"},
                                f"{t} changes when {c} is supplied as {c2} (= {c} x {factor(u, v)}) at {date}",
                                {"date": date, "data": popgen.frame_to_json(alt), "node": t, "instead_of": c, "supplied": c2})
                        break


def run(tier: str) -> int:
    r = common.Run("C13", tier)
    quick = tier == "quick"
    r.rule = ("parser: every rule/argument/input/aggregation name of the tree + random names vs re.fullmatch; "
              "factory: real rule universe at sampled dates (+ input in another unit) and random toy sets; "
              "search: every flow column requested in all four units on random valid populations, ratios vs the "
              "documented factors (1e-9 relative), group-level variants included")
    emit_lean.regenerate()
    common.build_and_audit(r, ["C13", "C13Sim", "SimSpecs", "C13Inst"], leanchecker=not quick)
    rnd = common.rng("C13")
    parser_correspondence(r, rnd, 300 if quick else 5000)
    converter_correspondence(r)
    factory_correspondence(r, rnd, popgen.DATES_QUICK if quick else popgen.DATES_2015[::3], 40 if quick else 600)
    graph_search(r, rnd, popgen.DATES_QUICK if quick else popgen.DATES_2015, 2 if quick else 10, n_alt=5 if quick else 12)
    r.sample({"name": "eink_st_y_sn", "parsed": ["eink_st_", "y", "_sn"], "derived": "eink_st_m_sn = eink_st_y_sn / 12"})
    return r.finish()


def replay(path: str) -> int:
    d = json.load(open(path))
    print(json.dumps({k: v for k, v in d.items() if k != "data"}, ensure_ascii=False)[:1500])
    return 1
