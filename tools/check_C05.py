"""C05 — supplying a computed column as data is equivalent to computing it."""

from __future__ import annotations

import json
import warnings

import numpy as np

import common
import meta
import popgen
import t3
import t4


def simulate_w(df, date, targets):
    from gettsim import compute_taxes_and_transfers
    params, functions = popgen.env(date)
    with warnings.catch_warnings(record=True) as w:
        warnings.simplefilter("always")
        res = compute_taxes_and_transfers(data=df, params=params, functions=functions, targets=targets)
    return res, [x for x in w]


def run(tier: str) -> int:
    from _gettsim.interface import FunctionsAndColumnsOverlapWarning

    r = common.Run("C05", tier)
    quick = tier == "quick"
    r.rule = ("per population and node n of the default graph (quick: 40 sampled, thorough: all): second run with the "
              "column n := simulate(data)[n] added; all default targets and 12 random other nodes compared (2^-40, float "
              "re-association through a supplied time unit ≤ 1e-9); overlap warning present iff a data column names a "
              "function; a supplied column with *different* values must be used (consumers change or n itself is returned). "
              "distinct = (population, node).")
    common.build_and_audit(r, ["C05", "C05Sim", "C05Rule", "T3"], leanchecker=not quick)
    rnd = common.rng("C05")
    t3.run_t3(r, 1000 * common.seed() + 5, 40 if quick else 600)
    t4.run_t4_quick(r, common.rng("C05-T4"), quick)
    from _gettsim.config import DEFAULT_TARGETS
    for date in (popgen.DATES_QUICK if quick else popgen.DATES_2015[::2]):
        nodes = popgen.computed_nodes(date)
        for k in range(1 if quick else 3):
            df, kinds = popgen.population(rnd, date)
            ok, full = r.attempt(f"simulate(all nodes) at {date}", popgen.simulate, df, date, targets=nodes,
                                 replay={"date": date, "data": popgen.frame_to_json(df)})
            if not ok:
                continue
            sel = rnd.sample(nodes, 40) if quick else nodes
            for n in sel:
                d2 = df.assign(**{n: full[n].to_numpy()})
                others = [t for t in rnd.sample(nodes, 12) if t != n]
                T = sorted(set(DEFAULT_TARGETS + others) - {n}) + [n]
                r.case({"date": date, "pop": k, "node": n})
                try:
                    res, ws = simulate_w(d2, date, T)
                except Exception as e:  # noqa: BLE001
                    # is it the requested-and-supplied corner, or the override itself?
                    try:
                        res, ws = simulate_w(d2, date, [t for t in T if t != n])
                        r.hit({"node": "requested-and-supplied", "kind": "supplied-target-raises"},
                              f"supplying {n} as data AND requesting it at {date} raises {type(e).__name__}: {str(e)[:160]}",
                              {"date": date, "data": popgen.frame_to_json(df), "node": n, "targets": T})
                        T = [t for t in T if t != n]
                    except Exception as e2:  # noqa: BLE001
                        r.hit({"node": n, "kind": "override-raises"},
                              f"supplying the computed column {n} at {date} makes the simulation raise {type(e2).__name__}: {str(e2)[:200]}",
                              {"date": date, "data": popgen.frame_to_json(df), "node": n})
                        continue
                warned = any(issubclass(w.category, FunctionsAndColumnsOverlapWarning) for w in ws)
                if not warned:
                    r.hit({"node": n, "kind": "override-not-announced"},
                          f"supplying {n} (a computed column) at {date} raises no FunctionsAndColumnsOverlapWarning",
                          {"date": date, "node": n})
                for t in T:
                    a, b = res[t].to_numpy(), full[t].to_numpy()
                    if meta.is_id(t):
                        same = popgen.same_partition(a.tolist(), b.tolist())
                    else:
                        same = popgen.close(a, b, rel=1e-9)
                    if not same:
                        r.hit({"node": n, "kind": "override-changes-results", "target": t},
                              f"supplying {n} with its own computed values changes {t} at {date}",
                              {"date": date, "data": popgen.frame_to_json(df), "node": n, "target": t,
                               "observed": a.tolist()[:30], "expected": b.tolist()[:30]})
            # the same through a dict of Series whose index is not 0..n-1 (rows sorted / filtered without
            # reset_index), the fed-back column carrying the RangeIndex of an earlier result: everything
            # gettsim does is positional, so nothing may change
            import pandas as pd
            lab = rnd.sample(range(100, 100 + len(df)), len(df))
            for n in rnd.sample(sel, min(6, len(sel))):
                dd = {c: pd.Series(df[c].to_numpy(), index=lab, name=c) for c in df.columns}
                dd[n] = pd.Series(full[n].to_numpy(), name=n)          # default RangeIndex, as returned by gettsim
                T = [t for t in DEFAULT_TARGETS if t != n]
                r.case({"date": date, "pop": k, "node": n, "input": "dict of Series, other index"})
                try:
                    res, ws = simulate_w(dd, date, T)
                except Exception as e:  # noqa: BLE001
                    msg = " ".join(str(e).split())
                    import re as _re
                    mcol = _re.search(r"Column '([^']+)' has not one unique value per", msg)
                    col = mcol.group(1) if mcol else None
                    # the clean tree rejects exactly these: the supplied column itself is group-level, or it is the
                    # group id by which another supplied column is checked
                    label_aligned = col is not None and (col == n or (n.endswith("_id") and col.endswith("_" + n[:-3])))
                    r.hit({"node": "<group-level or id column>" if label_aligned else n, "kind": "override-raises", "input": "dict",
                           **({"cause": "group-constancy check aligns by index label"} if label_aligned else {})},
                          f"supplying {n} in a dict of Series with a non-default index raises {type(e).__name__}: {str(e)[:160]}",
                          {"date": date, "data": popgen.frame_to_json(df), "node": n, "index": lab})
                    continue
                for t in T:
                    a, b = res[t].to_numpy(), full[t].to_numpy()
                    same = popgen.same_partition(a.tolist(), b.tolist()) if meta.is_id(t) else popgen.close(a, b, rel=1e-9)
                    if len(a) != len(b) or not same:
                        r.hit({"node": n, "kind": "override-changes-results", "target": t, "input": "dict"},
                              f"supplying {n} with its own computed values in a dict of Series (index labels {lab[:4]}…) changes {t} at {date}",
                              {"date": date, "data": popgen.frame_to_json(df), "node": n, "target": t, "index": lab})
                        break
            # no overlap -> no overlap warning (a minimal table: only the root columns of the graph)
            dag, fno = popgen.graph(date)
            all_fn = set(_all_function_names(date, list(df.columns)))
            minimal = df[[c for c in df.columns if c not in all_fn]]
            try:
                res, ws = simulate_w(minimal, date, DEFAULT_TARGETS)
                r.case({"date": date, "pop": k, "node": None})
                if any(issubclass(w.category, FunctionsAndColumnsOverlapWarning) for w in ws):
                    r.hit({"node": "none", "kind": "spurious-overlap-warning"},
                          f"overlap warning at {date} although no data column names a function", {"date": date})
            except Exception:  # noqa: BLE001  (the reduced table may lack a needed source column)
                pass
            # a supplied column with different values is used, not recomputed
            for n in rnd.sample([x for x in nodes if full[x].dtype.kind == "f"], 6 if quick else 40):
                alt = full[n].to_numpy() + 1234.5
                d2 = df.assign(**{n: alt})
                import networkx as nx
                dag_, _ = popgen.graph(date)
                below = nx.descendants(dag_, n) if n in dag_ else set()
                # consumers none of whose OTHER parents depend on n (so that holding them fixed is right)
                consumers = [m for m in nodes if n in _args(date, m)
                             and not any(a != n and a in below for a in _args(date, m))]
                if not consumers:
                    continue
                m = rnd.choice(consumers)
                try:
                    res, _ = simulate_w(d2, date, [m])
                    d3 = df.assign(**{n: alt})
                    # reference: the consumer evaluated on the supplied column by overriding all its parents
                    parents = {a: (alt if a == n else full[a].to_numpy() if a in full else df[a].to_numpy())
                               for a in _args(date, m) if not a.endswith("_params")}
                    ref, _ = simulate_w(df.assign(**parents), date, [m])
                except Exception:  # noqa: BLE001
                    continue
                r.case({"date": date, "pop": k, "used": [n, m]})
                if not popgen.close(res[m].to_numpy(), ref[m].to_numpy(), rel=1e-9):
                    r.hit({"node": n, "kind": "supplied-column-not-used", "consumer": m},
                          f"{m} at {date} does not use the supplied column {n}",
                          {"date": date, "data": popgen.frame_to_json(df), "node": n, "consumer": m})
            r.sample({"date": date, "kinds": kinds, "nodes": len(sel)}, limit=3)
    return r.finish()


def _all_function_names(date, data_cols):
    from _gettsim.functions_loader import load_and_check_functions
    from _gettsim.config import DEFAULT_TARGETS
    _, functions = popgen.env(date)
    with warnings.catch_warnings():
        warnings.simplefilter("ignore")
        fno, fo = load_and_check_functions(functions, DEFAULT_TARGETS, data_cols, {}, {})
    return list(fno) + list(fo)


def _args(date, node):
    import inspect
    dag, fno = popgen.graph(date)
    f = fno.get(node)
    return list(inspect.signature(f).parameters) if f is not None else []


def replay(path: str) -> int:
    d = json.load(open(path))
    print(json.dumps({k: v for k, v in d.items() if k != "data"}, ensure_ascii=False)[:1500])
    return 1
