"""C01 — results do not depend on the order of rows in the input data (nor on index labels)."""

from __future__ import annotations

import json

import numpy as np
import pandas as pd

import common
import meta
import popgen
import t3
import t4


def orders(rnd, df):
    n = len(df)
    out = [("reversed", list(range(n))[::-1])]
    # every row in turn first (dtype inference from the first row), at most 8 of them
    firsts = list(range(n)) if n <= 8 else rnd.sample(range(n), 8)
    for i in firsts:
        out.append((f"row {i} first", [i] + [j for j in range(n) if j != i]))
    # children before parents / second partner first
    kids = sorted(range(n), key=lambda i: df["alter"].iloc[i])
    out.append(("youngest first", kids))
    out.append(("random", rnd.sample(range(n), n)))
    return out


def compare(run, df, date, base, label, perm, index=None, rnd=None):
    d2 = df.iloc[perm].reset_index(drop=True)
    data = d2
    if index is not None:
        d2.index = index
    if rnd is not None:  # a random equivalent presentation of the permuted table
        label, data = popgen.represent(d2, rnd)
    ok, res2 = run.attempt(f"simulate permuted population at {date} ({label})", popgen.simulate_all, data, date,
                           replay={"date": date, "data": popgen.frame_to_json(d2), "presentation": label})
    if not ok:
        return
    for c in d2.columns:  # the input columns are compared in their internal dtypes, not as presented
        res2[c] = d2[c].to_numpy()
    r2 = meta.by_pid(res2.reset_index(drop=True), d2.reset_index(drop=True))
    bad = meta.diff_columns(base, r2, check_dtype=True)
    run.case({"date": date, "perm": perm, "n": len(df), "label": label, "pop": common.digest(popgen.frame_to_json(df))})
    # positional contract: output row i belongs to input row i
    if not np.array_equal(res2["p_id"].to_numpy(), d2["p_id"].to_numpy()):
        bad.append(("p_id", "output rows are not in input order"))
    if index is not None and list(res2.index) != list(d2.index) and list(res2.index) != list(range(len(d2))):
        pass  # index labels of the result are not part of the statement
    for col, why in bad:
        def still(cand, col=col):
            b = meta.by_pid(popgen.simulate_all(cand, date), cand)
            p = list(range(len(cand)))[::-1]
            c2 = cand.iloc[p].reset_index(drop=True)
            return bool(meta.diff_columns(b, meta.by_pid(popgen.simulate_all(c2, date), c2), check_dtype=True, cols=[col]))
        run.hit({"node": col, "kind": "row-order-dependence"},
                f"{col} at {date} changes when the rows are permuted ({label}): {why}",
                {"date": date, "data": popgen.frame_to_json(df), "permutation": perm, "node": col, "detail": why})


def run(tier: str) -> int:
    r = common.Run("C01", tier)
    quick = tier == "quick"
    r.rule = ("random valid populations (1–5 clusters of all structure kinds, sparse shuffled ids, incomes at statutory "
              "thresholds ± 1 cent) × adversarial row orders (reversed, every row first, youngest first, random) × index "
              "labellings (strings, duplicates, shuffled ints) and random equivalent presentations (int columns as whole floats, "
              "bool columns as 0/1, any index, DataFrame or dict of Series); ALL nodes of the default graph compared by p_id: values with "
              "2^-40 relative tolerance, dtypes exactly, id columns as partitions. distinct = (population, permutation).")
    common.build_and_audit(r, ["C01", "C01Sim", "C01E2E", "C01Ids", "C12Cor"], leanchecker=not quick)
    rnd = common.rng("C01")
    t3.run_t3(r, 1000 * common.seed() + 1, 40 if quick else 600)
    t4.run_t4_quick(r, common.rng("C01-T4"), quick)
    dates = popgen.DATES_QUICK if quick else popgen.DATES_2015
    for date in dates:
        for k in range(5 if quick else 25):
            df, kinds = popgen.population(rnd, date)
            ok, res = r.attempt(f"simulate at {date}", popgen.simulate_all, df, date,
                                replay={"date": date, "data": popgen.frame_to_json(df)})
            if not ok:
                continue
            base = meta.by_pid(res, df)
            os_ = orders(rnd, df)
            if quick:
                os_ = os_[:1] + rnd.sample(os_[1:], min(4, len(os_) - 1))
            for label, perm in os_:
                compare(r, df, date, base, label, perm)
            n = len(df)
            compare(r, df, date, base, "string index labels", list(range(n)), index=[f"r{i}" for i in range(n)])
            compare(r, df, date, base, "duplicate index labels", rnd.sample(range(n), n), index=[0] * n)
            compare(r, df, date, base, "shuffled int index", rnd.sample(range(n), n), index=rnd.sample(range(100, 100 + n), n))
            for _ in range(2 if quick else 4):
                compare(r, df, date, base, "presentation", rnd.sample(range(n), n), rnd=rnd)
            r.sample({"date": date, "kinds": kinds, "rows": n, "orders": [o[0] for o in os_]}, limit=3)
    return r.finish()


def replay(path: str) -> int:
    d = json.load(open(path))
    df = popgen.frame_from_json(d["data"])
    base = meta.by_pid(popgen.simulate_all(df, d["date"]), df)
    d2 = df.iloc[d["permutation"]].reset_index(drop=True)
    r2 = meta.by_pid(popgen.simulate_all(d2, d["date"]), d2)
    bad = meta.diff_columns(base, r2, check_dtype=True, cols=[d["node"]])
    print("replay:", "still fails: " + str(bad) if bad else "holds now")
    return 1 if bad else 0
