"""C08 — every supported date (>= 2015-01-01) yields a complete, computable system."""

from __future__ import annotations

import ast
import datetime
import inspect
import json

import networkx as nx
import numpy as np

import check_C07
import common
import emit_lean
import extract
import paramsio
import popgen
import t1

D = datetime.date
START = D(2015, 1, 1)


# ---------------------------------------------------------------------------------
# static parameter paths of a rule (through helper calls)
# ---------------------------------------------------------------------------------


def rule_paths(entry, reg_by_name, depth=0, binding=None):
    """{(group, (key, …))} of constant-key subscript chains on `<group>_params` (or on a helper's
    parameter bound to such a dictionary).  Reads guarded by `if "key" in <params>` (or reached
    through `.get`) are optional and not collected."""
    node = extract.source_of(entry)
    binding = dict(binding or {})
    for a in entry["args"]:
        if a.endswith("_params"):
            binding.setdefault(a, a[:-7])
    out = set()

    def guard_of(test):
        gs = set()
        for t in ast.walk(test):
            if isinstance(t, ast.Compare) and len(t.ops) == 1 and isinstance(t.ops[0], ast.In) \
                    and isinstance(t.left, ast.Constant) and isinstance(t.comparators[0], ast.Name) \
                    and t.comparators[0].id in binding:
                gs.add((binding[t.comparators[0].id], t.left.value))
        return gs

    def visit(n, guards):
        if isinstance(n, ast.If):
            visit(n.test, guards)
            g2 = guards | guard_of(n.test)
            for s in n.body:
                visit(s, g2)
            for s in n.orelse:
                visit(s, guards)
            return
        if isinstance(n, ast.Subscript):
            keys, cur = [], n
            while isinstance(cur, ast.Subscript):
                if isinstance(cur.slice, ast.Constant):
                    keys.append(cur.slice.value)
                else:
                    keys = []  # dynamic key: only the static prefix below it counts
                    visit(cur.slice, guards)
                cur = cur.value
            if isinstance(cur, ast.Name) and cur.id in binding and keys:
                ks = tuple(reversed(keys))
                if (binding[cur.id], ks[0]) not in guards:
                    out.add((binding[cur.id], ks))
                return
        if isinstance(n, ast.Call) and isinstance(n.func, ast.Name) and n.func.id in reg_by_name and depth < 3:
            callee = reg_by_name[n.func.id]
            b2 = {}
            for i, a in enumerate(n.args):
                if isinstance(a, ast.Name) and a.id in binding and i < len(callee["args"]):
                    b2[callee["args"][i]] = binding[a.id]
            for kw in n.keywords:
                if isinstance(kw.value, ast.Name) and kw.value.id in binding:
                    b2[kw.arg] = binding[kw.value.id]
            if b2:
                out.update(rule_paths(callee, reg_by_name, depth + 1, b2))
        for c in ast.iter_child_nodes(n):
            visit(c, guards)

    for s in node.body:
        visit(s, frozenset())
    return out


def has_path(env_group, keys):
    cur = env_group
    for k in keys:
        if isinstance(cur, dict):
            if k in cur:
                cur = cur[k]
            else:
                return False
        elif isinstance(cur, (list, tuple)):
            if isinstance(k, int) and -len(cur) <= k < len(cur):
                cur = cur[k]
            else:
                return False
        else:
            return False
    return True


def is_stub(entry) -> bool:
    node = extract.source_of(entry)
    for s in node.body:
        if isinstance(s, ast.Raise):
            return True
    return False


# ---------------------------------------------------------------------------------
# corner populations
# ---------------------------------------------------------------------------------


def corner_population(rnd, date):
    kinds = [rnd.choice(popgen.STRUCTURES) for _ in range(rnd.randint(1, 3))]
    if rnd.random() < 0.3:
        kinds.append("big_family")
    df, _ = popgen.population(rnd, date, kinds=kinds)
    df = df.copy()
    r = rnd.random()
    n = len(df)
    if r < 0.25:
        df["bruttolohn_m"] = 0.0
        df["eink_selbst_m"] = 0.0
    elif r < 0.45:
        df["bruttolohn_m"] = [rnd.choice([1e5, 1e6, 1e7]) if a >= 18 else 0.0 for a in df["alter"]]
        df["vermögen_bedürft"] = rnd.choice([1e6, 1e8])
    if rnd.random() < 0.3:
        df["geburtsjahr"] = [rnd.randint(1915, int(date[:4])) for _ in range(n)]
        df["alter"] = int(date[:4]) - df["geburtsjahr"]
        df["jahr_renteneintr"] = df["geburtsjahr"] + 65
        # keep parents at least 14 years older than their children and partners adult
        ok = True
        by = dict(zip(df["p_id"], df["alter"]))
        for _, row in df.iterrows():
            for c in ("p_id_elternteil_1", "p_id_elternteil_2"):
                if row[c] >= 0 and by[row[c]] < row["alter"] + 14:
                    ok = False
            if row["p_id_einstandspartner"] >= 0 and row["alter"] < 16:
                ok = False
        if not ok:
            df, _ = popgen.population(rnd, date, kinds=kinds)
    if rnd.random() < 0.3:
        df["rentner"] = df["alter"] >= 60
        df["selbstständig"] = [rnd.random() < 0.5 and a >= 18 for a in df["alter"]]
        df["in_priv_krankenv"] = [rnd.random() < 0.5 and a >= 18 for a in df["alter"]]
    return df, kinds


def run(tier: str) -> int:
    r = common.Run("C08", tier)
    quick = tier == "quick"
    r.rule = ("per class of calendar days >= 2015-01-01 (classes as in C07; quick: a sample plus the first class of every year): "
              "the real dependency graph of the default targets with the documented inputs as data — acyclicity certificate and "
              "root check decided by the Lean kernel on the regenerated graph tables; every static parameter path of every "
              "reachable rule (through helper calls) and every rounding spec looked up in the Lean environment model, and in the real "
              "environment on leap days / year ends / last days of classes; stubs; "
              "search: corner populations (zero / huge incomes, birth years 1915…, pensioners, self-employed, big families, every "
              "mietstufe of the date) on the real system, any exception is a hit. distinct = (class, obligation) / populations.")
    emit_lean.regenerate()
    common.build_and_audit(r, ["C08", "C08Sim", "C08Inst"], leanchecker=not quick)
    rnd = common.rng("C08")
    entries = extract.all_entry_dates()
    w1 = D.fromordinal(max(entries))
    cs, _ = check_C07.cells(START, w1)
    r.extra["classes_from_2015"] = len(cs)
    reps = [c[0] for c in cs]
    if quick:
        first_of_year = {}
        for d in reps:
            first_of_year.setdefault(d.year, d)
        reps = sorted(set(first_of_year.values()) | set(rnd.sample(reps, min(25, len(reps)))))
    # the first day of every distinct default-target graph (the tables the kernel-decided obligation
    # `all_graphs_ok` ranges over): a graph that is not acceptable is then looked at on the real system, too
    import emit_more
    graph_days = []
    for key, g in emit_more.default_graphs().items():
        if key[0] == "error":
            for date in g:
                r.hit({"kind": "graph-cannot-be-built", "exc": key[1].split(":")[0]},
                      f"the dependency graph of the default targets cannot be built at {date}: {key[1]}", {"date": date})
        else:
            graph_days.append(D.fromisoformat(g["dates"][0]))
    r.extra["distinct_default_graphs"] = len(graph_days)
    reps = sorted(set(reps) | set(graph_days))
    ords = [d.toordinal() for d in reps]
    envs = dict(zip(ords, paramsio.model_envs(ords)))
    reg = extract.registry()
    reg_by_name = {e["fname"]: e for e in reg}
    checked_paths = 0
    for d in reps:
        o = d.toordinal()
        date = d.isoformat()
        kind, env = envs[o]
        if kind != "ok":
            r.oblige(f"environment model at {date}", False, str(env))
            r.broke("theorem", f"environment at {date}", str(env))
            continue
        ok, res = r.attempt(f"graph of the default targets at {date}", popgen.graph, date)
        if not ok:
            r.hit({"kind": "graph-cannot-be-built", "exc": type(res).__name__},
                  f"the dependency graph of the default targets cannot be built at {date}: {type(res).__name__}: {str(res)[:300]}",
                  {"date": date})
            continue
        dag, fno = res
        _, functions = popgen.env(date)
        active = {}
        for e in reg:
            if (not e["td"]) or e["start"] <= o <= e["stop"]:
                active[e["dag"] if e["td"] else e["fname"]] = e
        # roots
        from _gettsim.config import TYPES_INPUT_VARIABLES
        for n in dag.nodes:
            if dag.in_degree(n) == 0 and n not in TYPES_INPUT_VARIABLES and not n.endswith("_params"):
                f = fno.get(n)
                param_only = f is not None and all(a.endswith("_params") for a in inspect.signature(f).parameters)
                r.case({"root": n, "date": date})
                if not param_only:
                    r.hit({"kind": "undocumented-root", "node": n},
                          f"{n} is a leaf of the default graph at {date} but not a documented input variable", {"date": date, "node": n})
        cyc = not nx.is_directed_acyclic_graph(dag)
        r.oblige(f"graph acyclic ({date})", not cyc)
        if cyc:
            r.hit({"kind": "cycle"}, f"the default graph at {date} has a cycle", {"date": date})
        for n in dag.nodes:
            e = active.get(n)
            if e is None or n not in functions:
                continue
            r.case({"rule": n, "date": date}, nontrivial=False)
            if is_stub(e):
                r.hit({"kind": "stub-reachable", "rule": e["fname"]},
                      f"{e['fname']} (a NotImplementedError stub) is reachable from the default targets at {date}", {"date": date})
            for g, keys in rule_paths(e, reg_by_name):
                checked_paths += 1
                okp = g in env and has_path(env[g], keys)
                name = f"{e['fname']} reads {g}{list(keys)} ({date})"
                if not okp:
                    r.oblige(name, False, "path absent in the environment of that day")
                    # directed search: can the real rule be driven into the missing key?
                    witness = _keyerror_witness(rnd, e, date, keys)
                    if witness is not None:
                        r.hit({"kind": "missing-parameter", "rule": e["fname"], "path": f"{g}{list(keys)}"},
                              f"{e['fname']} raises KeyError at {date}: it reads {g}{list(keys)}, which does not exist that day",
                              {"date": date, "rule": e["fname"], "args": witness})
                    else:
                        r.broke("theorem", name, "parameter path absent at that date")
            if e["rounding_key"]:
                spec = env.get(e["rounding_key"], {}).get("rounding", {}).get(n)
                good = isinstance(spec, dict) and "base" in spec and "direction" in spec
                r.oblige(f"rounding spec for {n} ({date})", good)
                if not good:
                    r.hit({"kind": "rounding-spec-missing", "rule": n},
                          f"{n} carries the rounding key {e['rounding_key']} but has no complete spec at {date}", {"date": date})
    r.oblige("parameter paths of reachable rules exist", True, f"{checked_paths} (rule, path, class) look-ups")
    r.extra["parameter_path_lookups"] = checked_paths
    # the same look-ups in the REAL environment on days a loader is most likely to treat specially inside a class
    # (leap days, last day of a year, last day of a class)
    leap = [D(y, 2, 29) for y in range(START.year, w1.year + 1) if y % 4 == 0 and (y % 100 != 0 or y % 400 == 0) and D(y, 2, 29) <= w1]
    ends = [D(y, 12, 31) for y in range(START.year, w1.year) if D(y, 12, 31) <= w1]
    lasts = [c[-1] for c in cs if len(c) > 1]
    special = sorted(set(leap + (rnd.sample(ends, min(2, len(ends))) if quick else ends)
                         + (rnd.sample(lasts, min(2, len(lasts))) if quick else lasts)))
    real_lookups = 0
    for d in special:
        o, date = d.toordinal(), d.isoformat()
        ok, res = r.attempt(f"environment and graph at {date}", lambda date=date: (popgen.env(date), popgen.graph(date)))
        if not ok:
            continue
        (params, functions), (dag, fno) = res
        active = {}
        for e in reg:
            if (not e["td"]) or e["start"] <= o <= e["stop"]:
                active[e["dag"] if e["td"] else e["fname"]] = e
        for n in dag.nodes:
            e = active.get(n)
            if e is None or n not in functions:
                continue
            for g, keys in rule_paths(e, reg_by_name):
                real_lookups += 1
                r.case({"rule": n, "date": date, "path": [g, *map(str, keys)]}, nontrivial=False)
                cur, okp = params.get(g), g in params
                for k in keys:
                    if okp and isinstance(cur, dict) and k in cur:
                        cur = cur[k]
                    elif okp and isinstance(cur, (list, tuple, np.ndarray)) and isinstance(k, int) and -len(cur) <= k < len(cur):
                        cur = cur[k]
                    else:
                        okp = False
                if not okp:
                    witness = _keyerror_witness(rnd, e, date, keys)
                    if witness is not None:
                        r.hit({"kind": "missing-parameter", "rule": e["fname"], "path": f"{g}{list(keys)}"},
                              f"{e['fname']} raises KeyError at {date}: it reads {g}{list(keys)}, which does not exist that day",
                              {"date": date, "rule": e["fname"], "args": witness})
                    else:
                        r.broke("search", f"{e['fname']} reads {g}{list(keys)} ({date})",
                                "parameter path absent in the real environment of that day")
    r.extra["real_environment_lookups_on_special_days"] = {"days": [d.isoformat() for d in special], "lookups": real_lookups}
    # search on the real system
    sdates = [d.isoformat() for d in (rnd.sample(reps, 6) if quick else reps[:: max(1, len(reps) // 60)])]
    sdates += [d.isoformat() for d in (rnd.sample(special, min(2, len(special))) if quick else special)]
    for date in sdates:
        for k in range(6 if quick else 25):
            df, kinds = corner_population(rnd, date)
            r.case({"date": date, "pop": common.digest(popgen.frame_to_json(df))})
            try:
                popgen.simulate(df, date)
            except Exception as ex:  # noqa: BLE001
                r.hit({"kind": "simulation-fails-on-valid-population", "exc": type(ex).__name__, "msg": str(ex)[:60]},
                      f"the default targets cannot be computed at {date} for a valid population ({kinds}): "
                      f"{type(ex).__name__}: {str(ex)[:200]}", {"date": date, "data": popgen.frame_to_json(df)})
    r.sample({"class_representative": reps[0].isoformat(), "obligations": "acyclic, roots documented, paths exist, rounding specs, no stubs"})
    return r.finish()


def _keyerror_witness(rnd, entry, date, keys=()):
    params, _ = popgen.env(date)
    try:
        free, rows = t1.sample_rows(rnd, entry, params, 60)
    except Exception:  # noqa: BLE001
        return None
    import check_C09
    f = check_C09.real_function(entry)
    fixed = {a: params.get(a[:-7], {}) for a in entry["args"] if a.endswith("_params")}
    for row in rows:
        kw = {}
        for a, v in zip(free, row):
            t = entry["arg_types"].get(a)
            kw[a] = bool(v) if t == "bool" else int(v) if t == "int" else float(v)
        try:
            f(**kw, **fixed)
        except KeyError as ex:
            if not keys or (ex.args and ex.args[0] in keys):
                return {k: repr(v) for k, v in kw.items()}
        except Exception:  # noqa: BLE001
            continue
    return None


def replay(path: str) -> int:
    d = json.load(open(path))
    print(json.dumps({k: v for k, v in d.items() if k != "data"}, ensure_ascii=False)[:1500])
    if "data" in d:
        try:
            popgen.simulate(popgen.frame_from_json(d["data"]), d["date"])
            print("replay: the simulation succeeds now")
            return 0
        except Exception as e:  # noqa: BLE001
            print("replay: still fails:", type(e).__name__)
    return 1
