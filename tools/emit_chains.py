"""Translator, part 4: a few contribution chains as Lean terms, so that the *kernel* decides the
shape checks of the verified symbolic evaluator on them (Props/C19Inst.lean).  All other
(date, configuration) instances are evaluated by the Lean interpreter through the driver."""

from __future__ import annotations

from fractions import Fraction

import chains
import ruleir
from emit_lean import HEADER, lrat, lstr

KERNEL_INSTANCES = [
    ("2015-01-01", {"wohnort_ost": False, "ges_pflegev_hat_kinder": True}),
    ("2023-07-01", {"wohnort_ost": True, "ges_pflegev_hat_kinder": False}),
    ("2024-01-01", {"wohnort_ost": False, "ges_pflegev_hat_kinder": True, "ges_pflegev_anz_kinder_bis_24": 3}),
]


def key_term(k):
    if "ks" in k:
        return f"(.s {lstr(k['ks'])})"
    if "ki" in k:
        return f"(.i ({k['ki']}))"
    return f"(.d ({k['kd']}))"


def y_term(y):
    if "q" in y:
        return f"(.num {lrat(Fraction(y['q']))})"
    if "inf" in y:
        return "Y.pinf" if y["inf"] > 0 else "Y.ninf"
    if "s" in y:
        return f"(.str {lstr(y['s'])})"
    if "b" in y:
        return f"(.bool {'true' if y['b'] else 'false'})"
    if "null" in y:
        return "Y.null"
    if "date" in y:
        return f"(.date ({y['date']}))"
    if "l" in y:
        return "(.list [" + ", ".join(y_term(x) for x in y["l"]) + "])"
    if "d" in y:
        return "(.dict [" + ", ".join(f"({key_term(k)}, {y_term(v)})" for k, v in y["d"]) + "])"
    raise ValueError(y)


def val_term(v):
    t = v["t"]
    if t == "int":
        return f"(.int ({v['v']}))"
    if t == "flt":
        return f"(.flt {lrat(Fraction(v['v']))})"
    if t == "bool":
        return f"(.bool {'true' if v['v'] else 'false'})"
    if t == "inf":
        return f"(.inf {'true' if v['neg'] else 'false'})"
    if t == "str":
        return f"(.str {lstr(v['v'])})"
    if t == "none":
        return "Val.none"
    if t == "tree":
        return f"(.tree {y_term(v['v'])})"
    raise ValueError(t)


def expr_term(e):
    k = e["k"]
    if k == "const":
        return f"(.const {val_term(e)})"
    if k == "name":
        return f"(.name {lstr(e['n'])})"
    if k == "bin":
        return f"(.bin .{e['op']} {expr_term(e['a'])} {expr_term(e['b'])})"
    if k == "neg":
        return f"(.neg {expr_term(e['a'])})"
    if k == "cmp":
        return f"(.cmp {expr_term(e['first'])} [" + ", ".join(f"(.{op}, {expr_term(x)})" for op, x in e["rest"]) + "])"
    if k == "boolop":
        return f"(.boolop {'true' if e['and'] else 'false'} [" + ", ".join(expr_term(x) for x in e["args"]) + "])"
    if k == "not":
        return f"(.not {expr_term(e['a'])})"
    if k == "ifexp":
        return f"(.ifexp {expr_term(e['c'])} {expr_term(e['a'])} {expr_term(e['b'])})"
    if k in ("call", "mcall"):
        return f"(.{k} {lstr(e['f'])} [" + ", ".join(expr_term(x) for x in e["args"]) + "])"
    if k == "sub":
        return f"(.sub {expr_term(e['e'])} {expr_term(e['idx'])})"
    if k == "in":
        return f"(.isIn {expr_term(e['e'])} [" + ", ".join(expr_term(x) for x in e["items"]) + f"] {'true' if e['neg'] else 'false'})"
    return f"(.opaque {lstr(e.get('w', '?'))})"


def stmt_term(s):
    k = s["k"]
    if k == "assign":
        return f"(.assign {lstr(s['x'])} {expr_term(s['e'])})"
    if k == "aug":
        return f"(.aug {lstr(s['x'])} .{s['op']} {expr_term(s['e'])})"
    if k == "ret":
        return f"(.ret {expr_term(s['e'])})"
    if k == "if":
        return "(.ite " + expr_term(s["c"]) + " [" + ", ".join(stmt_term(x) for x in s["body"]) + "] [" + \
            ", ".join(stmt_term(x) for x in s["orelse"]) + "])"
    if k == "expr":
        return f"(.expr {expr_term(s['e'])})"
    return f"(.other {lstr(s.get('w', '?'))})"


def prune_tree(y, used_first_keys):
    if "d" in y:
        return {"d": [[k, v] for k, v in y["d"] if k.get("ks") in used_first_keys]}
    return y


def used_param_keys(chain):
    used = {}

    def walk(t):
        if isinstance(t, dict):
            if t.get("k") == "sub":
                keys, cur = [], t
                while isinstance(cur, dict) and cur.get("k") == "sub":
                    keys.append(cur["idx"])
                    cur = cur["e"]
                if isinstance(cur, dict) and cur.get("k") == "name" and keys:
                    first = keys[-1]
                    if first.get("k") == "const" and first.get("t") == "str":
                        used.setdefault(cur["n"], set()).add(first["v"])
            for v in t.values():
                walk(v)
        elif isinstance(t, list):
            for v in t:
                walk(v)

    for n in chain["nodes"]:
        rename = dict(zip(n["fn"]["args"], n["argNames"]))
        sub = {}
        walk(n["fn"]["body"])
        for formal, ks in list(used.items()):
            if formal in rename:
                sub.setdefault(rename[formal], set()).update(ks)
        used = {**{k: v for k, v in used.items() if k not in rename}, **{k: used.get(k, set()) | v for k, v in sub.items()}}
    return used


def chain_term(chain):
    used = used_param_keys(chain)
    consts = []
    for n, v in chain["consts"]:
        if v["t"] == "tree":
            v = {"t": "tree", "v": prune_tree(v["v"], used.get(n, set()))}
        consts.append(f"({lstr(n)}, {val_term(v)})")
    nodes = []
    for n in chain["nodes"]:
        fn = n["fn"]
        nodes.append("{ name := %s, fn := { name := %s, args := [%s], body := [%s] }, argNames := [%s] }" % (
            lstr(n["name"]), lstr(fn["name"]), ", ".join(lstr(a) for a in fn["args"]),
            ", ".join(stmt_term(s) for s in fn["body"]), ", ".join(lstr(a) for a in n["argNames"])))
    return "{ wname := %s, consts := [%s], nodes := [%s] }" % (
        lstr(chain["wname"]), ", ".join(consts), ", ".join(nodes))


def emit_chains() -> str:
    import check_C19
    rows = []
    for date, cfg in KERNEL_INSTANCES:
        df = chains.single_person(date, **cfg)
        for branch, (target, cnode) in check_C19.BRANCHES.items():
            try:
                chain, info = chains.build_chain(date, [target], df)
            except Exception as ex:  # noqa: BLE001
                rows.append(f"-- {target} at {date}: chain cannot be built: {type(ex).__name__}")
                continue
            if info["unsupported"]:
                rows.append(f"-- {target} at {date}: wage-dependent nodes outside the fragment {info['unsupported']}")
                continue
            G, M = check_C19.statutory_points(info, date)
            C = float(info["real"][cnode].iloc[0])
            xs = chains.candidate_breakpoints(chain, info)
            # keep the kernel's work small: breakpoints the chain can actually react to
            keep = [x for x in xs if x <= 20 * Fraction(C)]
            bs = ", ".join(f"({lrat(x)}, false), ({lrat(x)}, true)" for x in keep)
            rows.append("{ label := %s, target := %s, g := %s, c := %s, m := %s, bs := [%s], chain := %s }" % (
                lstr(f"{target} {check_C19._label(date, cfg)}"), lstr(target),
                lrat(Fraction(G)), lrat(Fraction(C)), lrat(Fraction(M)), bs, chain_term(chain)))
    good = [r for r in rows if not r.startswith("--")]
    notes = "\n".join(r for r in rows if r.startswith("--"))
    return HEADER + f"""import GettsimVerif.Core.Sym
namespace GV.Gen.Chains
open GV.Lang GV.Yaml GV.Sym

structure Instance where
  label : String
  target : String
  g : Rat      -- minijob limit
  c : Rat      -- contribution ceiling
  m : Rat      -- upper boundary of the transition zone
  bs : List (Rat × Bool)
  chain : Chain

{notes}
/-- contribution chains from the gross wage to the employee contribution, rebuilt from /repo's rule sources and
the real dependency graph ({len(good)} instances; the remaining dates / configurations run through the driver) -/
def instances : List Instance := [
  {(',' + chr(10) + '  ').join(good)}]
end GV.Gen.Chains
"""


FILES = {"Chains.lean": emit_chains}
