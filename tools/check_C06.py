"""C06 — a reform changes only what depends on it (reform locality)."""

from __future__ import annotations

import copy
import inspect
import json
import types
import warnings

import networkx as nx
import numpy as np

import common
import popgen
import t3
import t4


def simulate_with(df, params, functions, nodes, **kw):
    from gettsim import compute_taxes_and_transfers
    with warnings.catch_warnings():
        warnings.simplefilter("ignore")
        return compute_taxes_and_transfers(data=df, params=params, functions=functions, targets=nodes, **kw)


def identical(a, b):
    a, b = np.asarray(a), np.asarray(b)
    if a.dtype != b.dtype or a.shape != b.shape:
        return False
    if a.dtype.kind == "f":
        return bool(np.array_equal(a, b, equal_nan=True))
    return bool(np.array_equal(a, b))


def leaves(tree, path=()):
    if isinstance(tree, dict):
        for k, v in tree.items():
            if k in ("rounding", "datum"):
                continue
            yield from leaves(v, path + (k,))
    elif isinstance(tree, (int, float, np.integer, np.floating)) and not isinstance(tree, bool):
        if np.isfinite(tree):
            yield path


def set_path(tree, path, f):
    cur = tree
    for k in path[:-1]:
        cur = cur[k]
    cur[path[-1]] = f(cur[path[-1]])


def users_of_group(date, g, functions, dag):
    us = set()
    for n in dag.nodes:
        f = functions.get(n)
        if f is None:
            continue
        if f"{g}_params" in inspect.signature(f).parameters:
            us.add(n)
        if getattr(f, "__info__", {}).get("params_key_for_rounding") == g:
            us.add(n)
    return us


def cone(dag, sources):
    out = set(sources)
    for s in sources:
        if s in dag:
            out |= nx.descendants(dag, s)
    return out


def run(tier: str) -> int:
    r = common.Run("C06", tier)
    quick = tier == "quick"
    r.rule = ("per date and population: for every parameter group a random numeric leaf is perturbed (x1.1+1) in a deep "
              "copy; all nodes outside descendants(users(group)) (users = rules with a <group>_params argument or the "
              "group as rounding key) must be bit-identical; sampled rules are replaced by perturbed versions (cone = "
              "descendants) and by identical copies / deep-copied parameters (nothing may change); the caller's params "
              "are deep-compared before/after. distinct = (population, reform).")
    common.build_and_audit(r, ["C06", "C06Sim", "C06Fn"], leanchecker=not quick)
    rnd = common.rng("C06")
    t3.run_t3(r, 1000 * common.seed() + 6, 40 if quick else 600)
    t4.run_t4_quick(r, common.rng("C06-T4"), quick)
    for date in (popgen.DATES_QUICK if quick else popgen.DATES_2015[::2]):
        params, functions = popgen.env(date)
        dag, fno = popgen.graph(date)
        nodes = popgen.computed_nodes(date)
        for k in range(1 if quick else 3):
            df, kinds = popgen.population(rnd, date)
            ok, base = r.attempt(f"baseline at {date}", simulate_with, df, params, functions, nodes,
                                 replay={"date": date, "data": popgen.frame_to_json(df)})
            if not ok:
                continue
            snap = copy.deepcopy({g: {kk: vv for kk, vv in b.items()} for g, b in params.items()})
            # --- parameter reforms
            for g in params:
                ls = list(leaves(params[g]))
                if not ls:
                    continue
                for path in (rnd.sample(ls, 1) if quick else rnd.sample(ls, min(4, len(ls)))):
                    p2 = copy.deepcopy(params)
                    set_path(p2[g], path, lambda v: v * 1.1 + 1)
                    try:
                        res = simulate_with(df, p2, functions, nodes)
                    except Exception:  # noqa: BLE001  (a perturbed table may be inconsistent, e.g. thresholds)
                        continue
                    allowed = cone(dag, users_of_group(date, g, functions, dag))
                    r.case({"date": date, "pop": k, "group": g, "leaf": [str(x) for x in path]})
                    changed = [n for n in nodes if not identical(res[n], base[n])]
                    for n in changed:
                        if n not in allowed:
                            r.hit({"node": n, "kind": "parameter-reform-leaks", "group": g},
                                  f"changing {g}{list(path)} at {date} changes {n}, which does not depend on that group",
                                  {"date": date, "data": popgen.frame_to_json(df), "group": g, "leaf": [str(x) for x in path], "node": n})
            # --- reforms of the statutory rounding rules (params[g]["rounding"][rule]): grid and additive term
            rgroups = [g for g in params if isinstance(params[g].get("rounding"), dict) and params[g]["rounding"]]
            for g in (rnd.sample(rgroups, min(3, len(rgroups))) if quick else rgroups):
                for rule in (rnd.sample(sorted(params[g]["rounding"]), 1) if quick else sorted(params[g]["rounding"])):
                    for what in ("base", "to_add_after_rounding"):
                        p2 = copy.deepcopy(params)
                        spec = p2[g]["rounding"][rule]
                        if what == "base":
                            spec["base"] = spec["base"] * 4
                        else:
                            spec["to_add_after_rounding"] = spec.get("to_add_after_rounding", 0) + 7
                        try:
                            res = simulate_with(df, p2, functions, nodes)
                        except Exception:  # noqa: BLE001
                            continue
                        allowed = cone(dag, users_of_group(date, g, functions, dag))
                        r.case({"date": date, "pop": k, "group": g, "rounding-reform": [rule, what]})
                        for n in nodes:
                            if n not in allowed and not identical(res[n], base[n]):
                                r.hit({"node": n, "kind": "parameter-reform-leaks", "group": g},
                                      f"changing the rounding rule {g}['rounding'][{rule!r}][{what!r}] at {date} changes {n}, "
                                      f"which neither reads {g}_params nor is rounded by that group",
                                      {"date": date, "data": popgen.frame_to_json(df), "group": g, "rounding_rule": rule,
                                       "changed": what, "node": n})
            # --- deep copy of the parameters / identical copies of functions change nothing
            res = simulate_with(df, copy.deepcopy(params), functions, nodes)
            r.case({"date": date, "pop": k, "reform": "deepcopy(params)"})
            for n in nodes:
                if not identical(res[n], base[n]):
                    r.hit({"node": n, "kind": "deepcopy-of-params-changes-results"},
                          f"{n} at {date} changes when params is replaced by a deep copy", {"date": date, "node": n})
            rules = [n for n in nodes if n in functions and not getattr(functions[n], "__info__", {}).get("skip_vectorization")]
            # every rule replaced by an identical copy AT ONCE, for several row orders (whatever gettsim derives from a function
            # object -- dtype, rounding, vectorisation -- must not depend on the object's identity, whichever row comes first)
            def clone_of(f):
                c = types.FunctionType(f.__code__, f.__globals__, f.__name__, f.__defaults__, f.__closure__)
                c.__annotations__ = dict(f.__annotations__)
                c.__kwdefaults__ = f.__kwdefaults__
                if hasattr(f, "__info__"):
                    c.__info__ = dict(f.__info__)
                return c
            all_clones = {**functions, **{n: clone_of(functions[n]) for n in rules}}
            for rot in range(3 if quick else 8):
                order = list(range(len(df)))
                order = order[rot:] + order[:rot] if rot < 2 else rnd.sample(order, len(order))
                d2 = df.iloc[order].reset_index(drop=True)
                ok1, b2 = r.attempt(f"baseline (row order {rot}) at {date}", simulate_with, d2, params, functions, nodes)
                ok2, c2 = r.attempt(f"all rules cloned (row order {rot}) at {date}", simulate_with, d2, params, all_clones, nodes)
                if not (ok1 and ok2):
                    continue
                r.case({"date": date, "pop": k, "reform": "all rules cloned", "rot": rot})
                for m in nodes:
                    if not identical(c2[m], b2[m]):
                        r.hit({"node": m, "kind": "identical-copy-changes-results", "rule": "all"},
                              f"{m} at {date} changes when every rule is replaced by an identical copy of itself "
                              f"({b2[m].tolist()[:6]} -> {c2[m].tolist()[:6]})",
                              {"date": date, "node": m, "data": popgen.frame_to_json(d2)})
                        break
            for n in rnd.sample(rules, 4 if quick else 25):
                f = functions[n]
                clone = types.FunctionType(f.__code__, f.__globals__, f.__name__, f.__defaults__, f.__closure__)
                clone.__annotations__ = dict(f.__annotations__)
                clone.__kwdefaults__ = f.__kwdefaults__
                if hasattr(f, "__info__"):
                    clone.__info__ = dict(f.__info__)
                f2 = {**functions, n: clone}
                res = simulate_with(df, params, f2, nodes)
                r.case({"date": date, "pop": k, "reform": f"copy of {n}"})
                for m in nodes:
                    if not identical(res[m], base[m]):
                        r.hit({"node": m, "kind": "identical-copy-changes-results", "rule": n},
                              f"{m} at {date} changes when {n} is replaced by an identical copy", {"date": date, "node": m, "rule": n})
                # perturbed replacement: only the cone may change
                ret = f.__annotations__.get("return")
                if ret not in (float, "float"):
                    continue
                src_args = list(inspect.signature(f).parameters)
                ns = {"_orig": f}
                exec(f"def {f.__name__}({', '.join(src_args)}):\n    return _orig({', '.join(a + '=' + a for a in src_args)}) + 1.0\n", ns)  # noqa: S102
                g2 = ns[f.__name__]
                g2.__annotations__ = dict(f.__annotations__)
                if hasattr(f, "__info__"):
                    g2.__info__ = dict(f.__info__)
                try:
                    res = simulate_with(df, params, {**functions, n: g2}, nodes)
                except Exception:  # noqa: BLE001
                    continue
                allowed = cone(dag, {n})
                r.case({"date": date, "pop": k, "reform": f"perturbed {n}"})
                if identical(res[n], base[n]):
                    r.hit({"node": n, "kind": "user-function-not-used"},
                          f"replacing {n} by a user function at {date} has no effect on {n} itself", {"date": date, "node": n})
                for m in nodes:
                    if m not in allowed and not identical(res[m], base[m]):
                        r.hit({"node": m, "kind": "function-reform-leaks", "rule": n},
                              f"replacing {n} at {date} changes {m}, which is not a descendant of it",
                              {"date": date, "data": popgen.frame_to_json(df), "rule": n, "node": m})
            # --- aggregation-spec reforms: overriding ONE built-in group aggregate changes only its cone,
            #     and leaves no trace in later runs
            import extract
            builtin = [n for n in extract.aggregation_dicts("aggregate_by_group") if n in nodes]
            for n in rnd.sample(builtin, min(len(builtin), 3 if quick else 12)):
                spec0 = extract.aggregation_dicts("aggregate_by_group")[n]
                if spec0.get("aggr") == "count":
                    alt = {"aggr": "sum", "source_col": rnd.choice(["kind", "rentner", "weiblich"])}
                else:
                    pool = [c for c in ("kind", "rentner", "weiblich", "kind_bis_17", "kind_bis_6", "erwachsen")
                            if c != spec0.get("source_col") and (c in nodes or c in df.columns)]
                    alt = {"aggr": spec0["aggr"] if spec0["aggr"] in ("sum", "any", "all") else "sum", "source_col": rnd.choice(pool)}
                try:
                    res = simulate_with(df, params, functions, nodes, aggregate_by_group_specs={n: alt})
                except Exception:  # noqa: BLE001
                    res = None
                allowed = cone(dag, {n})
                r.case({"date": date, "pop": k, "reform": f"user spec for {n}: {alt}"})
                for m in (nodes if res is not None else []):
                    if m not in allowed and not identical(res[m], base[m]):
                        r.hit({"node": m, "kind": "aggregation-spec-reform-leaks", "spec": n},
                              f"overriding the aggregation spec of {n} at {date} changes {m}, which is not a descendant of it",
                              {"date": date, "data": popgen.frame_to_json(df), "spec": {n: alt}, "node": m})
                try:
                    again = simulate_with(df, params, functions, nodes)
                except Exception as ex:  # noqa: BLE001
                    r.hit({"node": "all", "kind": "reform-leaves-a-trace", "spec": n},
                          f"after a run with a user aggregation spec for {n}, a plain re-run at {date} raises {type(ex).__name__}",
                          {"date": date, "data": popgen.frame_to_json(df), "spec": {n: alt}})
                    break
                for m in nodes:
                    if not identical(again[m], base[m]):
                        r.hit({"node": m, "kind": "reform-leaves-a-trace", "spec": n},
                              f"after a run with a user aggregation spec for {n}, a plain re-run at {date} gives a different {m}",
                              {"date": date, "data": popgen.frame_to_json(df), "spec": {n: alt}, "node": m})
                        break
            # the caller's params were not modified by any of this
            diffs = _deep_diff(snap, params)
            if diffs:
                r.hit({"node": "params", "kind": "caller-params-modified"},
                      f"simulating at {date} modified the caller's parameter dictionary: {diffs[:3]}", {"date": date})
            r.sample({"date": date, "kinds": kinds, "groups": len(params)}, limit=3)
    return r.finish()


def _deep_diff(a, b, path=""):
    out = []
    if isinstance(a, dict) and isinstance(b, dict):
        for k in set(a) | set(b):
            if k not in a or k not in b:
                out.append(f"{path}[{k!r}] added/removed")
            else:
                out += _deep_diff(a[k], b[k], f"{path}[{k!r}]")
    elif isinstance(a, np.ndarray) or isinstance(b, np.ndarray):
        if not np.array_equal(np.asarray(a), np.asarray(b)):
            out.append(path)
    elif a != b and not (a != a and b != b):
        out.append(path)
    return out


def replay(path: str) -> int:
    d = json.load(open(path))
    print(json.dumps({k: v for k, v in d.items() if k != "data"}, ensure_ascii=False)[:1500])
    return 1
