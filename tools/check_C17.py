"""C17 — means-tested benefits are mutually exclusive as the priority rules say."""

from __future__ import annotations

import json
import subprocess
from fractions import Fraction

import numpy as np

import common
import emit_lean
import emit_rules
import extract
import popgen
import t1


def gen_driver(lines):
    rc, out = common.lake(["build", "GettsimVerif.DriverGen"])
    if rc != 0:
        raise RuntimeError(out[-2000:])
    p = subprocess.run(["lake", "env", "lean", "--run", "DriverGen.lean"], cwd=common.LEAN,
                       input="\n".join(lines) + "\n", capture_output=True, text=True, timeout=900)
    if p.returncode != 0:
        raise RuntimeError((p.stdout + p.stderr)[-2000:])
    return p.stdout.splitlines()


def shallow_correspondence(run, rnd, n_rows):
    """Generated shallow definitions vs the repo's source on exact rationals."""
    text, meta = emit_rules.emit_module("RulesC17", emit_rules.C17_RULES)
    for f, why in meta["skipped"].items():
        run.broke("translator", f"rule {f} cannot be translated to a shallow definition", why)
    reg = {e["fname"]: e for e in extract.registry()}
    ops, expect = [], []
    for f, r in meta["rules"].items():
        e = reg[f]
        fn, n_tests, cov = t1.exact_function(e)
        for _ in range(n_rows):
            nums, bools, kwargs = [], [], {}
            for a, t in r["args"]:
                if t == "Bool":
                    v = rnd.random() < 0.5
                    bools.append(v)
                else:
                    v = Fraction(rnd.choice([0, 0, 1, -1, 2, 100, 449, 450, 451, 1000]) * rnd.choice([1, 1, 1, 3]),
                                 rnd.choice([1, 1, 2, 4]))
                    if e["arg_types"].get(a) == "int":
                        v = Fraction(int(v))
                    nums.append(v)
                kwargs[a] = v if not (e["arg_types"].get(a) == "int") else int(v)
            pvals = {}
            for p, (g, keys) in r["params"]:
                pv = Fraction(rnd.randint(0, 2000), rnd.choice([1, 2, 100]))
                nums.append(pv)
                pvals.setdefault(g, {})
                cur = pvals[g]
                for k in keys[:-1]:
                    cur = cur.setdefault(k, {})
                cur[keys[-1]] = pv
            for a in e["args"]:
                if a.endswith("_params"):
                    kwargs[a] = pvals.get(a[:-7], {})
            try:
                ev = ("ok", fn(**kwargs))
            except Exception as ex:  # noqa: BLE001
                ev = ("err", type(ex).__name__)
            ops.append({"module": "RulesC17", "name": f, "ns": [t1.ruleir.fstr(x) for x in nums], "bs": bools})
            expect.append((f, kwargs, ev))
    try:
        outs = gen_driver([json.dumps(o, ensure_ascii=False) for o in ops])
    except RuntimeError as ex:
        run.broke("build", "Generated/RulesC17.lean (shallow rules) does not elaborate", str(ex))
        return
    bad = []
    for op, (f, kwargs, ev), o in zip(ops, expect, outs):
        j = json.loads(o)
        run.case({"shallow": f, "args": {k: str(v) for k, v in kwargs.items() if not k.endswith("_params")}})
        run.traces += 1
        if ev[0] != "ok":
            continue  # the shallow definition is total; raising inputs are outside its guard
        m = j.get("ok")
        same = (m == bool(ev[1])) if isinstance(ev[1], (bool, np.bool_)) else (isinstance(m, str) and Fraction(m) == Fraction(ev[1]))
        if not same:
            bad.append({"rule": f, "args": {k: str(v) for k, v in kwargs.items()}, "python": str(ev[1]), "lean": m})
    run.extra.setdefault("correspondence", {})["Generated/RulesC17 (shallow) vs repo source on exact rationals"] = {
        "rules": len(meta["rules"]), "rows": len(ops), "disagreements": len(bad)}
    if bad:
        run.broke("correspondence", "shallow rule definitions vs repo source", json.dumps(bad[0], ensure_ascii=False))


def steer_population(rnd, date):
    """Incomes / rents / wealth swept across the break-even points of the three priority checks."""
    df, kinds = popgen.population(rnd, date, n_clusters=rnd.randint(1, 4))
    df = df.copy()
    scale = rnd.choice([0.0, 0.3, 0.6, 0.8, 1.0, 1.2, 1.6, 2.5])
    df["bruttolohn_m"] = (df["bruttolohn_m"] * 0 + np.where(df["alter"] >= 18, rnd.choice([0, 450, 900, 1300, 1800, 2400, 3200]) * scale, 0.0)).round(2)
    df["vermögen_bedürft"] = rnd.choice([0.0, 0.0, 3000.0, 14000.0, 60000.0, 200000.0])
    if rnd.random() < 0.3:
        df["rentner"] = df["alter"] >= rnd.choice([60, 63, 65])
    if rnd.random() < 0.5:
        df["bruttokaltmiete_m_hh"] = df.groupby("hh_id")["bruttokaltmiete_m_hh"].transform("first") * rnd.choice([0.5, 1.0, 1.5])
    return df, kinds


def elderly_mixed(rnd, date):
    """households in which retirees live with non-retired adults (grown-up child, three generations) or alone, all with
    little income and no wealth: the Grundsicherung im Alter / ALG II / Wohngeld border"""
    kinds = [rnd.choice(["adult_child", "three_gen", "adult_child", "pensioner_couple", "pensioner_single"])
             for _ in range(rnd.randint(1, 2))]
    df, kinds = popgen.population(rnd, date, kinds=kinds)
    df = df.copy()
    adult = df["alter"] >= 18
    df["rentner"] = df["alter"] >= rnd.choice([63, 66, 68])
    for col in ("eink_selbst_m", "kapitaleink_brutto_m", "eink_vermietung_m", "sonstig_eink_m", "vermögen_bedürft",
                "kind_unterh_erhalt_m", "bruttolohn_m"):
        df[col] = 0.0
    df["selbstständig"] = False
    lo = rnd.choice([0.0, 0.0, 200.0, 600.0])
    df["bruttolohn_m"] = np.where(adult & ~df["rentner"], lo, 0.0)
    df["priv_rente_m"] = np.where(df["rentner"], rnd.choice([0.0, 150.0, 400.0]), 0.0)
    for col in ("entgeltp_west", "entgeltp_ost"):
        if col in df.columns:
            df[col] = np.where(df["rentner"], df[col].clip(upper=rnd.choice([0.0, 5.0, 15.0])), df[col])
    return df, ["elderly mixed: " + ", ".join(kinds)]


def mixed_household(rnd, date, wage):
    """a couple with a child sharing a flat with an unrelated adult without income (two needs units)"""
    p = popgen.Pop(rnd, date)
    h = p.new_hh()
    a, b = p.couple(h, married=True, a1=35, a2=33)
    p.child(h, [a, b], alter=rnd.choice([3, 8, 12]))
    c = p.person(h, 41)
    df = p.frame(relabel=False, shuffle=False).copy()
    for col in ("bruttolohn_m", "eink_selbst_m", "kapitaleink_brutto_m", "eink_vermietung_m", "sonstig_eink_m", "priv_rente_m",
                "vermögen_bedürft", "kind_unterh_erhalt_m"):
        df[col] = 0.0
    df["rentner"] = False
    df["selbstständig"] = False
    df.loc[df["p_id"] == a["p_id"], "bruttolohn_m"] = float(wage)
    df["bruttokaltmiete_m_hh"] = 900.0
    df["heizkosten_m_hh"] = 120.0
    df["wohnfläche_hh"] = 95.0
    df["bewohnt_eigentum_hh"] = False
    return df


def system_search(run, rnd, dates, n_pops):
    stats = {"alg2": 0, "kiz": 0, "wohngeld": 0, "grunds": 0, "pops": 0}
    T = ["arbeitsl_geld_2_m_bg", "kinderzuschl_m_bg", "wohngeld_m_wthh", "grunds_im_alter_m_eg", "bg_id", "wthh_id", "eg_id",
         "kinderzuschl_vorrang_bg", "wohngeld_kinderzuschl_vorrang_bg", "wohngeld_vorrang_bg",
         "arbeitsl_geld_2_eink_m_bg", "arbeitsl_geld_2_regelbedarf_m_bg", "_kinderzuschl_nach_vermög_check_m_bg",
         "wohngeld_anspruchshöhe_m_bg"]
    for date in dates:
        pops = [steer_population(rnd, date) for _ in range(n_pops)]
        pops += [(mixed_household(rnd, date, w), ["mixed household"]) for w in range(1200, 2700, 100)]
        pops += [elderly_mixed(rnd, date) for _ in range(max(6, n_pops // 2))]
        queue = list(pops)
        n_variants = 0
        while queue:
            df, kinds = queue.pop(0)
            ok, res = run.attempt(f"simulate at {date}", popgen.simulate, df, date, targets=T,
                                  replay={"date": date, "data": popgen.frame_to_json(df)})
            if not ok:
                continue
            stats["pops"] += 1
            # wealth swept across the break-even band of the wealth checks: for needs units with a Kinderzuschlag
            # entitlement before the wealth check, wealth = exemption + a fraction of that entitlement
            if "wealth-band" not in kinds and n_variants < 3 * max(4, len(pops) // 3):
                try:
                    w = popgen.simulate(df, date, targets=["_kinderzuschl_vor_vermög_check_m_bg", "arbeitsl_geld_2_vermög_freib_bg"])
                except Exception:  # noqa: BLE001
                    w = None
                if w is not None and (w["_kinderzuschl_vor_vermög_check_m_bg"] > 0).any():
                    bg = res["bg_id"].to_numpy()
                    vor = w["_kinderzuschl_vor_vermög_check_m_bg"].to_numpy()
                    frei = w["arbeitsl_geld_2_vermög_freib_bg"].to_numpy()
                    for theta in (0.3, 0.7, 0.97):
                        d2 = df.copy()
                        wealth = np.zeros(len(df))
                        seen_bg = set()
                        for i in range(len(df)):
                            if vor[i] > 0 and bg[i] not in seen_bg and df["alter"].iloc[i] >= 18:
                                seen_bg.add(bg[i])
                                wealth[i] = frei[i] + theta * vor[i]
                        d2["vermögen_bedürft"] = wealth
                        queue.append((d2, list(kinds) + ["wealth-band"]))
                        n_variants += 1
            a = res["arbeitsl_geld_2_m_bg"].to_numpy()
            kz = res["kinderzuschl_m_bg"].to_numpy()
            wg = res["wohngeld_m_wthh"].to_numpy()
            gs = res["grunds_im_alter_m_eg"].to_numpy()
            stats["alg2"] += int((a > 0).any()); stats["kiz"] += int((kz > 0).any())
            stats["wohngeld"] += int((wg > 0).any()); stats["grunds"] += int((gs > 0).any())
            run.case({"date": date, "pop": common.digest(popgen.frame_to_json(df)),
                      "regimes": [bool((a > 0).any()), bool((kz > 0).any()), bool((wg > 0).any()), bool((gs > 0).any())]})
            rep = {"date": date, "data": popgen.frame_to_json(df)}
            for i in range(len(df)):
                if a[i] > 0 and (kz[i] > 0 or wg[i] > 0):
                    run.hit({"kind": "joint-receipt", "benefits": "alg2+" + ("kiz" if kz[i] > 0 else "wohngeld")},
                            f"person {int(df['p_id'][i])} at {date} receives ALG II ({a[i]}) together with "
                            f"{'Kinderzuschlag ' + str(kz[i]) if kz[i] > 0 else 'Wohngeld ' + str(wg[i])}", {**rep, "row": i})
                    break
                if gs[i] > 0 and (a[i] > 0 or kz[i] > 0 or wg[i] > 0):
                    run.hit({"kind": "joint-receipt", "benefits": "grunds+other"},
                            f"person {int(df['p_id'][i])} at {date} receives Grundsicherung im Alter ({gs[i]}) together with "
                            f"ALG II {a[i]} / Kinderzuschlag {kz[i]} / Wohngeld {wg[i]}", {**rep, "row": i})
                    break
                if kz[i] > 0:
                    need = res["arbeitsl_geld_2_regelbedarf_m_bg"][i]
                    cover = res["arbeitsl_geld_2_eink_m_bg"][i] + res["_kinderzuschl_nach_vermög_check_m_bg"][i]
                    if cover + res["wohngeld_anspruchshöhe_m_bg"][i] < need - 1e-6:
                        run.hit({"kind": "kiz-without-covering-need"},
                                f"Kinderzuschlag {kz[i]} is paid at {date} although income + Kinderzuschlag + Wohngeld "
                                f"({cover + res['wohngeld_anspruchshöhe_m_bg'][i]}) does not cover the need {need}", {**rep, "row": i})
                        break
            m = {}
            for b, w in zip(res["bg_id"], res["wthh_id"]):
                if m.setdefault(b, w) != w:
                    run.hit({"kind": "bg-split-across-wthh"},
                            f"a Bedarfsgemeinschaft is split across two Wohngeld part-households at {date}", rep)
                    break
    run.extra["regimes_seen"] = stats


def rule_level_search(run):
    """The theorem statements, evaluated on the *real* rule functions over the Boolean cube x
    a grid of amounts (the directed search when a proof about a rule no longer checks)."""
    import itertools
    import check_C09
    reg = {e["fname"]: e for e in extract.registry()}
    f = {n: check_C09.real_function(reg[n]) for n in emit_rules.C17_RULES if n in reg}
    B = [False, True]
    amounts = [0.0, 1.0, 400.0]
    alg2, kiz, wg, gs = (f.get(k) for k in ("arbeitsl_geld_2_m_bg", "kinderzuschl_m_bg", "wohngeld_m_wthh", "grunds_im_alter_m_eg"))
    n = 0
    try:
        for wv, kv, wkv, ar in itertools.product(B, repeat=4):
            for v in amounts:
                a = alg2(arbeitsl_geld_2_vor_vorrang_m_bg=v, wohngeld_vorrang_bg=wv, kinderzuschl_vorrang_bg=kv,
                         wohngeld_kinderzuschl_vorrang_bg=wkv, erwachsene_alle_rentner_hh=ar)
                for nr in (0, 1):
                    k = kiz(_kinderzuschl_nach_vermög_check_m_bg=150.0, kinderzuschl_vorrang_bg=kv,
                            wohngeld_kinderzuschl_vorrang_bg=wkv, anz_rentner_hh=nr)
                    n += 1
                    if a > 0 and k > 0:
                        run.hit({"kind": "rule-level-joint-receipt", "benefits": "alg2+kiz"},
                                f"arbeitsl_geld_2_m_bg = {a} and kinderzuschl_m_bg = {k} for the flags wohngeld_vorrang={wv}, "
                                f"kinderzuschl_vorrang={kv}, wohngeld_kinderzuschl_vorrang={wkv}, alle_rentner={ar}, anz_rentner={nr}",
                                {"flags": [wv, kv, wkv, ar], "anz_rentner_hh": nr, "vor_vorrang": v})
                # the part-household aggregates equal the needs unit's flag disjunction (wthh_id construction)
                flag = wv or wkv
                for other in ([], [(wv, wkv)], [(flag, False)], [(False, flag)]):
                    members = [(wv, wkv)] + other
                    w = wg(wohngeld_anspruchshöhe_m_wthh=200.0, erwachsene_alle_rentner_hh=ar,
                           wohngeld_kinderzuschl_vorrang_wthh=any(m[1] for m in members),
                           wohngeld_vorrang_wthh=any(m[0] for m in members))
                    n += 1
                    if a > 0 and w > 0:
                        run.hit({"kind": "rule-level-joint-receipt", "benefits": "alg2+wohngeld"},
                                f"arbeitsl_geld_2_m_bg = {a} and wohngeld_m_wthh = {w} for the needs-unit flags wohngeld_vorrang={wv}, "
                                f"kinderzuschl_vorrang={kv}, wohngeld_kinderzuschl_vorrang={wkv}, alle_rentner={ar}",
                                {"flags": [wv, kv, wkv, ar], "members": members})
                g = gs(arbeitsl_geld_2_regelbedarf_m_bg=500.0, _grunds_im_alter_mehrbedarf_schwerbeh_g_m_eg=0.0, kindergeld_m_eg=0.0,
                       kind_unterh_erhalt_m_eg=0.0, unterhaltsvors_m_eg=0.0, grunds_im_alter_eink_m_eg=100.0,
                       erwachsene_alle_rentner_hh=ar, vermögen_bedürft_eg=0.0, grunds_im_alter_vermög_freib_eg=5000.0,
                       anz_kinder_eg=0, anz_personen_eg=1)
                k1 = kiz(_kinderzuschl_nach_vermög_check_m_bg=150.0, kinderzuschl_vorrang_bg=kv,
                         wohngeld_kinderzuschl_vorrang_bg=wkv, anz_rentner_hh=1)
                w1 = wg(wohngeld_anspruchshöhe_m_wthh=200.0, erwachsene_alle_rentner_hh=ar,
                        wohngeld_kinderzuschl_vorrang_wthh=wkv, wohngeld_vorrang_wthh=wv)
                n += 1
                if g > 0 and (a > 0 or w1 > 0 or k1 > 0):
                    run.hit({"kind": "rule-level-joint-receipt", "benefits": "grunds+other"},
                            f"grunds_im_alter_m_eg = {g} together with ALG II {a} / Wohngeld {w1} / Kinderzuschlag {k1} "
                            f"(alle_rentner={ar}, flags {wv, kv, wkv})", {"flags": [wv, kv, wkv, ar]})
    except TypeError as ex:  # a rule's signature changed: the directed search no longer applies
        run.extra["rule_level_search"] = f"not applicable: {ex}"
        return
    # the part-household id is built from BOTH flags: hh_id*100 + (wohngeld_vorrang_bg or wohngeld_kinderzuschl_vorrang_bg)
    # (hypothesis `hall` of alg2_wohngeld_exclusive; Lean model: Groupings.wthhId, theorem wthhId_spec)
    import numpy as np
    from _gettsim.groupings import wthh_id_numpy
    try:
        for hh, v1, v2 in itertools.product([0, 3], B, B):
            for hh2, w1, w2 in itertools.product([0, 3], B, B):
                ids = wthh_id_numpy(np.asarray([hh, hh2]), np.asarray([v1, w1]), np.asarray([v2, w2]))
                n += 1
                same = ids[0] == ids[1]
                want = hh == hh2 and ((v1 or v2) == (w1 or w2))
                if bool(same) != want:
                    run.hit({"kind": "wthh-id-not-by-both-flags"},
                            f"wthh_id_numpy gives ids {ids.tolist()} for households {hh},{hh2} with flags "
                            f"(wohngeld_vorrang, wohngeld_kinderzuschl_vorrang) = {(v1, v2)} and {(w1, w2)}",
                            {"hh": [hh, hh2], "flags": [[v1, v2], [w1, w2]], "observed": ids.tolist()})
    except TypeError as ex:
        run.hit({"kind": "wthh-id-not-by-both-flags"},
                f"wthh_id_numpy no longer takes both priority flags: {ex}", {})
    run.evaluations += n
    run.distinct.add(common.digest(["rule-level", n]))
    run.extra["rule_level_search"] = f"{n} combinations of the real rule functions"


def run(tier: str) -> int:
    r = common.Run("C17", tier)
    quick = tier == "quick"
    r.rule = ("theorems over the shallow definitions of the ten decision rules regenerated from /repo; T1: those definitions vs "
              "the repo's source on exact rationals (all flag combinations, thresholds ±); search: valid populations with "
              "incomes, rents, wealth and pensioner status swept across the break-even points, every person checked for joint "
              "receipt, need coverage of Kinderzuschlag and bg-within-wthh. distinct = distinct populations / argument rows.")
    emit_lean.regenerate()
    common.build_and_audit(r, ["C17"], leanchecker=not quick)
    rnd = common.rng("C17")
    shallow_correspondence(r, rnd, 40 if quick else 400)
    rule_level_search(r)
    system_search(r, rnd, popgen.DATES_QUICK + ["2015-01-01"] if quick else popgen.DATES_2015, 25 if quick else 150)
    r.sample({"theorem": "alg2_kiz_exclusive", "statement": "0 < arbeitsl_geld_2_m_bg v wv kv wkv ar → kinderzuschl_m_bg k kv wkv nr = 0"})
    return r.finish()


def replay(path: str) -> int:
    d = json.load(open(path))
    print(json.dumps({k: v for k, v in d.items() if k != "data"}, ensure_ascii=False)[:1500])
    return 1
