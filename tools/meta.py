"""Helpers for metamorphic searches on the real system (two real runs are compared)."""

from __future__ import annotations

import numpy as np
import pandas as pd

import popgen


def by_pid(res: pd.DataFrame, df: pd.DataFrame) -> pd.DataFrame:
    """Result rows keyed by the p_id of the input row at the same position."""
    out = res.copy()
    out.index = pd.Index(df["p_id"].to_numpy(), name="pid_key")
    return out.sort_index()


def is_id(col: str) -> bool:
    return col.endswith("_id") and col != "p_id"


def diff_columns(a: pd.DataFrame, b: pd.DataFrame, rel=2.0**-40, check_dtype=False, pid_map=None,
                 cols=None) -> list[tuple[str, str]]:
    """Columns on which two keyed results differ (ids as partitions, floats with tolerance)."""
    bad = []
    for c in (cols if cols is not None else a.columns):
        if c not in b.columns:
            bad.append((c, "missing in second result"))
            continue
        x, y = a[c].to_numpy(), b[c].to_numpy()
        if len(x) != len(y):
            bad.append((c, f"length {len(x)} vs {len(y)}"))
            continue
        if c == "p_id" or c.startswith("p_id_"):
            if pid_map is not None:
                x = np.asarray([pid_map.get(int(v), int(v)) if v >= 0 else int(v) for v in x])
            if not np.array_equal(x, y):
                bad.append((c, "pointer column differs"))
            continue
        if is_id(c):
            if not popgen.same_partition(x.tolist(), y.tolist()):
                bad.append((c, "different partition"))
            continue
        if check_dtype and x.dtype != y.dtype:
            bad.append((c, f"dtype {x.dtype} vs {y.dtype}"))
            continue
        if not popgen.close(x, y, rel=rel):
            i = first_diff(x, y, rel)
            bad.append((c, f"row {i}: {x[i]!r} vs {y[i]!r} (dtypes {x.dtype}/{y.dtype})"))
    return bad


def first_diff(x, y, rel):
    for i, (a, b) in enumerate(zip(x, y)):
        if not popgen.close(np.asarray([a]), np.asarray([b]), rel=rel):
            return i
    return 0


def shrink_rows(df: pd.DataFrame, still_fails, max_rounds=40) -> pd.DataFrame:
    """Drop whole households while the failure persists (keeps pointer closure by dropping
    only households no remaining person points into)."""
    cur = df
    for _ in range(max_rounds):
        changed = False
        for h in list(cur["hh_id"].unique()):
            cand = cur[cur["hh_id"] != h]
            if len(cand) == 0:
                continue
            pids = set(cand["p_id"])
            ok = True
            for c in popgen.POINTERS:
                if not set(cand[c][cand[c] >= 0]).issubset(pids):
                    ok = False
            if not ok:
                continue
            try:
                if still_fails(cand.reset_index(drop=True)):
                    cur = cand.reset_index(drop=True)
                    changed = True
            except Exception:  # noqa: BLE001
                pass
        if not changed:
            break
    return cur
