"""C07 — the policy environment for a date is exactly the law in force that day."""

from __future__ import annotations

import bisect
import datetime
import json

import common
import emit_lean
import extract
import paramsio

D = datetime.date


def sub_year(d: D) -> D:
    try:
        return d.replace(year=d.year - 1)
    except ValueError:
        return d.replace(year=d.year - 1, day=d.day - 1)


def cell_key(d: D, entries: list[int], starts: list[int], stops1: list[int], first: int):
    """The finitely many predicates through which the loader consults the date
    (theorems loadGroup_cut / env_cut / functionsFor_cut): entry dates ≤ probe for the probes
    subYear^k d and jan1(subYear^k d), whether d is a 1 January, the year, and the activity
    cuts of the time-dependent functions."""
    key = [d.year, d == d.replace(month=1, day=1)]
    x = d
    while True:
        o = x.toordinal()
        key.append(bisect.bisect_right(entries, o))
        key.append(bisect.bisect_right(entries, x.replace(month=1, day=1).toordinal()))
        if o < first:
            break
        x = sub_year(x)
    o = d.toordinal()
    key.append(bisect.bisect_right(starts, o))
    key.append(bisect.bisect_right(stops1, o))
    return tuple(key)


def cells(window_start: D, window_end: D):
    entries = extract.all_entry_dates()
    reg = [e for e in extract.registry() if e["td"]]
    starts = sorted({e["start"] for e in reg})
    stops1 = sorted({e["stop"] + 1 for e in reg})
    first = min(entries)
    out = {}
    d = window_start
    one = datetime.timedelta(days=1)
    while d <= window_end:
        out.setdefault(cell_key(d, entries, starts, stops1, first), []).append(d)
        d += one
    return list(out.values()), entries


def calendar_correspondence(run, days: list[D]):
    ops = [{"op": "date", "ord": d.toordinal()} for d in days]
    outs = common.driver([json.dumps(o) for o in ops])
    bad = []
    for d, o in zip(days, outs):
        j = json.loads(o)
        exp = {"ymd": [d.year, d.month, d.day], "jan1": [d.replace(month=1, day=1).toordinal()],
               "subYear": [sub_year(d).toordinal()], "back": [d.toordinal()]}
        run.evaluations += 1
        if j != exp:
            bad.append({"date": d.isoformat(), "model": j, "datetime": exp})
    run.traces += len(days)
    run.distinct.add(common.digest(["calendar", len(days), days[0].isoformat(), days[-1].isoformat()]))
    run.extra.setdefault("correspondence", {})["calendar (toYMD/ofYMD/jan1/subYear) vs datetime"] = {
        "days": len(days), "disagreements": len(bad)}
    if bad:
        run.broke("correspondence", "Core/Dates.lean vs datetime", json.dumps(bad[:3]))


def independent_latest(group: str, param: str, d: D):
    """The defining clause of the property, read directly from the YAML tree: the value of the most
    recent entry on or before d for scalar parameters without deviation."""
    raw = extract.raw_yaml(group).get(param)
    if not isinstance(raw, dict):
        return None
    dates = sorted(k for k in raw if isinstance(k, D) and k <= d)
    if not dates:
        return ("absent",)
    pol = raw[dates[-1]]
    if isinstance(pol, dict) and "scalar" in pol and "deviation_from" not in pol:
        return ("scalar", pol["scalar"])
    return None


def prior_date_search(r, quick):
    """`access_different_date`: env(d).<p>_vorjahr must be env(same day one year earlier).<p> and
    <p>_jahresanfang must be env(1 January).<p> — on the real loader, at every day where that can matter
    (one year ± 1 day after each entry of the parameter, around the end of February, around New Year)."""
    import warnings
    from _gettsim.policy_environment import _load_parameter_group_from_yaml as load
    paramsio._cached_yaml()
    one = datetime.timedelta(days=1)
    n = 0
    for g in extract.param_groups():
        raw = extract.raw_yaml(g)
        for p, body in raw.items():
            if not isinstance(body, dict) or "access_different_date" not in body:
                continue
            mode = body["access_different_date"]
            entries_p = sorted(k for k in body if isinstance(k, D))
            days = set()
            for e in entries_p:
                for delta in (364, 365, 366, 367, 729, 730, 731):
                    days.add(e + datetime.timedelta(days=delta))
                days |= {e - one, e, e + one}
            for y in range(max(1985, entries_p[0].year), entries_p[-1].year + 3):
                days |= {D(y, 2, 28), D(y, 3, 1), D(y, 12, 31), D(y, 1, 1), D(y, 6, 30), D(y, 7, 1)}
                if (y % 4 == 0 and y % 100 != 0) or y % 400 == 0:
                    days.add(D(y, 2, 29))
            days = sorted(d for d in days if d >= entries_p[0])
            if quick:
                days = days[:: max(1, len(days) // 120)] + [d for d in days if (d.month, d.day) in ((6, 30), (2, 29), (12, 31))]
            for d in sorted(set(days)):
                with warnings.catch_warnings():
                    warnings.simplefilter("ignore")
                    try:
                        now = load(d, g, parameters=[p])
                        ref_day = sub_year(d) if mode == "vorjahr" else d.replace(month=1, day=1)
                        ref = load(ref_day, g, parameters=[p])
                    except Exception as ex:  # noqa: BLE001
                        r.broke("implementation-raises", f"_load_parameter_group_from_yaml({d}, {g}, [{p}])", str(ex)[:300])
                        continue
                n += 1
                key = f"{p}_{mode}"
                got, want = now.get(key, "<absent>"), ref.get(p, "<absent>")
                if not _same(got, want):
                    r.hit({"kind": "prior-date-lookup", "param": f"{g}.{p}", "mode": mode},
                          f"{g}.{key} on {d} is {got!r}, but {g}.{p} on {ref_day} was {want!r}",
                          {"date": d.isoformat(), "reference_day": ref_day.isoformat(), "param": f"{g}.{p}",
                           "observed": str(got), "expected": str(want)})
    r.evaluations += n
    r.distinct.add(common.digest(["prior-date", n]))
    r.extra["prior_date_lookups_checked"] = n


def date_presentation_search(r, rnd, quick):
    """`set_up_policy_environment` documents three presentations of the day (datetime.date, ISO string, year as int):
    all must select the environment of the same calendar day (compared through the `datum` stamps, a digest of the
    parameters and the identity of every selected function)."""
    import hashlib
    import warnings

    import pandas as pd
    from gettsim import set_up_policy_environment

    def digest(env):
        params, functions = env
        stamps = sorted({str(b.get("datum")) for b in params.values() if isinstance(b, dict) and "datum" in b})
        body = hashlib.sha256(repr(sorted((g, repr(sorted((k, repr(v)) for k, v in strip_datum({g: b})[g].items())))
                                          for g, b in params.items() if isinstance(b, dict))).encode()).hexdigest()[:16]
        funs = hashlib.sha256(repr(sorted((k, f.__module__, f.__name__) for k, f in functions.items())).encode()).hexdigest()[:16]
        return stamps, body, funs

    years = rnd.sample(range(2005, 2025), 2 if quick else 8)
    days = [D(y, m, dd) for y in years for (m, dd) in ((7, 1), (1, 7), (2, 28), (12, 31), (10, 1), (3, 5))]
    if quick:
        days = rnd.sample(days, 5)
    days += [D(2020, 2, 29)]
    for d in days:
        forms = [("datetime.date", d), ("ISO string", d.isoformat()), ("pandas Timestamp string", str(pd.Timestamp(d)))]
        if (d.month, d.day) == (1, 1):
            forms.append(("year as int", d.year))
        outs = []
        with warnings.catch_warnings():
            warnings.simplefilter("ignore")
            for label, v in forms:
                ok, env = r.attempt(f"set_up_policy_environment({v!r})", set_up_policy_environment, v)
                if ok:
                    outs.append((label, v, digest(env)))
        r.case({"date-presentations": d.isoformat()})
        for label, v, dg in outs[1:]:
            if dg != outs[0][2]:
                r.hit({"kind": "date-presentation-changes-environment", "form": label},
                      f"set_up_policy_environment({v!r}) is not the environment of {d.isoformat()} given as datetime.date: "
                      f"stamps {dg[0]} vs {outs[0][2][0]}", {"date": d.isoformat(), "form": label, "value": str(v)})
    for y in rnd.sample(range(2005, 2025), 1 if quick else 5):
        with warnings.catch_warnings():
            warnings.simplefilter("ignore")
            ok1, a = r.attempt(f"set_up_policy_environment({y})", set_up_policy_environment, y)
            ok2, b = r.attempt(f"set_up_policy_environment(date({y},1,1))", set_up_policy_environment, D(y, 1, 1))
        r.case({"date-presentations": y})
        if ok1 and ok2 and digest(a) != digest(b):
            r.hit({"kind": "date-presentation-changes-environment", "form": "year as int"},
                  f"set_up_policy_environment({y}) is not the environment of 1 January {y}", {"year": y})


def _same(a, b):
    if isinstance(a, dict) and isinstance(b, dict):
        return set(a) == set(b) and all(_same(a[k], b[k]) for k in a)
    return a == b or (isinstance(a, float) and isinstance(b, float) and a != a and b != b)


def run(tier: str) -> int:
    r = common.Run("C07", tier)
    quick = tier == "quick"
    r.rule = ("every calendar day of the window is assigned its cell key (the predicates the loader can see, by theorem "
              "env_cut / functionsFor_cut); per cell: first and last day (+ random interior days) — Lean loader model vs "
              "real set_up_policy_environment (raw scalars exactly, parsed schedules 2^-40), function tables as sets; "
              "search: real environments of two days of one cell must be equal up to datum; scalar parameters vs the "
              "latest YAML entry read independently; prior-date look-ups on the real loader; the documented presentations of a "
              "day (date object, ISO string, timestamp string, year) select the same environment; calendar model vs datetime. distinct = distinct (cell, day).")
    emit_lean.regenerate()
    common.build_and_audit(r, ["C07", "C07Inst"], leanchecker=not quick)
    rnd = common.rng("C07")
    entries = extract.all_entry_dates()
    w0 = D(1980, 1, 1)
    w1 = D.fromordinal(max(entries)) + datetime.timedelta(days=366)
    cs, _ = cells(w0, w1)
    r.extra["window"] = [w0.isoformat(), w1.isoformat()]
    r.extra["calendar_days_classified"] = sum(len(c) for c in cs)
    r.extra["cells"] = len(cs)
    # calendar model
    alldays = [d for c in cs for d in c]
    special = [d for d in alldays if (d.month, d.day) in ((1, 1), (2, 28), (2, 29), (3, 1), (12, 31))]
    calendar_correspondence(r, sorted(set(special + (rnd.sample(alldays, 1500) if quick else alldays))))
    # representatives
    chosen = []
    for c in cs:
        if quick and c[-1] < D(2015, 1, 1) and rnd.random() > 0.08:
            continue
        days = {c[0], c[-1]}
        if len(c) > 2:
            days.add(rnd.choice(c))
        if not quick and len(c) > 5:
            days |= set(rnd.sample(c, 3))
        chosen.append(sorted(days))
    if quick and len(chosen) > 70:
        recent = [c for c in chosen if c[0] >= D(2015, 1, 1)]
        old = [c for c in chosen if c[0] < D(2015, 1, 1)]
        # cells that begin or end at a year boundary are always compared: values "explicitly derived from the date" are
        # functions of the year, so this is where a date-derived value can leak into a neighbouring cell
        yb = [c for c in recent if (c[0].month, c[0].day) == (1, 1) or (c[-1].month, c[-1].day) == (12, 31)]
        rest = [c for c in recent if c not in yb]
        chosen = yb + rnd.sample(rest, min(len(rest), max(0, 45 - len(yb)))) + rnd.sample(old, min(len(old), 12))
    ords = sorted({d.toordinal() for days in chosen for d in days})
    r.extra["cells_compared"] = len(chosen)
    models = dict(zip(ords, paramsio.model_envs(ords)))
    reals = dict(zip(ords, paramsio.real_envs_parallel(ords)))
    mfun = dict(zip(ords, paramsio.model_functions(ords)))
    bad_env = bad_fun = 0
    for days in chosen:
        base = None
        for d in days:
            o = d.toordinal()
            mk, mv = models[o]
            rk, rp, rf = reals[o]
            r.case({"day": d.isoformat(), "cell": days[0].isoformat()})
            r.traces += 1
            if rk != "ok" or mk != "ok":
                if (rk == "ok") != (mk == "ok"):
                    bad_env += 1
                    r.broke("correspondence", f"environment at {d}: code {rk}, model {mk}", f"{rp if rk != 'ok' else ''} {mv if mk != 'ok' else ''}"[:600])
                continue
            diffs = paramsio.diff_tree(rp, mv)
            if diffs:
                bad_env += 1
                r.broke("correspondence", f"params at {d}: Lean loader model vs set_up_policy_environment", "; ".join(diffs[:5]))
            if sorted(tuple(x) for x in rf) != sorted(tuple(x) for x in mfun[o]):
                bad_fun += 1
                a, b = set(map(tuple, rf)), set(map(tuple, mfun[o]))
                r.broke("correspondence", f"function table at {d}: functionsFor vs load_functions_for_date",
                        f"only in code: {sorted(a - b)[:3]}; only in model: {sorted(b - a)[:3]}")
            # search on the real system: same cell => same environment (up to datum) and same functions
            if base is None:
                base = (d, rp, rf)
            else:
                d0, p0, f0 = base
                diffs = [x for x in paramsio.diff_tree(strip_datum(rp), dec_floats(strip_datum(p0)), exact=False)]
                if diffs:
                    r.hit({"kind": "environment-changes-inside-a-cell", "what": diffs[0].split(":")[0]},
                          f"the environments of {d0} and {d} differ although no entry date, year boundary or "
                          f"validity bound lies between them: {diffs[:3]}",
                          {"dates": [d0.isoformat(), d.isoformat()], "differences": diffs[:10]})
                if sorted(f0) != sorted(rf):
                    r.hit({"kind": "functions-change-inside-a-cell"},
                          f"the function tables of {d0} and {d} differ inside one cell",
                          {"dates": [d0.isoformat(), d.isoformat()]})
            # independent reading of the defining clause for plain scalar parameters
            for g in extract.param_groups():
                if g not in rp:
                    continue
                for p in extract.raw_yaml(g):
                    exp = independent_latest(g, p, d)
                    if exp is None:
                        continue
                    r.evaluations += 1
                    if exp[0] == "absent":
                        continue
                    if (g, p) == ("kinderzuschl", "maximum") and 2021 <= d.year < 2023:
                        continue  # explicitly derived from the date (_parse_kinderzuschl_max)
                    got = rp[g].get(p, "<missing>")
                    want = float("inf") if exp[1] == "inf" else exp[1]
                    if want is None or isinstance(want, (str, bool)) or got is None:
                        ok = got == want
                    else:
                        ok = got != "<missing>" and not isinstance(got, (dict, str)) and (
                            float(got) == float(want))
                    if not ok:
                        r.hit({"kind": "not-the-latest-entry", "param": f"{g}.{p}"},
                              f"{g}.{p} at {d}: environment has {got!r}, the most recent YAML entry on or before that "
                              f"day says {want!r}", {"date": d.isoformat(), "param": f"{g}.{p}", "observed": str(got),
                                                     "expected": str(want)})
    r.extra.setdefault("correspondence", {})["environment + function table: model vs code"] = {
        "days": len(ords), "env_disagreements": bad_env, "function_table_disagreements": bad_fun}
    prior_date_search(r, quick)
    date_presentation_search(r, rnd, quick)
    # boundary days of every implementation switch (inclusive bounds)
    from _gettsim.policy_environment import load_functions_for_date
    import warnings
    reg = [e for e in extract.registry() if e["td"]]
    bounds = sorted({(e["dag"], e["fname"], e["start"], e["stop"]) for e in reg})
    if quick:
        bounds = rnd.sample(bounds, min(40, len(bounds)))
    cache = {}

    def active(o):
        if o not in cache:
            with warnings.catch_warnings():
                warnings.simplefilter("ignore")
                cache[o] = {n: f.__name__ for n, f in load_functions_for_date(D.fromordinal(o)).items()}
        return cache[o]

    for dag, fname, s, e in bounds:
        for o, should in ((s, True), (s - 1, False), (e, True), (e + 1, False)):
            if not (D(1980, 1, 1).toordinal() <= o <= D(2100, 1, 1).toordinal()):
                continue
            r.case({"bound": [dag, fname, o]})
            is_active = active(o).get(dag) == fname
            if is_active != should:
                r.hit({"kind": "validity-bound", "rule": fname},
                      f"{fname} (as {dag}) is {'in' if not is_active else ''}active on {D.fromordinal(o)}, "
                      f"its interval is [{D.fromordinal(s)}, {D.fromordinal(min(e, 3652059))}]",
                      {"rule": fname, "date": D.fromordinal(o).isoformat()})
    r.sample({"cell": [chosen[0][0].isoformat(), chosen[0][-1].isoformat()], "compared_days": [d.isoformat() for d in chosen[0]]})
    return r.finish()


def strip_datum(p):
    return {g: {k: v for k, v in b.items() if k != "datum"} if isinstance(b, dict) else b for g, b in p.items()}


def dec_floats(p):
    """real params -> comparable tree for diff_tree's model side (Fractions)."""
    from fractions import Fraction
    import numpy as np

    def conv(v):
        if isinstance(v, dict):
            return {k: conv(x) for k, x in v.items()}
        if isinstance(v, np.ndarray):
            return [conv(x) for x in v.tolist()]
        if isinstance(v, (list, tuple)):
            return [conv(x) for x in v]
        if isinstance(v, (bool, np.bool_)):
            return bool(v)
        if isinstance(v, (int, float, np.integer, np.floating)):
            f = float(v)
            if f in (float("inf"), float("-inf")):
                return f
            return Fraction(f)
        if isinstance(v, np.datetime64):
            return v.astype("datetime64[D]").astype(datetime.date)
        return v

    return conv(p)


def replay(path: str) -> int:
    d = json.load(open(path))
    print(json.dumps(d, ensure_ascii=False)[:2000])
    return 1
