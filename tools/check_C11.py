"""C11 — group and person-pointer aggregates equal their mathematical definition."""

from __future__ import annotations

import json
import warnings

import numpy as np
import pandas as pd

import common
import corr
import popgen


# ---------------------------------------------------------------------------------
# T2: primitives vs. Lean model
# ---------------------------------------------------------------------------------


def _ids(rnd, n, allow_bad=False):
    pool = rnd.sample(range(0, 4 * n + 10), rnd.randint(1, max(1, n)))
    if rnd.random() < 0.6 and 0 not in pool:
        pool[0] = 0
    if rnd.random() < 0.2:
        # survey-style identifiers (7 digits) and ids built as 100 * id + counter; members of a group are NOT adjacent
        base = rnd.choice([999_990, 1_000_000, 1_234_500, 3_000_017])
        pool = [base + (100 * k if rnd.random() < 0.5 else k) for k in pool]
    ids = [rnd.choice(pool) for _ in range(n)]
    if allow_bad and rnd.random() < 0.08 and n:
        ids[rnd.randrange(n)] = -rnd.randint(1, 3)
    return ids


def _dyadic(rnd):
    return rnd.randint(-4000, 4000) / rnd.choice([1, 1, 2, 4, 8])


def agg_cases(rnd, n_cases):
    from _gettsim import aggregation_numpy as A
    from _gettsim.shared import join_numpy

    cases = []
    for _ in range(n_cases):
        n = rnd.choice([1, 2, 3, 4, 5, 7, 10, 17])
        f = rnd.choice(["sum", "sum", "mean", "max", "min", "any", "all", "count", "sum_by_p_id",
                        "sum_by_p_id", "join"])
        gid = _ids(rnd, n, allow_bad=True)
        if rnd.random() < 0.04:
            gid = gid + [0]  # length mismatch
        g = np.asarray(gid, dtype="int64")
        if f in ("sum", "mean", "max", "min"):
            intcol = f != "mean" and rnd.random() < 0.3
            col = [rnd.randint(-50, 50) if intcol else _dyadic(rnd) for _ in range(n)]
            arr = np.asarray(col, dtype="int64" if intcol else "float64")
            if f == "sum" and rnd.random() < 0.2:
                col = [rnd.random() < 0.5 for _ in range(n)]
                arr = np.asarray(col, dtype=bool)
            op = {"op": "grouped", "f": f, "col": [corr.fstr(c) for c in col], "gid": gid}
            fn = getattr(A, f"grouped_{f}")
            cmp = corr.eq_close_rats if f == "mean" else corr.eq_exact_rats
            cases.append((op, (lambda fn=fn, arr=arr, g=g: fn(arr, g)), cmp))
        elif f in ("any", "all"):
            col = [rnd.random() < 0.5 for _ in range(n)]
            arr = np.asarray(col, dtype=bool)
            op = {"op": "grouped", "f": f, "col": col, "gid": gid}
            fn = getattr(A, f"grouped_{f}")
            cases.append((op, (lambda fn=fn, arr=arr, g=g: fn(arr, g)), corr.eq_bools))
        elif f == "count":
            op = {"op": "grouped", "f": "count", "gid": gid}
            cases.append((op, (lambda g=g: A.grouped_count(g)), corr.eq_ints))
        elif f == "sum_by_p_id":
            pid = rnd.sample(range(0, 4 * n + 5), n)
            if rnd.random() < 0.6:
                pid[rnd.randrange(n)] = 0 if 0 not in pid else pid[0]
            ptr = [rnd.choice(pid) if rnd.random() < 0.6 else -1 for _ in range(n)]
            if rnd.random() < 0.06:
                ptr[rnd.randrange(n)] = max(pid) + 1  # missing receiver
            if rnd.random() < 0.05:
                ptr[rnd.randrange(n)] = -2
            col = [_dyadic(rnd) for _ in range(n)]
            op = {"op": "sum_by_p_id", "col": [corr.fstr(c) for c in col], "ptr": ptr, "p_id": pid}
            cases.append((op, (lambda col=col, ptr=ptr, pid=pid: A.sum_by_p_id(
                np.asarray(col, dtype="float64"), np.asarray(ptr, dtype="int64"),
                np.asarray(pid, dtype="int64"))), corr.eq_exact_rats))
        else:  # join
            pk = rnd.sample(range(0, 4 * n + 5), n)
            if rnd.random() < 0.06 and n > 1:
                pk[0] = pk[1]
            fk = [rnd.choice(pk) if rnd.random() < 0.6 else -1 for _ in range(rnd.randint(1, n + 2))]
            if rnd.random() < 0.06:
                fk[0] = max(pk) + 1
            tgt = [_dyadic(rnd) for _ in range(n)]
            dflt = _dyadic(rnd)
            op = {"op": "join", "fk": fk, "pk": pk, "target": [corr.fstr(c) for c in tgt],
                  "dflt": corr.fstr(dflt)}
            cases.append((op, (lambda fk=fk, pk=pk, tgt=tgt, dflt=dflt: join_numpy(
                np.asarray(fk, dtype="int64"), np.asarray(pk, dtype="int64"),
                np.asarray(tgt, dtype="float64"), dflt)), corr.eq_exact_rats))
    return cases


def primitive_oracle(run, cases):
    """The property itself on the real primitives: result == independent definition."""
    from fractions import Fraction as F
    for op, thunk, _ in cases:
        kind, val = corr.real_call(thunk)
        if kind != "ok":
            continue
        try:
            if op["op"] == "grouped":
                if any(g < 0 for g in op["gid"]) or len(op["gid"]) != len(op.get("col", op["gid"])):
                    continue
                col = op.get("col")
                if col is not None and op["f"] not in ("any", "all"):
                    col = [F(c) for c in col]
                ref = reference_group(op["f"], col, op["gid"])
            elif op["op"] == "sum_by_p_id":
                ref = reference_pid([F(c) for c in op["col"]], op["ptr"], op["p_id"])
            elif op["op"] == "join":
                tgt = [F(c) for c in op["target"]]
                ref = [tgt[op["pk"].index(k)] if k in op["pk"] else F(op["dflt"]) for k in op["fk"]]
            else:
                continue
        except Exception:  # noqa: BLE001  (reference undefined on faulty input)
            continue
        ok = len(ref) == len(val) and all(
            abs(float(a) - float(b)) <= 2.0**-40 * max(1.0, abs(float(b))) for a, b in zip(val, ref))
        if not ok:
            run.hit({"node": "primitive:" + op.get("f", op["op"]), "kind": "aggregate-differs-from-definition"},
                    f"real {op['op']} {op.get('f', '')} differs from its mathematical definition",
                    {"call": op, "expected": [str(x) for x in ref], "observed": [str(x) for x in val]})


# ---------------------------------------------------------------------------------
# search on the real graph: every aggregation node vs. an independent reference
# ---------------------------------------------------------------------------------


def reference_group(aggr, src, gid):
    groups: dict = {}
    for i, g in enumerate(gid):
        groups.setdefault(g, []).append(i)
    out = [None] * len(gid)
    for g, idx in groups.items():
        vals = [src[i] for i in idx] if src is not None else None
        if aggr == "sum":
            v = 0
            for x in vals:
                v = v + (int(x) if isinstance(x, (bool, np.bool_)) else x)
        elif aggr == "mean":
            v = sum(vals) / len(vals)
        elif aggr == "max":
            v = max(vals)
        elif aggr == "min":
            v = min(vals)
        elif aggr == "any":
            v = any(bool(x) for x in vals)
        elif aggr == "all":
            v = all(bool(x) for x in vals)
        elif aggr == "count":
            v = len(idx)
        else:
            raise ValueError(aggr)
        for i in idx:
            out[i] = v
    return out


def reference_pid(src, ptr, pid):
    pos = {}
    for i, p in enumerate(pid):
        pos[p] = i
    out = [0] * len(pid)
    for i, r in enumerate(ptr):
        if r >= 0:
            out[pos[r]] = out[pos[r]] + (int(src[i]) if isinstance(src[i], (bool, np.bool_)) else src[i])
    return out


def graph_search(run, rnd, dates, n_pops):
    from _gettsim.config import SUPPORTED_GROUPINGS
    from _gettsim.functions_loader import load_aggregation_dict
    from _gettsim.shared import remove_group_suffix

    by_group = load_aggregation_dict("aggregate_by_group")
    by_pid = load_aggregation_dict("aggregate_by_p_id")
    checked = {}
    for date in dates:
        dag, fno = popgen.graph(date)
        rules = popgen.env(date)[1]
        for k in range(n_pops):
            df, kinds = popgen.population(rnd, date)
            # "no person" is any negative pointer: survey data use several codes (-1 not applicable, -2 unknown, …) in the
            # pointer columns that are not foreign keys into the household (recipient of child benefit, payer of child care)
            if k % 2 == 1:
                df = df.copy()
                for c in ("p_id_kindergeld_empf", "p_id_erziehgeld_empf", "p_id_betreuungsk_träger"):
                    if c in df.columns:
                        # … also for some rows that have a recipient (recipient unknown / outside the sample)
                        df[c] = [rnd.choice([-2, -3, -7, v]) if (v < 0 or rnd.random() < 0.3) else v for v in df[c]]
            res = popgen.simulate_all(df, date)
            cols = {c: res[c].to_numpy() for c in res.columns}
            for n in dag.nodes:
                if n not in fno or n in rules or n.endswith("_id"):
                    continue
                spec = None
                if n in by_pid:
                    s = by_pid[n]
                    if s["source_col"] not in cols:
                        continue
                    ref = reference_pid(cols[s["source_col"]], cols[s["p_id_to_aggregate_by"]], cols["p_id"])
                    spec = ("p_id", s)
                else:
                    g = next((g for g in SUPPORTED_GROUPINGS if n.endswith(f"_{g}")), None)
                    if g is None:
                        continue  # time conversion
                    s = by_group.get(n)
                    if s is None:
                        src = remove_group_suffix(n)
                        if src not in cols:
                            continue  # a time-converted group column
                        s = {"aggr": "sum", "source_col": src}
                    if s["aggr"] != "count" and s["source_col"] not in cols:
                        continue
                    ref = reference_group(s["aggr"], cols.get(s.get("source_col")), cols[f"{g}_id"])
                    spec = (g, s)
                run.case({"node": n, "date": date, "pop": k, "v": [str(x) for x in ref]})
                checked[n] = checked.get(n, 0) + 1
                if not popgen.close(cols[n], np.asarray(ref)):
                    run.hit({"node": n, "kind": "aggregate-differs-from-definition"},
                            f"aggregation node {n} ({spec}) differs from its definition at {date}",
                            {"date": date, "data": popgen.frame_to_json(df), "node": n,
                             "expected": [str(x) for x in ref], "observed": [str(x) for x in cols[n]]})
    run.extra["aggregation_nodes_checked"] = {"count": len(checked), "names": sorted(checked)[:400]}


# ---------------------------------------------------------------------------------
# precedence of specifications (toy systems through the real interface)
# ---------------------------------------------------------------------------------


def precedence_search(run, rnd, n):
    from gettsim import compute_taxes_and_transfers

    def base_m(x: float) -> float:
        return x * 2.0

    def other(x: float) -> float:
        return x + 1.0

    for k in range(n):
        m = rnd.randint(2, 7)
        hh = [rnd.randint(0, 3) for _ in range(m)]
        x = [float(rnd.randint(0, 20)) for _ in range(m)]
        df = pd.DataFrame({"p_id": list(range(m)), "hh_id": hh, "x": x})
        src = {"base_m": [2 * v for v in x], "other": [v + 1 for v in x]}
        with warnings.catch_warnings():
            warnings.simplefilter("ignore")
            # (a) automatic sum
            r = compute_taxes_and_transfers(df, {}, [base_m, other], targets=["base_m_hh"])
            exp = reference_group("sum", src["base_m"], hh)
            run.case({"prec": "auto", "hh": hh, "x": x})
            if not popgen.close(r["base_m_hh"], np.asarray(exp)):
                run.hit({"node": "toy:auto-sum", "kind": "precedence"},
                        "automatic group sum differs from the sum over the group",
                        {"data": popgen.frame_to_json(df), "expected": exp,
                         "observed": r["base_m_hh"].tolist()})
            # (b) user spec overrides the automatic sum
            aggr = rnd.choice(["max", "min", "mean", "sum", "count"])
            spec = {"base_m_hh": {"aggr": aggr, "source_col": "other"}}
            r = compute_taxes_and_transfers(df, {}, [base_m, other], targets=["base_m_hh"],
                                            aggregate_by_group_specs=spec)
            exp = reference_group(aggr, src["other"], hh)
            run.case({"prec": "user", "aggr": aggr, "hh": hh, "x": x})
            if not popgen.close(np.asarray(r["base_m_hh"], dtype=float), np.asarray(exp, dtype=float)):
                run.hit({"node": "toy:user-spec", "kind": "precedence"},
                        "user aggregation spec does not take precedence over the automatic sum",
                        {"data": popgen.frame_to_json(df), "spec": spec, "expected": exp,
                         "observed": r["base_m_hh"].tolist()})
            # (c) an explicit rule of that name wins over any automatic sum

            def base_m_hh(x: float) -> float:
                return x - 5.0

            r = compute_taxes_and_transfers(df, {}, [base_m, other, base_m_hh], targets=["base_m_hh"])
            run.case({"prec": "rule", "hh": hh, "x": x})
            if not popgen.close(r["base_m_hh"], np.asarray([v - 5 for v in x])):
                run.hit({"node": "toy:rule-over-auto", "kind": "precedence"},
                        "an explicit rule named like a group column is replaced by an automatic sum",
                        {"data": popgen.frame_to_json(df), "observed": r["base_m_hh"].tolist()})
            # (d) user spec overrides a built-in spec
            df2, _ = popgen.population(rnd, "2023-07-01", n_clusters=2)
            res0 = popgen.simulate(df2, "2023-07-01", targets=["anz_personen_hh"])
            res1 = popgen.simulate(df2, "2023-07-01", targets=["anz_personen_hh"],
                                   aggregate_by_group_specs={"anz_personen_hh": {"aggr": "max", "source_col": "alter"}})
            exp = reference_group("max", df2["alter"].tolist(), df2["hh_id"].tolist())
            run.case({"prec": "user-over-builtin", "pop": k})
            if not popgen.close(res1["anz_personen_hh"], np.asarray(exp)):
                run.hit({"node": "anz_personen_hh", "kind": "precedence"},
                        "user aggregation spec does not override the built-in one",
                        {"data": popgen.frame_to_json(df2), "expected": exp,
                         "observed": res1["anz_personen_hh"].tolist()})
            exp0 = reference_group("count", None, df2["hh_id"].tolist())
            if not popgen.close(res0["anz_personen_hh"], np.asarray(exp0)):
                run.hit({"node": "anz_personen_hh", "kind": "aggregate-differs-from-definition"},
                        "built-in count differs from the group size",
                        {"data": popgen.frame_to_json(df2), "expected": exp0,
                         "observed": res0["anz_personen_hh"].tolist()})


def run(tier: str) -> int:
    r = common.Run("C11", tier)
    quick = tier == "quick"
    r.rule = ("T2: random unsorted sparse ids (0 included, negative and length faults injected), dyadic "
              "values so float sums are exact; distinct = distinct op JSON. Search: every aggregation "
              "node of the default graph vs. an independent per-group / per-pointer reference on random "
              "valid populations; toy systems for the precedence auto < built-in < user.")
    common.build_and_audit(r, ["C11", "C11Sim", "SimSpecs"], leanchecker=not quick)
    rnd = common.rng("C11")
    # corpus first
    cases = agg_cases(rnd, 300 if quick else 6000)
    bad = corr.run_cases(r, "aggregation primitives vs Core/Agg.lean", cases)
    primitive_oracle(r, cases)
    for b in bad[:3]:
        r.sample({"disagreement": b})
    graph_search(r, rnd, popgen.DATES_QUICK if quick else popgen.DATES_2015, 6 if quick else 25)
    precedence_search(r, rnd, 4 if quick else 40)
    r.sample({"op": "grouped", "f": "sum", "col": ["1/2", "2", "3"], "gid": [5, 0, 5], "result": ["7/2", "2", "7/2"]})
    return r.finish()


def replay(path: str) -> int:
    d = json.load(open(path))
    if "call" in d:
        r = common.Run("C11", "quick")
        case = [c for c in agg_cases(common.rng("C11"), 0)]
        print("replay of a primitive call: run the call in d['call'] against the real function")
        return 1
    df = popgen.frame_from_json(d["data"])
    res = popgen.simulate_all(df, d["date"])
    ok = [str(x) for x in res[d["node"]].to_numpy()] == d["expected"]
    print("replay:", "property holds on this input now" if ok else "still fails")
    return 0 if ok else 1
