"""Translator, part 3: selected rules as *shallow* Lean definitions over ℚ / Bool.

Each rule `f(a: float, b: bool, g_params) -> float` becomes
`def «f» (a : Rat) (b : Bool) (p_g_x_y : Rat) … : Rat` — one extra argument per static
parameter path `g_params["x"]["y"]`.  Statements are translated by continuation
(`if` duplicates the rest), which is exact for the restricted style.  The generated
definitions are compared with the repo's source on exact rationals by `t1_shallow`.
"""

from __future__ import annotations

import ast
import re

import extract
import ruleir
from emit_lean import HEADER, lrat, lstr

LEAN_TY = {"float": "Rat", "int": "Rat", "bool": "Bool"}


class Unsupported(Exception):
    pass


def q(name: str) -> str:
    return f"«{name}»"


def path_var(group: str, keys) -> str:
    return "p_" + group + "_" + "_".join(re.sub(r"\W", "_", str(k)) for k in keys)


class Ctx:
    def __init__(self, entry):
        self.entry = entry
        self.types = {a: (entry["arg_types"].get(a) or "float") for a in entry["args"]}
        self.params: dict[str, tuple] = {}

    def param(self, group, keys):
        v = path_var(group, keys)
        self.params[v] = (group, tuple(keys))
        return v


def static_path(node):
    keys = []
    cur = node
    while isinstance(cur, ast.Subscript) and isinstance(cur.slice, ast.Constant):
        keys.append(cur.slice.value)
        cur = cur.value
    if isinstance(cur, ast.Name) and cur.id.endswith("_params") and keys:
        return cur.id[:-7], list(reversed(keys))
    return None


def expr(n, ctx: Ctx, env: dict) -> tuple[str, str]:
    """-> (lean text, type 'Rat'|'Bool')"""
    if isinstance(n, ast.Constant):
        if isinstance(n.value, bool):
            return ("true" if n.value else "false"), "Bool"
        if isinstance(n.value, (int, float)):
            return lrat(extract.Fraction(repr(n.value))), "Rat"
        raise Unsupported(f"constant {n.value!r}")
    if isinstance(n, ast.Name):
        if n.id in env:
            return env[n.id]
        raise Unsupported(f"name {n.id}")
    if isinstance(n, ast.Subscript):
        sp = static_path(n)
        if sp:
            return ctx.param(*sp), "Rat"
        raise Unsupported("dynamic subscript")
    if isinstance(n, ast.BinOp) and type(n.op) in (ast.Add, ast.Sub, ast.Mult, ast.Div):
        a, ta = expr(n.left, ctx, env)
        b, tb = expr(n.right, ctx, env)
        a = f"(if {a} then (1 : Rat) else 0)" if ta == "Bool" else a
        b = f"(if {b} then (1 : Rat) else 0)" if tb == "Bool" else b
        op = {ast.Add: "+", ast.Sub: "-", ast.Mult: "*", ast.Div: "/"}[type(n.op)]
        return f"({a} {op} {b})", "Rat"
    if isinstance(n, ast.UnaryOp):
        a, ta = expr(n.operand, ctx, env)
        if isinstance(n.op, ast.USub) and ta == "Rat":
            return f"(-{a})", "Rat"
        if isinstance(n.op, ast.Not) and ta == "Bool":
            return f"(!{a})", "Bool"
        raise Unsupported("unary")
    if isinstance(n, ast.Compare):
        parts = []
        left = n.left
        for op, right in zip(n.ops, n.comparators):
            a, ta = expr(left, ctx, env)
            b, tb = expr(right, ctx, env)
            sym = {ast.Lt: "<", ast.LtE: "≤", ast.Gt: ">", ast.GtE: "≥", ast.Eq: "=", ast.NotEq: "≠"}.get(type(op))
            if sym is None or ta != tb:
                raise Unsupported("compare")
            parts.append(f"decide ({a} {sym} {b})")
            left = right
        return "(" + " && ".join(parts) + ")", "Bool"
    if isinstance(n, ast.BoolOp):
        vals = [expr(v, ctx, env) for v in n.values]
        if any(t != "Bool" for _, t in vals):
            raise Unsupported("and/or on non-bool")
        op = " && " if isinstance(n.op, ast.And) else " || "
        return "(" + op.join(v for v, _ in vals) + ")", "Bool"
    if isinstance(n, ast.IfExp):
        c, tc = expr(n.test, ctx, env)
        a, ta = expr(n.body, ctx, env)
        b, tb = expr(n.orelse, ctx, env)
        if tc != "Bool" or ta != tb:
            raise Unsupported("ifexp")
        return f"(if {c} then {a} else {b})", ta
    if isinstance(n, ast.Call) and isinstance(n.func, ast.Name) and n.func.id in ("max", "min") and len(n.args) == 2 \
            and not n.keywords:
        a, ta = expr(n.args[0], ctx, env)
        b, tb = expr(n.args[1], ctx, env)
        if ta != "Rat" or tb != "Rat":
            raise Unsupported("max/min")
        return f"({n.func.id} {a} {b})", "Rat"
    if isinstance(n, ast.Call) and isinstance(n.func, ast.Name) and n.func.id == "float" and len(n.args) == 1:
        return expr(n.args[0], ctx, env)
    raise Unsupported(type(n).__name__)


def block(stmts, ctx: Ctx, env: dict, depth=1) -> tuple[str, str]:
    ind = "  " * depth
    if not stmts:
        raise Unsupported("falls off the end")
    s, rest = stmts[0], stmts[1:]
    if isinstance(s, ast.Expr) and isinstance(s.value, ast.Constant):
        return block(rest, ctx, env, depth)
    if isinstance(s, ast.Return):
        return expr(s.value, ctx, env)
    if isinstance(s, ast.Assign) and len(s.targets) == 1 and isinstance(s.targets[0], ast.Name):
        v, t = expr(s.value, ctx, env)
        name = s.targets[0].id
        body, tb = block(rest, ctx, {**env, name: (q("v_" + name), t)}, depth)
        return f"let {q('v_' + name)} : {t} := {v}\n{ind}{body}", tb
    if isinstance(s, ast.AugAssign) and isinstance(s.target, ast.Name) and type(s.op) in (ast.Add, ast.Sub, ast.Mult, ast.Div):
        name = s.target.id
        if name not in env:
            raise Unsupported("augassign of unbound name")
        v, t = expr(ast.BinOp(left=ast.Name(id=name), op=s.op, right=s.value), ctx, env)
        body, tb = block(rest, ctx, {**env, name: (q("v_" + name), t)}, depth)
        return f"let {q('v_' + name)} : {t} := {v}\n{ind}{body}", tb
    if isinstance(s, ast.If):
        c, tc = expr(s.test, ctx, env)
        if tc != "Bool":
            raise Unsupported("if on non-bool")
        a, ta = block(list(s.body) + rest, ctx, env, depth + 1)
        b, tb = block(list(s.orelse) + rest, ctx, env, depth + 1)
        if ta != tb:
            raise Unsupported("branches of different type")
        return f"if {c} then\n{ind}  {a}\n{ind}else\n{ind}  {b}", ta
    raise Unsupported(type(s).__name__)


def emit_rule(entry) -> dict:
    node = extract.source_of(entry)
    ctx = Ctx(entry)
    env = {}
    args = []
    for a in entry["args"]:
        if a.endswith("_params"):
            continue
        t = LEAN_TY.get(ctx.types[a])
        if t is None:
            raise Unsupported(f"argument type {ctx.types[a]}")
        env[a] = (q(a), t)
        args.append((a, t))
    body, tret = block(list(node.body), ctx, env)
    pars = sorted(ctx.params)
    sig = " ".join(f"({q(a)} : {t})" for a, t in args) + "".join(f" ({p} : Rat)" for p in pars)
    text = f"/-- {entry['module']}.{entry['fname']} (as `{entry['dag']}`, {entry['start_iso']} … {entry['stop_iso']}) -/\n" \
           f"def {q(entry['fname'])} {sig} : {tret} :=\n  {body}\n"
    return {"text": text, "args": args, "params": [(p, ctx.params[p]) for p in pars], "ret": tret, "fname": entry["fname"]}


def emit_module(modname: str, fnames: list[str]) -> tuple[str, dict]:
    reg = {e["fname"]: e for e in extract.registry()}
    out, meta, skipped = [], {}, {}
    for f in fnames:
        if f not in reg:
            skipped[f] = "not in the tree"
            continue
        try:
            r = emit_rule(reg[f])
            out.append(r["text"])
            meta[f] = r
        except Unsupported as e:
            skipped[f] = str(e)
    # dispatcher for the correspondence runs
    cases = []
    for f, r in meta.items():
        nums = [a for a, t in r["args"] if t == "Rat"] + [p for p, _ in r["params"]]
        bools = [a for a, t in r["args"] if t == "Bool"]
        call = " ".join(
            [("(ns.getD %d 0)" % (nums.index(a)) if t == "Rat" else "(bs.getD %d false)" % bools.index(a)) for a, t in r["args"]]
            + ["(ns.getD %d 0)" % nums.index(p) for p, _ in r["params"]])
        wrap = "Sum.inl" if r["ret"] == "Rat" else "Sum.inr"
        cases.append(f"  | {lstr(f)} => some ({wrap} ({q(f)} {call}))")
    # the same rules wired by NAME: every argument is read from an environment under the argument's own name, the way
    # the dependency graph connects the rules; `Consistent` says that the environment holds, under each rule's column
    # name, what the rule returns.  Theorems stated on these follow the wiring of the CURRENT source (a rule that reads
    # another column than its partner rule no longer unifies with it).
    wired, fields = [], []
    for f, r in meta.items():
        call = " ".join([(f"(ρ {lstr(a)})" if t == "Rat" else f"(β {lstr(a)})") for a, t in r["args"]]
                        + [f"(ρ {lstr(p)})" for p, _ in r["params"]])
        wired.append(f"/-- `{f}` with its arguments taken from the columns of their names -/\n"
                     f"def {q(f)}.w (ρ : String → Rat) (β : String → Bool) : {r['ret']} := {q(f)} {call}\n")
        dag = reg[f]["dag"]
        fields.append(f"  {q(f)} : {'ρ' if r['ret'] == 'Rat' else 'β'} {lstr(dag)} = {q(f)}.w ρ β")
    wired_text = "\n/-! ### wiring by argument name -/\nset_option linter.unusedVariables false\n\n" + "\n".join(wired) + \
        "\n/-- the environment holds, under every modelled rule's column name, the value the rule returns for the columns it reads -/\n" \
        "structure Consistent (ρ : String → Rat) (β : String → Bool) : Prop where\n" + "\n".join(fields) + "\n"
    out = out + [wired_text]
    text = HEADER + f"import GettsimVerif.Core.Basic\nnamespace GV.Gen.{modname}\n\n" + "\n".join(out) + \
        "\n/-- evaluation by name for the correspondence runs: rational arguments (then parameter paths) and Boolean arguments in order -/\n" \
        "def dispatch (name : String) (ns : List Rat) (bs : List Bool) : Option (Sum Rat Bool) :=\n  match name with\n" + \
        "\n".join(cases) + "\n  | _ => none\n" + \
        f"\ndef skipped : List (String × String) := [{', '.join('(' + lstr(k) + ', ' + lstr(v) + ')' for k, v in skipped.items())}]\n" \
        f"\nend GV.Gen.{modname}\n"
    return text, {"rules": meta, "skipped": skipped}


C17_RULES = [
    "arbeitsl_geld_2_m_bg", "arbeitsl_geld_2_vor_vorrang_m_bg", "wohngeld_vorrang_bg", "kinderzuschl_vorrang_bg",
    "wohngeld_kinderzuschl_vorrang_bg", "kinderzuschl_m_bg", "wohngeld_m_wthh", "grunds_im_alter_m_eg",
    "erwachsene_alle_rentner_hh", "erwachsen",
]


def emit_c17() -> str:
    return emit_module("RulesC17", C17_RULES)[0]


FILES = {"RulesC17.lean": emit_c17}
