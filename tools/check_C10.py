"""C10 — statutory rounding is applied exactly once, on the right grid."""

from __future__ import annotations

import datetime
import inspect
import json
import math
import warnings
from fractions import Fraction

import numpy as np
import pandas as pd

import common
import corr
import emit_lean
import extract
import popgen


# ---------------------------------------------------------------------------------
# T2: the wrapper and the loader's spec selection vs. the Lean models
# ---------------------------------------------------------------------------------


def wrapper_cases(rnd, n):
    from _gettsim.interface import _add_rounding_to_functions

    cases = []
    for _ in range(n):
        base = rnd.choice([1, 1, 2, 5, 36, 0.5, 0.25, 0.125, 10, 100])
        direction = rnd.choice(["up", "down", "nearest", "nearest", "sideways"])
        off = rnd.choice([None, None, 0, 18, 0.5, -3])
        xs = []
        for _ in range(rnd.randint(1, 6)):
            k = rnd.randint(-40, 40)
            xs.append(rnd.choice([k * base, k * base + base / 2, k * base + base / 4,
                                  k * base - base / 8, rnd.randint(-5000, 5000) / 8]))
        mode = rnd.choice(["full", "full", "full", "nospec", "nobase", "nodir", "off", "nokey"])
        spec = {}
        if mode != "nospec":
            spec = {"base": base, "direction": direction}
            if off is not None:
                spec["to_add_after_rounding"] = off
            if mode == "nobase":
                del spec["base"]
            if mode == "nodir":
                del spec["direction"]

        def f(x):
            return x

        f.__info__ = {} if mode == "nokey" else {"params_key_for_rounding": "grp"}
        params = {"grp": {"rounding": {} if mode == "nospec" else {"f": spec}}}
        rounding = mode != "off"
        op = {"op": "round", "x": [corr.fstr(x) for x in xs], "rounding": rounding,
              "has_key": mode != "nokey", "has_spec": mode != "nospec",
              "base": None if "base" not in spec else corr.fstr(spec["base"]),
              "direction": spec.get("direction"),
              "off": None if "to_add_after_rounding" not in spec else corr.fstr(spec["to_add_after_rounding"])}

        def thunk(f=f, params=params, xs=xs, rounding=rounding):
            fs = _add_rounding_to_functions({"f": f}, params) if rounding else {"f": f}
            return fs["f"](np.asarray(xs, dtype="float64"))

        cases.append((op, thunk, corr.eq_exact_rats))
    return cases


def loader_cases(run, ordinals):
    """rounding part of the Lean environment vs. the real one, and vs. the raw YAML."""
    import paramsio

    models = paramsio.model_envs(ordinals)
    entries = emit_lean.rounding_entries()
    bad = 0
    for o, (kind, env) in zip(ordinals, models):
        d = datetime.date.fromordinal(o)
        real, _ = paramsio.real_params(d)
        run.case({"loader": d.isoformat()})
        run.traces += 1
        if kind != "ok":
            run.broke("correspondence", f"rounding specs, Lean loader vs code at {d}", str(env))
            bad += 1
            continue
        for g in real:
            r_real = real[g].get("rounding", {})
            r_model = env.get(g, {}).get("rounding", {})
            diffs = paramsio.diff_tree(r_real, r_model, f"[{g}]['rounding']")
            if diffs:
                bad += 1
                run.broke("correspondence", f"rounding specs, Lean loader vs code at {d}", "; ".join(diffs[:4]))
            # the property on the real loader: the spec in force is the latest YAML entry, complete
            for fn in {e["fn"] for e in entries if e["group"] == g}:
                past = [e for e in entries if e["group"] == g and e["fn"] == fn and e["date"] <= o]
                if not past:
                    if fn in r_real:
                        run.hit({"rule": fn, "kind": "spec-before-first-entry"},
                                f"{fn} has a rounding spec at {d} before its first YAML entry",
                                {"date": d.isoformat(), "observed": str(r_real[fn])})
                    continue
                e = max(past, key=lambda e: e["date"])
                exp = {k: v for k, v in (("base", e["base"]), ("direction", e["direction"]),
                                         ("to_add_after_rounding", e["off"])) if v is not None}
                got = r_real.get(fn)
                same = got is not None and set(got) == set(exp) and all(
                    (got[k] == exp[k]) if isinstance(exp[k], str) else Fraction(repr(got[k])) == Fraction(exp[k])
                    for k in exp)
                if not same:
                    run.hit({"rule": fn, "kind": "loaded-spec-differs-from-yaml"},
                            f"rounding spec of {fn} at {d}: loader delivers {got}, the YAML entry of "
                            f"{e['iso']} says {exp}",
                            {"date": d.isoformat(), "group": g, "expected": str(exp), "observed": str(got)})
    run.extra.setdefault("correspondence", {})["rounding specs: loader model vs code vs YAML"] = {
        "dates": len(ordinals), "disagreements": bad}


# ---------------------------------------------------------------------------------
# search on the real system
# ---------------------------------------------------------------------------------


def on_grid(r, x, base, direction, off):
    """Oracle from the *real unrounded float* x (tolerances absorb float noise only)."""
    k = (r - off) / base
    tol = 1e-9
    if abs(k - round(k)) > tol * max(1.0, abs(k)):
        return "not on the grid"
    e = (r - off) - x
    slack = tol * max(1.0, abs(x)) + 1e-9 * base
    if direction == "up" and not (-slack <= e < base + slack):
        return "not rounded up"
    if direction == "down" and not (-base - slack < e <= slack):
        return "not rounded down"
    if direction == "nearest" and abs(e) > base / 2 + slack:
        return "not rounded to the nearest grid point"
    if abs(e) >= base + slack:
        return "error of a full step or more"
    return None


def wrapper_rowwise(run, rnd, n_cols):
    """The real wrapper on float columns for every statutory (base, direction, offset) and decimal bases: each row's
    result is on the grid / within the bounds (float oracle `on_grid`) and does not depend on the other rows of the
    column (the value for a row computed alone is bit-identical)."""
    from _gettsim.interface import _add_rounding_to_functions

    specs = {(float(e["base"]), e["direction"], float(e["off"] or 0)) for e in emit_lean.rounding_entries()
             if isinstance(e["base"], (int, float, Fraction)) and isinstance(e["direction"], str)}
    specs |= {(b, d, 0.0) for b in (0.01, 0.05, 0.1, 1.0, 36.0) for d in ("up", "down", "nearest")}
    stats = {"columns": 0, "rows": 0}
    for base, direction, off in sorted(specs):
        def f(x):
            return x

        f.__info__ = {"params_key_for_rounding": "grp"}
        spec = {"base": base, "direction": direction}
        if off:
            spec["to_add_after_rounding"] = off
        g = _add_rounding_to_functions({"f": f}, {"grp": {"rounding": {"f": spec}}})["f"]
        for _ in range(n_cols):
            kind = rnd.choice(["grid", "mixed", "mixed", "offgrid"])
            xs = []
            for _ in range(rnd.randint(1, 7)):
                k = rnd.randint(0, 200000)
                on = round(k * base, 6)
                offg = rnd.choice([k * base + base * rnd.random(), rnd.uniform(0, 5000), 827.1552, on + base / 3])
                xs.append(on if kind == "grid" or (kind == "mixed" and rnd.random() < 0.5) else offg)
            col = np.asarray(xs, dtype="float64")
            ok, out = run.attempt(f"rounding wrapper base={base} {direction}", lambda: np.asarray(g(col.copy()), dtype="float64"))
            if not ok:
                continue
            stats["columns"] += 1
            run.case({"rowwise": [base, direction, off], "col": [repr(float(x)) for x in xs]})
            for i, x in enumerate(xs):
                stats["rows"] += 1
                alone = float(np.asarray(g(np.asarray([x], dtype="float64")))[0])
                if alone != float(out[i]):
                    run.hit({"kind": "rounded-value-depends-on-other-rows", "base": base, "direction": direction},
                            f"rounding {x!r} to base {base} ({direction}) gives {float(out[i])!r} inside the column {xs} but "
                            f"{alone!r} alone", {"base": base, "direction": direction, "offset": off, "column": xs, "row": i})
                    break
                why = on_grid(float(out[i]), float(x), base, direction, off)
                if why:
                    run.hit({"kind": "wrapper-result-" + why.replace(" ", "-"), "base": base, "direction": direction},
                            f"rounding {x!r} to base {base} ({direction}, offset {off}) gives {float(out[i])!r}: {why}",
                            {"base": base, "direction": direction, "offset": off, "column": xs, "row": i})
                    break
    run.extra["wrapper_rowwise"] = {**stats, "specs": len(specs)}


def raw_rule_value(date, name, cols):
    params, functions = popgen.env(date)
    f = functions[name]
    kwargs = {}
    for a in inspect.signature(f).parameters:
        kwargs[a] = params[a[:-7]] if a.endswith("_params") else cols[a]
    if getattr(f, "__info__", {}).get("skip_vectorization"):
        return np.asarray(f(**kwargs), dtype=float)
    vec = np.vectorize(f, otypes=[float])
    data = {k: v for k, v in kwargs.items() if not k.endswith("_params")}
    fixed = {k: v for k, v in kwargs.items() if k.endswith("_params")}
    return vec(**data, **fixed) if data else np.full(len(next(iter(cols.values()))), float(f(**fixed)))


OLD_TARGETS = ("eink_st_y_sn", "zu_verst_eink_y_sn")


def system_search(run, rnd, dates, n_pops):
    entries = emit_lean.rounding_entries()
    seen_rules = run.extra.setdefault("rounded_rules_checked", {})
    for date in dates:
        o = datetime.date.fromisoformat(date).toordinal()
        base_targets = None if date >= "2015" else OLD_TARGETS
        dag, fno = popgen.graph(date, base_targets)
        _, functions = popgen.env(date)
        rounded = [n for n in dag.nodes if n in functions
                   and "params_key_for_rounding" in getattr(functions[n], "__info__", {})]
        nodes = popgen.computed_nodes(date, base_targets)
        derived_of = {}
        for n in nodes:
            if n in functions:
                continue
            args = list(inspect.signature(fno[n]).parameters)
            for a in args:
                if a in rounded:
                    derived_of.setdefault(a, []).append(n)
        for k in range(n_pops):
            df, kinds = popgen.population(rnd, date)
            # put some incomes on / next to grid points
            n_broken0 = len(run.broken)
            ok1, on = run.attempt(f"simulate(rounding=True) at {date}", popgen.simulate_all, df, date,
                                  base_targets, rounding=True, replay={"date": date, "data": popgen.frame_to_json(df)})
            ok2, off = run.attempt(f"simulate(rounding=False) at {date}", popgen.simulate_all, df, date,
                                   base_targets, rounding=False)
            if date < "2015" and not (ok1 and ok2):
                # completeness of the system for every valid population is only claimed from 2015-01-01 on (C08): at
                # earlier dates a population the rules cannot handle (a household of 8, a birth year missing from a table)
                # is not a rounding problem -- unless the error is about a rounding specification
                bad = [x for x in (on, off) if isinstance(x, Exception)]
                if not any("ounding" in str(x) for x in bad):
                    del run.broken[n_broken0:]
                    continue
            if not ok1 and isinstance(on, KeyError) and "Rounding specifications" in str(on):
                run.hit({"rule": "derived", "kind": "rounding-key-without-spec"},
                        f"the system asks for a rounding specification that does not exist at {date}: "
                        f"{str(on)[:300]}", {"date": date, "data": popgen.frame_to_json(df)})
            if not (ok1 and ok2):
                break
            cols_on = {c: on[c].to_numpy() for c in on.columns}
            cols_off = {c: off[c].to_numpy() for c in off.columns}
            for n in rounded:
                key = functions[n].__info__["params_key_for_rounding"]
                past = [e for e in entries if e["group"] == key and e["fn"] == n and e["date"] <= o]
                if not past:
                    continue
                e = max(past, key=lambda e: e["date"])
                base, direction, offs = float(e["base"]), e["direction"], float(e["off"] or 0)
                try:
                    raw_on = raw_rule_value(date, n, cols_on)
                    raw_off = raw_rule_value(date, n, cols_off)
                except Exception as ex:  # noqa: BLE001
                    run.extra.setdefault("rules_not_recomputed", {})[n] = f"{type(ex).__name__}: {ex}"[:200]
                    continue
                seen_rules[n] = seen_rules.get(n, 0) + 1
                run.case({"rule": n, "date": date, "x": [repr(float(v)) for v in raw_on[:50]]})
                # rounding disabled: the column is the unrounded value
                if not popgen.close(cols_off[n], raw_off):
                    run.hit({"rule": n, "kind": "rounding-off-not-identity"},
                            f"{n} with rounding=False differs from the unrounded rule value at {date}",
                            {"date": date, "data": popgen.frame_to_json(df), "node": n,
                             "expected": raw_off.tolist(), "observed": cols_off[n].tolist()})
                for i, (r, x) in enumerate(zip(cols_on[n].astype(float), raw_on)):
                    if not math.isfinite(x):
                        continue
                    why = on_grid(float(r), float(x), base, direction, offs)
                    if why:
                        run.hit({"rule": n, "kind": "wrong-rounding"},
                                f"{n} at {date}: unrounded {x!r} became {r!r} ({why}; base {base}, "
                                f"{direction}, offset {offs})",
                                {"date": date, "data": popgen.frame_to_json(df), "node": n, "row": i,
                                 "unrounded": float(x), "observed": float(r),
                                 "spec": {"base": base, "direction": direction, "offset": offs}})
                        break
                # derived columns are not rounded again
                for dn in derived_of.get(n, []):
                    f = fno[dn]
                    args = list(inspect.signature(f).parameters)
                    try:
                        expect = f(**{a: cols_on[a] for a in args})
                    except Exception:  # noqa: BLE001
                        continue
                    run.case({"derived": dn, "of": n, "date": date, "pop": k})
                    if not popgen.close(cols_on[dn], np.asarray(expect)):
                        run.hit({"rule": dn, "kind": "derived-column-rounded-again"},
                                f"{dn} (derived from the rounded column {n}) is not the plain "
                                f"conversion/aggregation of {n} at {date}",
                                {"date": date, "data": popgen.frame_to_json(df), "node": dn,
                                 "expected": np.asarray(expect).tolist(), "observed": cols_on[dn].tolist()})


def missing_spec_search(run):
    """A rule marked for rounding without a specification is an error, not a no-op."""
    from gettsim import compute_taxes_and_transfers
    from _gettsim.shared import policy_info

    @policy_info(params_key_for_rounding="eink_st")
    def verif_rounded_toy(x: float) -> float:
        return x * 1.5

    df = pd.DataFrame({"p_id": [0, 1], "hh_id": [0, 0], "x": [1.25, 2.5]})
    for label, params in (
        ("no rounding block", {"eink_st": {}}),
        ("no entry for the rule", {"eink_st": {"rounding": {}}}),
        ("entry without base", {"eink_st": {"rounding": {"verif_rounded_toy": {"direction": "up"}}}}),
        ("entry without direction", {"eink_st": {"rounding": {"verif_rounded_toy": {"base": 1}}}}),
        ("unknown direction", {"eink_st": {"rounding": {"verif_rounded_toy": {"base": 1, "direction": "sideways"}}}}),
    ):
        run.case({"missing": label})
        try:
            with warnings.catch_warnings():
                warnings.simplefilter("ignore")
                r = compute_taxes_and_transfers(df, params, [verif_rounded_toy], targets=["verif_rounded_toy"])
            run.hit({"rule": "toy", "kind": "missing-spec-silent", "case": label},
                    f"a rule with a rounding key and {label} was computed silently: {r['verif_rounded_toy'].tolist()}",
                    {"params": str(params)})
        except (KeyError, ValueError):
            pass
    # and with a complete spec the toy is rounded (wrapper is attached at all)
    with warnings.catch_warnings():
        warnings.simplefilter("ignore")
        r = compute_taxes_and_transfers(
            df, {"eink_st": {"rounding": {"verif_rounded_toy": {"base": 1, "direction": "up",
                                                                  "to_add_after_rounding": 18}}}},
            [verif_rounded_toy], targets=["verif_rounded_toy", "verif_rounded_toy_y"]
            if False else ["verif_rounded_toy"])
    run.case({"toy": "complete spec"})
    if r["verif_rounded_toy"].tolist() != [20.0, 22.0]:
        run.hit({"rule": "toy", "kind": "wrong-rounding"},
                f"toy rule 1.5x on [1.25, 2.5] with base 1, up, +18 gave {r['verif_rounded_toy'].tolist()}, "
                "expected [20, 22]", {})


def user_rule_presentations_search(run, rnd):
    """A user rule marked for rounding, handed over in every documented way (a callable named like its column, a dict
    column name -> callable whose own name is unrelated, a list mixing both): the column must be on the grid of the spec
    stored under the COLUMN name, its yearly variant must be 12 x the rounded column (not rounded again), and a missing
    spec must be an error in every presentation."""
    import warnings
    import pandas as pd
    from gettsim import compute_taxes_and_transfers
    from _gettsim.shared import policy_info

    df = pd.DataFrame({"p_id": [0, 1, 2, 3], "hh_id": [0, 0, 1, 1], "x": [1.0, 2.49, 1000.26, 0.3]})
    for base, direction, off in ((1.0, "up", 0.0), (0.5, "down", 0.0), (10.0, "nearest", 3.0), (0.01, "nearest", 0.0)):
        def make(name):
            ns = {}
            exec(f"def {name}(x: float) -> float:\n    return x * 1.5\n", ns)  # noqa: S102
            return policy_info(params_key_for_rounding="grp")(ns[name])
        spec = {"base": base, "direction": direction}
        if off:
            spec["to_add_after_rounding"] = off
        params = {"grp": {"rounding": {"r_m": spec}}}
        raw = df["x"].to_numpy() * 1.5
        q = raw / base
        steps = np.ceil(q) if direction == "up" else np.floor(q) if direction == "down" else np.round(q)
        want = base * steps + off
        presentations = {"callable named like the column": [make("r_m")],
                         "dict: column name -> callable with another name": {"r_m": make("impl_rente")},
                         "list containing such a dict": [{"r_m": make("f")}]}
        for label, fns in presentations.items():
            run.case({"user-rule": label, "spec": [base, direction, off]})
            try:
                with warnings.catch_warnings():
                    warnings.simplefilter("ignore")
                    res = compute_taxes_and_transfers(data=df, params=params, functions=fns, targets=["r_m", "r_y"])
            except Exception as ex:  # noqa: BLE001
                run.broke("implementation-raises", f"user rule with a rounding key ({label}): {type(ex).__name__}: {str(ex)[:200]}", "")
                continue
            got = res["r_m"].to_numpy()
            if not np.allclose(got, want, rtol=0, atol=1e-9):
                run.hit({"rule": "user-rule", "kind": "not-rounded-as-specified", "presentation": label},
                        f"a user rule with rounding key 'grp' ({label}; spec base {base}, {direction}, offset {off}) returns "
                        f"{got.tolist()} for the unrounded values {raw.tolist()}: expected {want.tolist()}",
                        {"presentation": label, "spec": spec, "observed": got.tolist(), "expected": want.tolist(), "unrounded": raw.tolist()})
            elif not np.allclose(res["r_y"].to_numpy(), 12 * want, rtol=1e-12, atol=1e-9):
                run.hit({"rule": "user-rule", "kind": "derived-column-rounded-again", "presentation": label},
                        f"r_y is {res['r_y'].tolist()}, not 12 x the rounded r_m {want.tolist()} ({label})",
                        {"presentation": label, "spec": spec})
            # without a specification the call must fail
            try:
                with warnings.catch_warnings():
                    warnings.simplefilter("ignore")
                    compute_taxes_and_transfers(data=df, params={"grp": {"rounding": {}}}, functions=fns, targets=["r_m"])
                run.hit({"rule": "user-rule", "kind": "missing-spec-is-silent", "presentation": label},
                        f"a user rule marked for rounding without a specification is computed silently ({label})",
                        {"presentation": label})
            except Exception:  # noqa: BLE001
                pass


def run(tier: str) -> int:
    r = common.Run("C10", tier)
    quick = tier == "quick"
    r.rule = ("T2: wrapper on grid points, half-way points and off-grid dyadic values x 3 directions x offsets x "
              "missing-spec modes (exact); the wrapper on float columns mixing grid and off-grid amounts for every statutory spec and "
              "decimal bases: float oracle and row independence; loader spec selection at every rounding entry date ±1 day; search: every "
              "rule with a rounding key in the default graph, rounded vs unrounded on random valid populations, "
              "oracle from the real unrounded float; derived columns vs plain conversion of the rounded column")
    emit_lean.regenerate()
    common.build_and_audit(r, ["C10", "C10Sim", "C10Inst"], leanchecker=not quick)
    # the rounding wrapper inside the real interface: toy systems with rounded rules (list and dict presentation of the
    # functions, specs with and without offset, missing / malformed specs) vs Core/Simulate.lean
    import t3
    t3.run_t3(r, 1000 * common.seed() + 10, 60 if quick else 600)
    user_rule_presentations_search(r, common.rng("C10-user"))
    rnd = common.rng("C10")
    corr.run_cases(r, "rounding wrapper vs Core/Round.lean", wrapper_cases(rnd, 300 if quick else 5000))
    wrapper_rowwise(r, rnd, 12 if quick else 150)
    entries = emit_lean.rounding_entries()
    ords = sorted({e["date"] + d for e in entries for d in (-1, 0, 1)})
    if quick:
        ords = sorted(set(rnd.sample(ords, 6)) | {datetime.date(2002, 6, 1).toordinal(),
                                                  datetime.date(2023, 7, 1).toordinal()})
    loader_cases(r, ords)
    missing_spec_search(r)
    system_search(r, rnd, ["2002-06-01"] + popgen.DATES_QUICK if quick else
                  ["2002-06-01", "2003-12-31", "2005-01-01", "2010-01-01"] + popgen.DATES_2015,
                  4 if quick else 20)
    r.sample({"wrapper": {"base": 36, "direction": "down", "offset": 18, "x": 100.0, "result": 90.0}})
    return r.finish()


def replay(path: str) -> int:
    d = json.load(open(path))
    print("replay file:", json.dumps({k: d[k] for k in d if k != "data"}, ensure_ascii=False)[:1500])
    r = common.Run("C10", "quick")
    if "data" in d and "node" in d:
        df = popgen.frame_from_json(d["data"])
        system_search_one = popgen.simulate_all(df, d["date"], rounding=True)
        print("observed now:", system_search_one[d["node"]].tolist()[:20])
    return 1
