"""C09 — rewriting a rule into array form preserves its meaning (or fails loudly)."""

from __future__ import annotations

import ast
import importlib
import importlib.util
import inspect
import json
import math
import os
import sys
import tempfile
import warnings

import numpy as np

import common
import corr
import extract
import popgen
import ruleir
import t1


# ---------------------------------------------------------------------------------
# real functions
# ---------------------------------------------------------------------------------


def real_function(entry):
    mod = importlib.import_module(entry["module"])
    for name, obj in vars(mod).items():
        if inspect.isfunction(obj) and obj.__name__ == entry["fname"] and obj.__module__ == entry["module"]:
            try:
                if inspect.getsourcelines(obj)[1] <= entry["lineno"] + 3 and \
                        inspect.getsourcelines(obj)[1] >= entry["lineno"] - 12:
                    return obj
            except OSError:
                pass
    return getattr(mod, entry["fname"])


def real_transform(func):
    from _gettsim.vectorization import TranslateToVectorizableError, _make_vectorizable_ast

    try:
        tree = _make_vectorizable_ast(func, module="numpy")
    except TranslateToVectorizableError:
        return ("err", "TranslateToVectorizableError")
    except Exception as e:  # noqa: BLE001
        return ("err", "crash:" + type(e).__name__)
    fn = next(n for n in tree.body if isinstance(n, ast.FunctionDef))
    return ("ok", ruleir.fundef(fn))


def model_transform(fundefs: list[dict]):
    outs = common.driver([json.dumps({"op": "transform", "fun": fd}, ensure_ascii=False) for fd in fundefs])
    res = []
    for o in outs:
        j = json.loads(o)
        if "ok" in j:
            res.append(("ok", j["ok"]))
        elif "err" in j:
            e = j["err"]
            res.append(("err", "TranslateToVectorizableError" if e.startswith("Translate") else "crash"))
        else:
            res.append(("bad", j))
    return res


def canon_term(t):
    return json.dumps(t, sort_keys=True, ensure_ascii=False)


# ---------------------------------------------------------------------------------
# random programs in (and slightly outside) the documented style
# ---------------------------------------------------------------------------------


class Gen:
    def __init__(self, rnd):
        self.r = rnd
        self.clean = False      # clean mode: only shapes the rewriter accepts and gets right

    def num(self, d=0):
        r = self.r
        c = r.random()
        if d > 2 or c < 0.3:
            return r.choice(["x", "y", "n", "1.5", "2", "0.0", "10", "p['a']", "p['t'][1]"])
        if c < 0.55:
            return f"({self.num(d + 1)} {r.choice(['+', '-', '*', '/'])} {self.num(d + 1)})"
        if c < 0.7:
            return f"{r.choice(['max', 'min'])}({self.num(d + 1)}, {self.num(d + 1)})"
        if c < 0.8:
            return f"({self.num(d + 1)} if {self.cond(d + 1)} else {self.num(d + 1)})"
        if c < 0.85:
            return f"-{self.num(d + 1)}"
        if c < 0.9 and not self.clean:
            return f"{r.choice(['max', 'min'])}({self.num(d + 1)}, {self.num(d + 1)}, {self.num(d + 1)})"  # rejected
        if c < 0.95 or self.clean:
            return f"abs({self.num(d + 1)})"
        return f"float({self.num(d + 1)})"      # loud when called on arrays

    def cond(self, d=0):
        r = self.r
        c = r.random()
        if d > 2 or c < 0.35:
            return r.choice(["flag", "other", f"({self.num(d + 1)} {r.choice(['<', '<=', '>', '>=', '==', '!='])} {self.num(d + 1)})"])
        if c < 0.6:
            return f"({self.cond(d + 1)} {r.choice(['and', 'or'])} {self.cond(d + 1)})"
        if c < 0.7:
            return f"({self.cond(d + 1)} and {self.cond(d + 1)} and {self.cond(d + 1)})"
        if c < 0.8:
            return f"(not {self.cond(d + 1)})"
        if c < 0.9 and not self.clean:
            return f"({self.num(d + 1)} < {self.num(d + 1)} <= {self.num(d + 1)})"      # loud when called on arrays
        if c < 0.9 or self.clean:
            return f"({self.num(d + 1)} {r.choice(['<', '>='])} {self.num(d + 1)})"
        return f"(n in [1, 2, 3])"      # loud when called on arrays

    def block(self, kind, var, d):
        """statements that leave `var` assigned or return"""
        r = self.r
        c = r.random()
        ind = "    " * (d + 1)
        if d > 2 or c < 0.35:
            if kind == "ret":
                return f"{ind}return {self.num()}\n"
            return f"{ind}{var} = {self.num()}\n"
        if c < 0.85 or self.clean:
            # chains of up to seven conditions; "ladders" test one variable against several thresholds, so that the
            # conditions OVERLAP and only first-match order gives the right branch (statutory brackets are written so)
            n_elif = r.choice([0, 0, 1, 2, 2, 3, 4, 6])
            if r.random() < 0.4:
                v = r.choice(["x", "y", "n"])
                op = r.choice(["<", "<=", ">", ">="])
                ths = [r.choice([-2, 0, 1, 2, 3, 5, 10]) for _ in range(n_elif + 1)]
                if r.random() < 0.7:
                    ths = sorted(ths, reverse=op in (">", ">="))
                conds = [f"{v} {op} {t}" for t in ths]
            else:
                conds = [self.cond() for _ in range(n_elif + 1)]
            out = f"{ind}if {conds[0]}:\n{self.block(kind, var, d + 1)}"
            for cnd in conds[1:]:
                out += f"{ind}elif {cnd}:\n{self.block(kind, var, d + 2 if n_elif > 2 else d + 1)}"
            out += f"{ind}else:\n{self.block(kind, var, d + 1)}"
            return out
        # shapes the rewriter rejects or gets wrong
        shape = r.choice(["elseless_ret", "elseless_assign", "two_stmts", "elseless_aug", "mixed_aug", "other_target"])
        if shape == "elseless_ret":
            return f"{ind}if {self.cond()}:\n{ind}    return {self.num()}\n" + (f"{ind}return {self.num()}\n" if kind == "ret" else f"{ind}{var} = 0.0\n")
        if shape == "elseless_assign":
            return f"{ind}{var} = {self.num()}\n{ind}if {self.cond()}:\n{ind}    {var} = {self.num()}\n" + (f"{ind}return {var}\n" if kind == "ret" else "")
        if shape == "two_stmts":
            return f"{ind}if {self.cond()}:\n{ind}    {var} = {self.num()}\n{ind}    {var} = {var} + 1\n{ind}else:\n{ind}    {var} = 0.0\n" + (f"{ind}return {var}\n" if kind == "ret" else "")
        if shape == "elseless_aug":
            return f"{ind}{var} = {self.num()}\n{ind}if {self.cond()}:\n{ind}    {var} += {self.num()}\n" + (f"{ind}return {var}\n" if kind == "ret" else "")
        if shape == "mixed_aug":
            return f"{ind}{var} = {self.num()}\n{ind}if {self.cond()}:\n{ind}    {var} += {self.num()}\n{ind}else:\n{ind}    {var} = 0.0\n" + (f"{ind}return {var}\n" if kind == "ret" else "")
        return f"{ind}if {self.cond()}:\n{ind}    {var} = {self.num()}\n{ind}else:\n{ind}    zz = {self.num()}\n{ind}    {var} = 1.0\n" + (f"{ind}return {var}\n" if kind == "ret" else "")

    def function(self, name):
        r = self.r
        self.clean = r.random() < 0.65
        head = f"def {name}(x: float, y: float, n: int, flag: bool, other: bool, p: dict) -> float:\n"
        if r.random() < 0.4:
            return head + self.block("ret", "out", 0)
        body = self.block("asg", "out", 0)
        if r.random() < 0.3:
            body += f"    out = out + {self.num()}\n"
        return head + body + "    return out\n"


def toy_module(rnd, n, name=None):
    g = Gen(rnd)
    src = "".join(g.function(f"toy_{i}") + "\n\n" for i in range(n))
    d = tempfile.mkdtemp(prefix="verif_toy_")
    name = name or f"verif_toy_{os.getpid()}_{rnd.randint(0, 10**9)}"
    path = os.path.join(d, name + ".py")
    with open(path, "w") as f:
        f.write(src)
    spec = importlib.util.spec_from_file_location(name, path)
    mod = importlib.util.module_from_spec(spec)
    sys.modules[name] = mod
    spec.loader.exec_module(mod)
    tree = ast.parse(src)
    funs = []
    for node in tree.body:
        if isinstance(node, ast.FunctionDef):
            funs.append((getattr(mod, node.name), ruleir.fundef(node)))
    return funs, d


# ---------------------------------------------------------------------------------
# correspondence 1: the rewriter
# ---------------------------------------------------------------------------------


def transformer_correspondence(run, label, pairs):
    """pairs: (func, source IR).  Exact comparison of rewritten trees / error classes."""
    real = [real_transform(f) for f, _ in pairs]
    model = model_transform([fd for _, fd in pairs])
    bad = []
    kinds = {}
    for (f, fd), r, m in zip(pairs, real, model):
        run.case({"transform": fd["name"], "src": common.digest(fd)})
        run.traces += 1
        kinds[r[0] if r[0] == "ok" else r[1].split(":")[0]] = kinds.get(r[0] if r[0] == "ok" else r[1].split(":")[0], 0) + 1
        rk = r if r[0] == "ok" else ("err", r[1].split(":")[0])
        same = rk[0] == m[0] and (canon_term(rk[1]) == canon_term(m[1]) if rk[0] == "ok" else rk[1] == m[1])
        if not same:
            bad.append({"function": fd["name"], "code": [r[0], r[1] if r[0] == "err" else "tree"],
                        "model": [m[0], m[1] if m[0] != "ok" else "tree"]})
    run.extra.setdefault("correspondence", {})[label] = {"functions": len(pairs), "disagreements": len(bad), "outcomes": kinds}
    if bad:
        run.broke("correspondence", label, json.dumps(bad[:3], ensure_ascii=False))
    return bad


# ---------------------------------------------------------------------------------
# search on the real rewriter: array form vs. scalar function, row by row
# ---------------------------------------------------------------------------------


def as_float(v):
    if isinstance(v, (bool, np.bool_)):
        return bool(v)
    return float(v)


def rows_equal(a, b):
    if isinstance(a, (bool, np.bool_)) or isinstance(b, (bool, np.bool_)):
        return bool(a) == bool(b)
    a, b = float(a), float(b)
    if math.isnan(a) and math.isnan(b):
        return True
    return abs(a - b) <= 1e-9 * max(1.0, abs(a), abs(b))


def shape_of(fd):
    """classify the known-unsound shapes of finding 6.6"""
    shapes = set()

    def walk(stmts):
        for s in stmts:
            if s["k"] == "if":
                b, o = s["body"], s["orelse"]
                if b and b[0]["k"] == "aug" and not o:
                    shapes.add("else-less-augassign")
                chain = [b[0]["k"]] if b else []
                cur = o
                while cur and cur[0]["k"] == "if":
                    chain.append(cur[0]["body"][0]["k"] if cur[0]["body"] else "?")
                    cur = cur[0]["orelse"]
                if cur:
                    chain.append(cur[0]["k"])
                if "aug" in chain and "assign" in chain:
                    shapes.add("mixed-augassign-assign")
                walk(b)
                walk(o)

    walk(fd["body"])

    def calls(t):
        if isinstance(t, dict):
            if t.get("k") == "call" and t.get("f") in ("min", "max", "sum", "any", "all") and len(t.get("args", [])) == 1 \
                    and t["args"][0].get("k") == "opaque" and t["args"][0].get("w") in ("List", "Tuple", "GeneratorExp", "ListComp"):
                shapes.add("reduction-over-literal-sequence")
            for v in t.values():
                calls(v)
        elif isinstance(t, list):
            for v in t:
                calls(v)

    calls(fd["body"])
    return sorted(shapes)


def array_vs_scalar(run, func, fd, arg_rows, arg_names, fixed, label, keyname=None):
    """arg_rows: list of dicts name -> python scalar (floats/ints/bools)."""
    from _gettsim.vectorization import make_vectorizable

    before = dict(vars(sys.modules[func.__module__]))
    try:
        with warnings.catch_warnings():
            warnings.simplefilter("ignore")
            vf = make_vectorizable(func, backend="numpy")
    except Exception:  # noqa: BLE001  loud at rewrite time
        vf = None
    after = vars(sys.modules[func.__module__])
    changed = [k for k in set(before) | set(after) if before.get(k) is not after.get(k)]
    if changed:
        run.hit({"rule": fd["name"], "kind": "rewrite-has-side-effects"},
                f"make_vectorizable({fd['name']}) changed its module namespace: {sorted(changed)[:4]}",
                {"function": fd["name"], "module": func.__module__, "changed": sorted(changed)[:10]})
    if vf is None:
        return "loud-at-rewrite"
    scalars = []
    for row in arg_rows:
        try:
            scalars.append(("ok", func(**row, **fixed)))
        except Exception as e:  # noqa: BLE001
            scalars.append(("err", type(e).__name__))
    ok_rows = [i for i, s in enumerate(scalars) if s[0] == "ok" and s[1] is not None]
    if not ok_rows:
        return "scalar-raises"
    rows = [arg_rows[i] for i in ok_rows]
    cols = {a: np.asarray([r[a] for r in rows]) for a in arg_names}
    try:
        with warnings.catch_warnings():
            warnings.simplefilter("ignore")
            out = vf(**cols, **fixed)
    except Exception:  # noqa: BLE001  loud when called
        return "loud-at-call"
    out = np.broadcast_to(np.asarray(out), (len(rows),))
    run.case({"array-vs-scalar": fd["name"], "label": label, "n": len(rows)})
    for k, i in enumerate(ok_rows):
        if not rows_equal(out[k], scalars[i][1]):
            shapes = shape_of(fd)
            run.hit({"rule": keyname or fd["name"], "kind": "array-form-differs", "shape": shapes[0] if shapes else "other"},
                    f"array form of {fd['name']} returns {out[k]!r} where the function returns {scalars[i][1]!r} "
                    f"(row {rows[k] if len(str(rows[k])) < 300 else '...'}; shapes {shapes})",
                    {"function": fd["name"], "args": {a: repr(v) for a, v in rows[k].items()},
                     "array": repr(out[k]), "scalar": repr(scalars[i][1]), "label": label})
            return "differs"
    return "agrees"


def redefinition_search(run, rnd, n_rounds, n_funcs):
    """A rule redefined under the same module and function name (a notebook cell run twice, two reform
    files with the same basename) must get ITS OWN array form: rewrite one generation of functions,
    then a second generation with the same names and different bodies."""
    import shutil
    outcomes = {}
    for k in range(n_rounds):
        name = f"verif_redef_{os.getpid()}_{k}"
        for gen in range(2):
            funs, d = toy_module(rnd, n_funcs, name=name)
            for func, fd in funs:
                rows = [{"x": rnd.choice([0.0, 1.0, -2.5, 10.0, 3.0]), "y": rnd.choice([0.0, 2.0, 0.5, -1.0]),
                         "n": rnd.choice([0, 1, 2, 3]), "flag": rnd.random() < 0.5, "other": rnd.random() < 0.5}
                        for _ in range(6)]
                res = array_vs_scalar(run, func, ruleir.strip_docstrings(fd), rows, ["x", "y", "n", "flag", "other"],
                                      {"p": {"a": 2.5, "t": {1: 4.0, 2: 8.0}}}, f"redefinition, generation {gen}",
                                      keyname="random-program" if gen == 0 else "random-program-redefined")
                outcomes[f"gen{gen}:{res}"] = outcomes.get(f"gen{gen}:{res}", 0) + 1
            shutil.rmtree(d, ignore_errors=True)
    run.extra["redefinition_array_vs_scalar"] = outcomes


def real_rules_search(run, rnd, date, rows_per_rule):
    params, functions = popgen.env(date)
    import datetime
    o = datetime.date.fromisoformat(date).toordinal()
    outcomes = {}
    for e in extract.registry():
        if e["td"] and not (e["start"] <= o <= e["stop"]):
            continue
        if e["skip_vectorization"] or e["fname"].startswith("_add_grouping"):
            continue
        if any(a.endswith("_params") and a[:-7] not in params for a in e["args"]):
            continue
        func = real_function(e)
        fd = ruleir.strip_docstrings(ruleir.fundef(extract.source_of(e)))
        free, rows = t1.sample_rows(rnd, e, params, rows_per_rule)
        arg_rows = []
        for row in rows:
            d = {}
            for a, v in zip(free, row):
                t = e["arg_types"].get(a)
                d[a] = bool(v) if t == "bool" else int(v) if t == "int" else float(v)
            arg_rows.append(d)
        fixed = {a: params[a[:-7]] for a in e["args"] if a.endswith("_params")}
        res = array_vs_scalar(run, func, fd, arg_rows, free, fixed, f"{e['fname']}@{date}")
        outcomes[res] = outcomes.get(res, 0) + 1
    run.extra.setdefault("real_rules_array_vs_scalar", {})[date] = outcomes


# ---------------------------------------------------------------------------------
# correspondence 2: array semantics of the model vs numpy on the rewritten code
# ---------------------------------------------------------------------------------


def arrsem_correspondence(run, rnd, funs):
    from _gettsim.vectorization import make_vectorizable

    ops, meta = [], []
    P = {"a": 2.5, "t": {1: 4.0, 2: 8.0}}
    ptree = {"t": "tree", "v": extract.enc_y({"a": extract.Fraction(5, 2), "t": {1: 4, 2: 8}})}
    for func, fd in funs:
        n = rnd.choice([1, 2, 3, 5])
        cols = {"x": [rnd.choice([0.0, 1.0, -2.5, 10.0, 3.0, 100.0]) for _ in range(n)],
                "y": [rnd.choice([0.0, 2.0, 0.5, -1.0, 7.0]) for _ in range(n)],
                "n": [rnd.choice([0, 1, 2, 3, 5]) for _ in range(n)],
                "flag": [rnd.random() < 0.5 for _ in range(n)], "other": [rnd.random() < 0.5 for _ in range(n)]}
        args = []
        for a in fd["args"]:
            if a == "p":
                args.append({"scalar": ptree})
            else:
                args.append({"col": [t1.enc_val(extract.Fraction(str(v))) if isinstance(v, float) else t1.enc_val(v)
                                     for v in cols[a]]})
        ops.append({"op": "run_arr", "fun": ruleir.strip_docstrings(fd), "n": n, "args": args, "transform": True})
        meta.append((func, fd, cols, n))
    outs = common.driver([json.dumps(o, ensure_ascii=False) for o in ops])
    bad = []
    stats = {"both-ok": 0, "both-loud": 0, "model-loud-only": 0, "numpy-loud-only": 0, "poison": 0,
             "aliased-aug (in-place numpy semantics, outside the functional model's contract)": 0}
    for (func, fd, cols, n), o in zip(meta, outs):
        j = json.loads(o)
        try:
            with warnings.catch_warnings():
                warnings.simplefilter("ignore")
                vf = make_vectorizable(func, backend="numpy")
                with np.errstate(all="ignore"):
                    out = vf(**{k: np.asarray(v) for k, v in cols.items()}, p=P)
            real = ("ok", np.broadcast_to(np.asarray(out), (n,)))
        except Exception as e:  # noqa: BLE001
            real = ("err", type(e).__name__)
        run.case({"arrsem": fd["name"], "src": common.digest(fd), "n": n})
        run.traces += 1
        model_ok = "ok" in j
        if model_ok and real[0] == "ok" and j.get("noAliasedAug") is False:
            # `out = x; out += e` mutates x in numpy; Core/ArrSem.lean is functional and its soundness theorem
            # (VecTy.funOK) excludes exactly these programs -- the search below still runs them against the
            # scalar function
            stats["aliased-aug (in-place numpy semantics, outside the functional model's contract)"] += 1
        elif model_ok and real[0] == "ok":
            stats["both-ok"] += 1
            a = j["ok"]
            vals = a["col"] if "col" in a else [a["scalar"]] * n
            for i, (mv, rv) in enumerate(zip(vals, real[1])):
                if mv is None:
                    stats["poison"] += 1
                    continue  # unspecified numpy value (inf/nan)
                cm = t1.canon_model({"ok": mv})
                if cm[0] == "bool":
                    same = bool(rv) == cm[1] and (isinstance(rv, (bool, np.bool_)) or float(rv) in (0.0, 1.0))
                elif cm[0] == "num":
                    same = abs(float(rv) - float(cm[1])) <= 1e-9 * max(1.0, abs(float(cm[1])))
                else:
                    same = True
                if not same:
                    bad.append({"function": fd["name"], "row": i, "numpy": repr(rv), "model": mv})
                    break
        elif not model_ok and real[0] != "ok":
            stats["both-loud"] += 1
        elif not model_ok:
            # the model is allowed to be louder than numpy only for shapes it does not cover
            stats["model-loud-only"] += 1
        else:
            # numpy may be louder than the model (e.g. in-place `+=` of a float into an int array):
            # allowed by the property ("or it fails loudly") and by the model's contract
            stats["numpy-loud-only"] += 1
    run.extra.setdefault("correspondence", {})["ArrSem.runFunA (rewritten) vs numpy"] = {**stats, "disagreements": len(bad)}
    if bad:
        run.broke("correspondence", "Core/ArrSem.lean vs numpy on rewritten code", json.dumps(bad[:3], ensure_ascii=False, default=str))


def fragment_obligations(run):
    """Which real rules are in the fragment the soundness theorem covers (evaluated by the Lean
    interpreter on the regenerated syntax trees); rules outside are listed and left to the search."""
    ty = {"float": "num", "int": "num", "bool": "bool"}
    ops, names = [], []
    for e in extract.registry():
        if e["skip_vectorization"]:
            continue
        fd = ruleir.strip_docstrings(ruleir.fundef(extract.source_of(e)))
        ops.append({"op": "fun_ok", "fun": fd, "tys": [ty.get(e["arg_types"].get(a), "dyn") for a in e["args"]]})
        names.append((e["fname"], fd))
    outs = common.driver([json.dumps(o, ensure_ascii=False) for o in ops])
    inside, outside = [], []
    for (n, fd), o in zip(names, outs):
        j = json.loads(o)
        (inside if j.get("ok") else outside).append(n)
    run.extra["rules_in_proved_fragment"] = len(inside)
    run.extra["rules_outside_proved_fragment"] = {"count": len(outside), "names": sorted(outside)}
    run.extra["rules_with_known_unsound_shape"] = sorted(n for n, fd in names if shape_of(fd))


def run(tier: str) -> int:
    r = common.Run("C09", tier)
    quick = tier == "quick"
    r.rule = ("rewriter correspondence: all rule functions of the tree + random programs of the documented style "
              "(incl. rejected and unsound shapes), exact comparison of rewritten trees and error classes; array "
              "semantics of the model vs numpy on the rewritten random programs; search: every rule active at the "
              "sampled dates, array form vs scalar function row by row on branch-covering inputs, module namespace "
              "snapshot around make_vectorizable. distinct = distinct source trees / (rule, date).")
    common.build_and_audit(r, ["C09"], leanchecker=not quick)
    rnd = common.rng("C09")
    pairs = []
    for e in extract.registry():
        try:
            pairs.append((real_function(e), ruleir.fundef(extract.source_of(e))))
        except Exception as ex:  # noqa: BLE001
            r.broke("correspondence", f"cannot load rule {e['fname']}", str(ex))
    transformer_correspondence(r, "_make_vectorizable_ast vs Vectorize.transform on all rule functions", pairs)
    funs, tmpd = toy_module(rnd, 400 if quick else 4000)
    transformer_correspondence(r, "_make_vectorizable_ast vs Vectorize.transform on random programs", funs)
    arrsem_correspondence(r, rnd, funs)
    fragment_obligations(r)
    # the property on random programs through the real rewriter
    outcomes = {}
    for func, fd in funs:
        rows = [{"x": rnd.choice([0.0, 1.0, -2.5, 10.0, 3.0, 2.5, 7.0, -3.0]), "y": rnd.choice([0.0, 2.0, 0.5, -1.0, 4.0, 12.0]),
                 "n": rnd.choice([0, 1, 2, 3, 4, 7]), "flag": rnd.random() < 0.5, "other": rnd.random() < 0.5}
                for _ in range(12)]
        res = array_vs_scalar(r, func, ruleir.strip_docstrings(fd), rows, ["x", "y", "n", "flag", "other"],
                              {"p": {"a": 2.5, "t": {1: 4.0, 2: 8.0}}}, "random program", keyname="random-program")
        outcomes[res] = outcomes.get(res, 0) + 1
    r.extra["random_programs_array_vs_scalar"] = outcomes
    redefinition_search(r, rnd, 3 if quick else 20, 25 if quick else 60)
    for date in (["2023-07-01"] if quick else ["2005-01-01", "2012-01-01", "2015-01-01", "2019-07-01", "2023-07-01", "2025-01-01"]):
        real_rules_search(r, rnd, date, 12 if quick else 60)
    import shutil
    shutil.rmtree(tmpd, ignore_errors=True)
    r.sample({"function": "def f(x, n, flag): if flag and n > 0: out = x / n elif x > 10: out = max(x, 20.0) else: out = 0.0; return out",
              "rewritten": "out = numpy.where(numpy.logical_and(flag, n > 0), x / n, numpy.where(x > 10, numpy.maximum(x, 20.0), 0.0))"})
    return r.finish()


def replay(path: str) -> int:
    d = json.load(open(path))
    print(json.dumps(d, ensure_ascii=False)[:1500])
    return 1
