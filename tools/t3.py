"""Tie T3: random toy tax systems through the real `compute_taxes_and_transfers` vs the Lean
end-to-end model `Core/Simulate.lean` (function-set construction, precedence of derived functions,
overriding by data, pruning, rounding, dtype rules, result assembly, error classes)."""

from __future__ import annotations

import os
import subprocess
import tempfile

import common

HERE = os.path.dirname(os.path.abspath(__file__))


def _parse(text):
    d, cur = {}, None
    for line in text.splitlines():
        if line.startswith("== "):
            cur = line[3:]
            d[cur] = []
        elif line.startswith("#") or cur is None:
            continue
        else:
            d[cur].append(line)
    return d


def _only_scalar_sum_dtype(real, model, chunk):
    """The model documents one approximation (Core/Simulate.lean, KNOWN APPROXIMATIONS): the group sum of a scalar (the
    result of a rule without column arguments; an object array in reality) gets the dtype of the scalar.  A system whose
    outputs differ ONLY in the dtype label of such a column (same values) is not counted as a disagreement."""
    import re
    if not model:
        return False
    scalar_rules = set()
    sigs = {mm.group(1): [a.strip() for a in mm.group(2).split(",") if a.strip()]
            for mm in re.finditer(r"^def (\w+)\(([^)]*)\)", chunk, flags=re.M)}
    changed = True
    while changed:      # scalars: rules all of whose arguments are parameters or (time-unit variants of) scalars
        changed = False
        for n, args in sigs.items():
            if n not in scalar_rules and all(
                    a.endswith("_params") or a in scalar_rules
                    or re.sub(r"_[ymwd]$", "", a) in {re.sub(r"_[ymwd]$", "", x) for x in scalar_rules} for a in args):
                scalar_rules.add(n)
                changed = True
    # … and an aggregation SPECIFIED over such a sum (`'source_col': '<scalar rule>_<group>'`) raises TypeError in reality
    # (numpy_groupies on the object array), while the model, which gives the sum the scalar's dtype, goes on
    if real and real[0].strip() == "ERROR TypeError":
        for r in scalar_rules:
            if re.search(r"'source_col': '" + re.escape(r) + r"(_[ymwd])?_(hh|wthh|fg|bg|eg|ehe|sn)'", chunk):
                return True
    if len(real) != len(model):
        return False
    for a, b in zip(real, model):
        if a == b:
            continue
        ma = re.fullmatch(r"\s*(\S+): (\w+) \[(.*)\]", a)
        mb = re.fullmatch(r"\s*(\S+): (\w+) \[(.*)\]", b)
        if not ma or not mb or ma.group(1) != mb.group(1):
            return False
        name = ma.group(1)
        if not any(name.startswith(r + "_") for r in scalar_rules):
            return False
        try:
            va = [float(x) for x in ma.group(3).split(",") if x.strip()]
            vb = [float(x) for x in mb.group(3).split(",") if x.strip()]
        except ValueError:
            return False
        if va != vb:
            return False
    return True


def run_t3(run: common.Run, seed: int, n: int, label="T3"):
    common.ensure_driver()
    rc, out = common.lake(["build", "GettsimVerif.Core.Simulate"])
    if rc != 0:
        run.broke("build", "Core/Simulate.lean", out[-1500:])
        return
    with tempfile.TemporaryDirectory(prefix="verif_t3_") as d:
        p = subprocess.run([common.PY, os.path.join(HERE, "t3_fuzz.py"), str(seed), str(n)], cwd=d,
                           capture_output=True, text=True, timeout=1800)
        if p.returncode != 0:
            run.broke("implementation-raises", "T3 generator / real system", (p.stdout + p.stderr)[-1500:])
            return
        real = open(os.path.join(d, "fuzz_real.txt")).read()
        src = open(os.path.join(d, "fuzz_src.txt")).read()
        q = subprocess.run(["lake", "env", "lean", os.path.join(d, "Fuzz.lean")], cwd=common.LEAN,
                           capture_output=True, text=True, timeout=1800)
        model = q.stdout
    r, m = _parse(real), _parse(model)
    bad = []
    kinds = {}
    approx = 0
    for k, lines in r.items():
        key = lines[0].strip() if lines and "ERROR" in lines[0] else "ok"
        kinds[key] = kinds.get(key, 0) + 1
        run.case({"t3": seed, "sys": k, "real": lines})
        run.traces += 1
        if lines != m.get(k):
            if _only_scalar_sum_dtype(lines, m.get(k), src.split(f"### {k}\n", 1)[-1].split("### sys", 1)[0]):
                approx += 1
                continue
            bad.append({"system": k, "real": lines[:6], "model": (m.get(k) or ["<no output>"])[:6]})
    run.extra.setdefault("correspondence", {})[f"{label}: toy tax systems, compute_taxes_and_transfers vs Simulate.simulate"] = {
        "systems": len(r), "disagreements": len(bad), "outcomes": kinds,
        "documented_approximation_group_sum_of_a_scalar": approx}
    if bad:
        # attach the source of the first disagreeing system
        first = bad[0]["system"]
        chunk = src.split(f"### {first}\n", 1)[-1].split("### sys", 1)[0][:1500]
        run.broke("correspondence", f"{label}: toy tax systems through the real interface vs Core/Simulate.lean",
                  str(bad[0]) + "\n" + chunk)
