"""Tie T3: random toy tax systems through the real `compute_taxes_and_transfers` vs the Lean
end-to-end model `Core/Simulate.lean` (function-set construction, precedence of derived functions,
overriding by data, pruning, rounding, dtype rules, result assembly, error classes)."""

from __future__ import annotations

import os
import subprocess
import tempfile

import common

HERE = os.path.dirname(os.path.abspath(__file__))


def _parse(text):
    d, cur = {}, None
    for line in text.splitlines():
        if line.startswith("== "):
            cur = line[3:]
            d[cur] = []
        elif line.startswith("#") or cur is None:
            continue
        else:
            d[cur].append(line)
    return d


def run_t3(run: common.Run, seed: int, n: int, label="T3"):
    common.ensure_driver()
    rc, out = common.lake(["build", "GettsimVerif.Core.Simulate"])
    if rc != 0:
        run.broke("build", "Core/Simulate.lean", out[-1500:])
        return
    with tempfile.TemporaryDirectory(prefix="verif_t3_") as d:
        p = subprocess.run([common.PY, os.path.join(HERE, "t3_fuzz.py"), str(seed), str(n)], cwd=d,
                           capture_output=True, text=True, timeout=1800)
        if p.returncode != 0:
            run.broke("implementation-raises", "T3 generator / real system", (p.stdout + p.stderr)[-1500:])
            return
        real = open(os.path.join(d, "fuzz_real.txt")).read()
        src = open(os.path.join(d, "fuzz_src.txt")).read()
        q = subprocess.run(["lake", "env", "lean", os.path.join(d, "Fuzz.lean")], cwd=common.LEAN,
                           capture_output=True, text=True, timeout=1800)
        model = q.stdout
    r, m = _parse(real), _parse(model)
    bad = []
    kinds = {}
    for k, lines in r.items():
        key = lines[0].strip() if lines and "ERROR" in lines[0] else "ok"
        kinds[key] = kinds.get(key, 0) + 1
        run.case({"t3": seed, "sys": k, "real": lines})
        run.traces += 1
        if lines != m.get(k):
            bad.append({"system": k, "real": lines[:6], "model": (m.get(k) or ["<no output>"])[:6]})
    run.extra.setdefault("correspondence", {})[f"{label}: toy tax systems, compute_taxes_and_transfers vs Simulate.simulate"] = {
        "systems": len(r), "disagreements": len(bad), "outcomes": kinds}
    if bad:
        # attach the source of the first disagreeing system
        first = bad[0]["system"]
        chunk = src.split(f"### {first}\n", 1)[-1].split("### sys", 1)[0][:1500]
        run.broke("correspondence", f"{label}: toy tax systems through the real interface vs Core/Simulate.lean",
                  str(bad[0]) + "\n" + chunk)
