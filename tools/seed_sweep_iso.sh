#!/bin/bash
# tools/seed_sweep_iso.sh <seed-id>... : re-run the quick check of the seed's own property (plus the checks recorded
# earlier) on every stored seeded change, without touching /repo or /verif's build (scratch worktree + scratch copy of /verif).
# Appends one line per seed to /tmp/seedsweep/summary.txt and updates seeded/<id>/meta.json ("checks_run_on_the_change").
mkdir -p /tmp/seedsweep
for ID in "$@"; do
  DST=/verif/seeded/$ID
  PROP=$(python3 -c "import json;print(json.load(open('$DST/meta.json'))['breaks_property'])")
  CHECKS=$(python3 -c "
import json
m=json.load(open('$DST/meta.json'))
cr=m.get('checks_run_on_the_change',[])
if isinstance(cr,str): cr=eval(cr)
cs=[m['breaks_property']]+[x['check'] for x in cr if x.get('violation_lines',0)>0 and x['check']!=m['breaks_property']]
print(' '.join(dict.fromkeys(cs)))")
  BASE=/tmp/seedsweep/$ID
  rm -rf $BASE; mkdir -p $BASE; git -C /repo worktree prune
  WT=$BASE/repo; VC=$BASE/verif
  git -C /repo worktree add -q $WT HEAD
  (cd $WT && git apply $DST/patch.diff) || { echo "$ID PATCH-DOES-NOT-APPLY" >> /tmp/seedsweep/summary.txt; git -C /repo worktree remove --force $WT; rm -rf $BASE; continue; }
  rsync -a --exclude .git --exclude replays --exclude seeded /verif/ $VC/
  LINE="$ID [$PROP]"
  RES=""
  for c in $CHECKS; do
    OUT=$(cd $VC && GETTSIM_REPO=$WT ./check $c --tier quick 2>&1 | grep -v conda)
    N=$(echo "$OUT" | grep -c "^VIOLATION")
    NF=$(echo "$OUT" | grep "^VIOLATION" | grep -vc "no-failing-input-found")
    FIRST=$(echo "$OUT" | grep -A1 "^VIOLATION" | head -2 | tr '\n' ' ' | cut -c1-400)
    LINE="$LINE $c=$N(with-input:$NF)"
    RES="$RES{\"check\":\"$c\",\"violation_lines\":$N,\"with_failing_input\":$NF,\"first\":$(python3 -c "import json,sys;print(json.dumps(sys.argv[1]))" "$FIRST")},"
  done
  echo "$LINE" >> /tmp/seedsweep/summary.txt
  python3 - "$ID" "[${RES%,}]" <<'PY'
import json,sys
i,res=sys.argv[1:3]
p=f'/verif/seeded/{i}/meta.json'; m=json.load(open(p))
old=m.get("checks_run_on_the_change")
new=json.loads(res)
if old and old!=new:
    m.setdefault("earlier_runs",[]).append(old)
m["checks_run_on_the_change"]=new
json.dump(m,open(p,'w'),indent=1,ensure_ascii=False)
PY
  git -C /repo worktree remove --force $WT; rm -rf $BASE
done
echo "WORKER-DONE" >> /tmp/seedsweep/summary.txt
