"""C16 — outputs are finite, non-negative and within statutory caps."""

from __future__ import annotations

import inspect
import json

import networkx as nx
import numpy as np

import check_C08
import common
import extract
import popgen
import ruleir

NONNEG_INPUT_EXCEPTIONS = {"eink_vermietung_m"}   # may be negative (documented)


# ---------------------------------------------------------------------------------
# static: verified sign analysis over the regenerated graph
# ---------------------------------------------------------------------------------


def input_abs(name: str, typ) -> str:
    if typ is bool:
        return "bool"
    if name in NONNEG_INPUT_EXCEPTIONS:
        return "any"
    if name.startswith("p_id") or name.endswith("_id"):
        return "any"
    return "nonneg"


def build_gnodes(date: str):
    from _gettsim.config import TYPES_INPUT_VARIABLES

    dag, fno = popgen.graph(date)
    _, functions = popgen.env(date)
    import datetime
    o = datetime.date.fromisoformat(date).toordinal()
    reg = {}
    for e in extract.registry():
        if (not e["td"]) or e["start"] <= o <= e["stop"]:
            reg[e["dag"] if e["td"] else e["fname"]] = e
    by_group = extract.aggregation_dicts("aggregate_by_group")
    by_pid = extract.aggregation_dicts("aggregate_by_p_id")
    nodes = []
    import paramsio
    import t1
    kind_, env_model = paramsio.model_envs([o])[0]
    for n in nx.lexicographical_topological_sort(dag):
        if n.endswith("_params"):
            g = n[:-7]
            if kind_ == "ok" and g in env_model:
                nodes.append({"name": n, "kind": {"k": "const", "v": {"t": "tree", "v": t1.enc_tree(env_model[g])}}})
            else:
                nodes.append({"name": n, "kind": {"k": "opaque"}})
            continue
        if n not in fno:
            nodes.append({"name": n, "kind": {"k": "input", "a": input_abs(n, TYPES_INPUT_VARIABLES.get(n))}})
            continue
        f = fno[n]
        args = list(inspect.signature(f).parameters)
        e = reg.get(n) if n in functions else None
        if e is not None:
            fd = ruleir.fundef_inlined(extract.source_of(e), extract.helpers_of(e))
            if e["skip_vectorization"] or not ruleir.in_fragment(fd):
                nodes.append({"name": n, "kind": {"k": "opaque"}})
            else:
                nodes.append({"name": n, "kind": {"k": "rule", "fn": fd, "argNames": e["args"]}})
            continue
        spec = by_group.get(n) or by_pid.get(n)
        if spec is None and len(args) == 2 and args[1].endswith("_id"):
            spec = {"aggr": "sum", "source_col": args[0]}
        if spec is not None:
            a = spec["aggr"]
            if a == "count":
                nodes.append({"name": n, "kind": {"k": "countAgg"}})
            elif a in ("sum", "max", "min", "any"):
                nodes.append({"name": n, "kind": {"k": a + "Agg", "src": spec["source_col"]}})
            elif a == "all":
                nodes.append({"name": n, "kind": {"k": "anyAgg", "src": spec["source_col"]}})
            else:
                nodes.append({"name": n, "kind": {"k": "opaque"}})
        elif len(args) == 1:
            nodes.append({"name": n, "kind": {"k": "timeconv", "src": args[0]}})
        else:
            nodes.append({"name": n, "kind": {"k": "opaque"}})
    return nodes


def sign_table(date: str):
    nodes = build_gnodes(date)
    out = json.loads(common.driver([json.dumps({"op": "sign_table", "nodes": nodes}, ensure_ascii=False)])[0])
    if "ok" not in out:
        raise RuntimeError(str(out)[:400])
    return dict(out["ok"]), nodes, [tuple(x) for x in out.get("le", [])]


def sign_table_pe(date: str):
    """As `sign_table`, with the verified partial evaluation of the parameter trees as a pre-pass (Core/PEval.lean,
    Props/C16PE.lean: `signTablePE_sound`, `allNonnegPE_sound`, `leFactsPE_sound`)."""
    nodes = build_gnodes(date)
    out = json.loads(common.driver([json.dumps({"op": "sign_table_pe", "nodes": nodes}, ensure_ascii=False)])[0])
    if "ok" not in out:
        raise RuntimeError(str(out)[:400])
    return dict(out["ok"]), nodes, [tuple(x) for x in out.get("le", [])]


# ---------------------------------------------------------------------------------
# search on the real system
# ---------------------------------------------------------------------------------

# What the verified analysis certifies on the unchanged tree (all sampled dates from the given day on): these are the
# instance obligations of this check.  A claimed fact that the analysis can no longer derive from the CURRENT rule sources
# is a broken obligation (the corner-population search then looks for the concrete negative value / exceeded cap).
# Default targets that are not listed are not certified statically (relational reasoning, opaque rules) and rest on the search.
CLAIMED_NONNEG = {
    "abgelt_st_y_sn": "2015-01-01", "elterngeld_m": "2015-01-01", "arbeitsl_geld_2_m_bg": "2015-01-01",
    "kinderzuschl_m_bg": "2015-01-01", "unterhaltsvors_m": "2015-01-01", "grunds_im_alter_m_eg": "2015-01-01",
    "ges_rente_m": "2015-01-01", "eink_st_y_sn": "2023-01-01", "kindergeld_m": "2023-01-01",
}
CLAIMED_CAPS = {
    ("arbeitsl_geld_2_m_bg", "arbeitsl_geld_2_vor_vorrang_m_bg"): "2015-01-01",
    ("kinderzuschl_m_bg", "_kinderzuschl_nach_vermög_check_m_bg"): "2015-01-01",
}

CAPS = [
    # (capped node, cap node) : capped <= cap, row by row
    ("arbeitsl_geld_2_m_bg", "arbeitsl_geld_2_vor_vorrang_m_bg"),
    ("kinderzuschl_m_bg", "_kinderzuschl_nach_vermög_check_m_bg"),
    ("wohngeld_m_wthh", "wohngeld_anspruchshöhe_m_wthh"),
]


def system_search(run, rnd, dates, n_pops):
    from _gettsim.config import DEFAULT_TARGETS
    neg_seen = {}
    for date in dates:
        params, _ = popgen.env(date)
        sv = params["sozialv_beitr"]
        for k in range(n_pops):
            df, kinds = check_C08.corner_population(rnd, date)
            if rnd.random() < 0.3:
                df = df.copy()
                df["eink_vermietung_m"] = [-float(rnd.choice([0, 500, 5000, 50000])) if a >= 18 else 0.0 for a in df["alter"]]
            ok, res = run.attempt(f"simulate all nodes at {date}", popgen.simulate_all, df, date,
                                  replay={"date": date, "data": popgen.frame_to_json(df)})
            if not ok:
                continue
            run.case({"date": date, "pop": common.digest(popgen.frame_to_json(df))})
            rep = {"date": date, "data": popgen.frame_to_json(df)}
            for c in res.columns:
                v = res[c].to_numpy()
                if v.dtype.kind == "f" and not np.isfinite(v).all():
                    run.hit({"kind": "non-finite", "node": c}, f"{c} at {date} contains {v[~np.isfinite(v)][0]} ({kinds})", {**rep, "node": c})
            for t in DEFAULT_TARGETS:
                v = res[t].to_numpy()
                if (v < -1e-9).any():
                    run.hit({"kind": "negative-target", "node": t}, f"default target {t} at {date} is {v.min()} ({kinds})", {**rep, "node": t})
            for a, b in CAPS:
                if a in res.columns and b in res.columns:
                    x, y = res[a].to_numpy(), res[b].to_numpy()
                    if (x > y + 1e-9).any():
                        i = int(np.argmax(x > y + 1e-9))
                        run.hit({"kind": "exceeds-cap", "node": a}, f"{a} = {x[i]} exceeds {b} = {y[i]} at {date}", {**rep, "node": a, "row": i})
            # contributions <= rate x ceiling
            try:
                rate = float(sv["beitr_satz"]["ges_rentenv"])
                cap = res["_ges_rentenv_beitr_bemess_grenze_m"].to_numpy() * rate
                x = res["ges_rentenv_beitr_arbeitnehmer_m"].to_numpy()
                if (x > cap + 1e-6).any():
                    i = int(np.argmax(x > cap + 1e-6))
                    run.hit({"kind": "exceeds-cap", "node": "ges_rentenv_beitr_arbeitnehmer_m"},
                            f"pension contribution {x[i]} exceeds rate x ceiling = {cap[i]} at {date}", {**rep, "row": i})
            except KeyError:
                pass
            elterngeld_cap(run, res, params, date, rep)
        supplied_counts_search(run, rnd, date, max(4, n_pops // 3))
        # directed: pensioners who work (earnings deducted from the pension above the additional-earnings limit):
        # early and regular retirees, small and large wages, with and without a high former wage
        for wage in (0.0, 600.0, 2500.0, 9000.0):
            for former in (0.0, 30000.0, 250000.0):
                p = popgen.Pop(rnd, date)
                h = p.new_hh()
                x = p.person(h, rnd.choice([61, 63, 64, 65, 67, 70]))
                df = p.frame(relabel=False, shuffle=False).copy()
                df["rentner"] = True
                df["bruttolohn_m"] = wage
                df["selbstständig"] = False
                df["arbeitsstunden_w"] = 38.0 if wage else 0.0
                if "höchster_bruttolohn_letzte_15_jahre_vor_rente_y" in df.columns:
                    df["höchster_bruttolohn_letzte_15_jahre_vor_rente_y"] = former
                y = int(date[:4])
                df["geburtsjahr"] = y - int(df["alter"].iloc[0])
                df["jahr_renteneintr"] = y - rnd.choice([0, 1, 2])
                ok, res = run.attempt(f"working pensioner at {date}", popgen.simulate_all, df, date,
                                      replay={"date": date, "data": popgen.frame_to_json(df)})
                if not ok:
                    continue
                run.case({"date": date, "working-pensioner": [wage, former, int(df["alter"].iloc[0])]})
                rep = {"date": date, "data": popgen.frame_to_json(df)}
                for c in res.columns:
                    v = res[c].to_numpy()
                    if v.dtype.kind == "f" and not np.isfinite(v).all():
                        run.hit({"kind": "non-finite", "node": c}, f"{c} at {date} is not finite for a working pensioner", {**rep, "node": c})
                for t in DEFAULT_TARGETS:
                    v = res[t].to_numpy()
                    if (v < -1e-9).any():
                        run.hit({"kind": "negative-target", "node": t},
                                f"default target {t} at {date} is {v.min()} for a pensioner aged {int(df['alter'].iloc[0])} who earns "
                                f"{wage} (highest former wage {former})", {**rep, "node": t})
        # directed: families in which every bonus of Elterngeld applies, claimant's prior income far above the cap
        for income in (2771.0, 4000.0, 20000.0, 1.0e6):
            p = popgen.Pop(rnd, date)
            h = p.new_hh()
            a, b = p.couple(h, married=True, a1=32, a2=34)
            p.child(h, [a, b], alter=0)
            p.child(h, [a, b], alter=rnd.choice([1, 2]))
            if rnd.random() < 0.5:
                p.child(h, [a, b], alter=rnd.choice([3, 4, 5]))
            df = p.frame(relabel=False, shuffle=False).copy()
            claim = df["p_id"] == a["p_id"]
            df.loc[claim, "elterngeld_claimed"] = True
            df.loc[claim, "monate_elterngeldbezug"] = rnd.choice([0, 3, 11])
            df.loc[claim, "arbeitsstunden_w"] = 0.0
            df.loc[claim, "bruttolohn_m"] = 0.0
            df.loc[claim, "elterngeld_nettoeinkommen_vorjahr_m"] = income
            df["elterngeld_zu_verst_eink_vorjahr_y_sn"] = float(rnd.choice([20000, 100000, 240000]))
            ok, res = run.attempt(f"Elterngeld family at {date}", popgen.simulate_all, df, date)
            if ok:
                run.case({"date": date, "elterngeld-family": common.digest(popgen.frame_to_json(df))})
                elterngeld_cap(run, res, params, date, {"date": date, "data": popgen.frame_to_json(df)})


def supplied_counts_search(run, rnd, date, n_pops):
    """Person-level count nodes (number of children / claims linked to a person: `…anz_…`, declared -> int, no group
    suffix) are routinely supplied as data -- gettsim's own synthetic data does so.  Any non-negative count is a valid
    value there; the default targets must stay finite and non-negative."""
    import inspect
    from _gettsim.config import DEFAULT_TARGETS, SUPPORTED_GROUPINGS
    dag, fno = popgen.graph(date)
    counts = []
    for n in popgen.computed_nodes(date):
        f = fno.get(n)
        if f is None or "anz_" not in n or any(n.endswith("_" + g) for g in SUPPORTED_GROUPINGS):
            continue
        if getattr(f, "__annotations__", {}).get("return") in (int, "int"):
            counts.append(n)
    run.extra.setdefault("person_level_count_nodes", {})[date] = counts
    for k in range(max(n_pops, len(counts))):
        df, kinds = popgen.population(rnd, date, n_clusters=rnd.randint(1, 3))
        df = df.copy()
        adult = (df["alter"] >= 18).to_numpy()
        # every count node is supplied at least once, the rest at random
        chosen = sorted(set(([counts[k]] if k < len(counts) else []) + rnd.sample(counts, min(len(counts), rnd.randint(0, 2)))))
        for c in chosen:
            vals = [rnd.choice([0, 1, 2, 5, 8, 12]) if a else 0 for a in adult]
            if adult.any():
                vals[int(np.argmax(adult))] = rnd.choice([8, 12])
            df[c] = np.asarray(vals, dtype="int64")
        if rnd.random() < 0.7:
            df["bruttolohn_m"] = np.where(adult, float(rnd.choice([600, 1500, 3000, 8000])), 0.0)
            df["selbstständig"] = False
        ok, res = run.attempt(f"simulate with supplied counts {chosen} at {date}", popgen.simulate, df, date,
                              replay={"date": date, "data": popgen.frame_to_json(df)})
        if not ok:
            continue
        run.case({"date": date, "supplied": chosen, "pop": common.digest(popgen.frame_to_json(df))})
        for t in DEFAULT_TARGETS:
            v = res[t].to_numpy()
            if v.dtype.kind == "f" and not np.isfinite(v).all():
                run.hit({"kind": "non-finite", "node": t}, f"{t} at {date} is not finite when {chosen} are supplied",
                        {"date": date, "data": popgen.frame_to_json(df), "node": t})
            elif v.dtype.kind in "fi" and (v < -1e-9).any():
                i = int(np.argmin(v))
                run.hit({"kind": "negative-target", "node": t},
                        f"default target {t} at {date} is {v.min()} for a person with supplied counts "
                        f"{ {c: int(df[c].iloc[i]) for c in chosen} }", {"date": date, "data": popgen.frame_to_json(df), "node": t, "row": i})


def elterngeld_cap(run, res, params, date, rep):
    """Elterngeld <= höchstbetrag + the largest sibling bonus + the multiple-birth bonus, all from the parameters."""
    try:
        eg = params["elterngeld"]
        hi = float(eg["höchstbetrag"])
        sib = max(float(eg["geschwisterbonus_aufschlag"]) * hi, float(eg["geschwisterbonus_minimum"]))
        mehr = float(eg["mehrlingbonus"]) * np.maximum(res["_elterngeld_anz_mehrlinge_fg"].to_numpy().astype(float), 0.0)
        x = res["elterngeld_m"].to_numpy()
    except KeyError:
        return
    cap = hi + sib + mehr + 1.0
    if (x > cap).any():
        i = int(np.argmax(x > cap))
        run.hit({"kind": "exceeds-cap", "node": "elterngeld_m"},
                f"Elterngeld {x[i]} exceeds the maximum {hi} plus the largest sibling bonus {sib} plus the multiple-birth bonus "
                f"{mehr[i]} at {date}", {**rep, "row": i})


def run(tier: str) -> int:
    from _gettsim.config import DEFAULT_TARGETS
    r = common.Run("C16", tier)
    quick = tier == "quick"
    r.rule = ("static: verified sign analysis (Core/Sign.lean) after verified partial evaluation of the parameter trees (Core/PEval.lean) over the dependency graph of the default targets rebuilt from the "
              "rule sources at every sampled date: one obligation per default target 'non-negative' and per cap 'after <= before'; "
              "dynamic: populations with supplied person-level count columns (0…12 children / claims); corner populations (zero / 10^5..10^7 incomes and wealth, negative rental income, ages 0-100, big families, "
              "pensioners, self-employed) on the real system, all nodes finite, targets >= 0, caps. distinct = (date, obligation) / populations.")
    common.build_and_audit(r, ["C16", "C16PE"], leanchecker=not quick)
    rnd = common.rng("C16")
    dates = popgen.DATES_QUICK + ["2015-01-01"] if quick else popgen.DATES_2015
    unknown = {}
    for date in dates:
        try:
            table, nodes, les = sign_table_pe(date)
        except Exception as ex:  # noqa: BLE001
            r.broke("build", f"sign analysis at {date}", str(ex)[:500])
            continue
        for t in DEFAULT_TARGETS:
            a = table.get(t, "any")
            r.case({"static": t, "date": date})
            if a in ("nonneg", "pos", "zero"):
                r.oblige(f"{t} >= 0 ({date})", True, a)
            elif t in CLAIMED_NONNEG and date >= CLAIMED_NONNEG[t]:
                r.oblige(f"{t} >= 0 ({date})", False, f"the verified sign analysis no longer certifies it (class {a})")
                r.broke("obligation", f"{t} >= 0 at {date}: no longer certified by the verified sign analysis "
                        f"(Core/Sign.lean after Core/PEval.lean) on the current rule sources",
                        json.dumps({"target": t, "date": date, "class": a,
                                    "unknown_ancestors": [n for n, v in table.items() if v == "any"][:40]}, ensure_ascii=False))
            else:
                unknown.setdefault(t, []).append(date)
        for a, b in CAPS:
            if a in table:
                r.case({"static-cap": [a, b], "date": date})
                if (a, b) in les:
                    r.oblige(f"{a} <= {b} ({date})", True, "absLeArg")
                elif (a, b) in CLAIMED_CAPS and date >= CLAIMED_CAPS[(a, b)]:
                    r.oblige(f"{a} <= {b} ({date})", False, "no longer certified (absLeArg)")
                    r.broke("obligation", f"{a} <= {b} at {date}: no longer certified by the verified analysis (leFacts)", "")
                else:
                    unknown.setdefault(f"{a} <= {b}", []).append(date)
        r.extra.setdefault("sign_table_summary", {})[date] = {
            "nodes": len(nodes), "nonneg": sum(1 for v in table.values() if v in ("nonneg", "pos", "zero")),
            "bool": sum(1 for v in table.values() if v == "bool"), "unknown": sum(1 for v in table.values() if v == "any")}
    r.extra["targets_not_classified_by_the_analysis"] = unknown
    system_search(r, rnd, dates, 8 if quick else 60)
    r.sample({"target": "arbeitsl_geld_2_m_bg", "analysis": "nonneg", "via": "max(0.0, …) upstream, if-join of 0.0 and a nonneg value"})
    return r.finish()


def replay(path: str) -> int:
    d = json.load(open(path))
    print(json.dumps({k: v for k, v in d.items() if k != "data"}, ensure_ascii=False)[:1500])
    return 1
