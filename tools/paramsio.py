"""Lean environment model vs. the real `set_up_policy_environment` (tie T2 for C07/C08/C10/C18)."""

from __future__ import annotations

import datetime
import json
import math
from fractions import Fraction

import numpy as np

import common
import extract


def load_raw_op() -> dict:
    cfg = extract.config_tables()
    return {"op": "load_raw", "raw": extract.raw_all_encoded(),
            "registry": [{k: e[k] for k in ("module", "fname", "dag", "td", "start", "stop")}
                         for e in extract.registry()],
            "copied": cfg["rounding_parameters"], "groups": cfg["INTERNAL_PARAMS_GROUPS"]}


def dec_key(k):
    if "ks" in k:
        return k["ks"]
    if "ki" in k:
        return int(k["ki"])
    return datetime.date.fromordinal(int(k["kd"]))


def dec_y(j):
    if "q" in j:
        return Fraction(j["q"])
    if "inf" in j:
        return math.inf if j["inf"] > 0 else -math.inf
    if "s" in j:
        return j["s"]
    if "b" in j:
        return j["b"]
    if "null" in j:
        return None
    if "date" in j:
        return datetime.date.fromordinal(int(j["date"]))
    if "l" in j:
        return [dec_y(x) for x in j["l"]]
    if "d" in j:
        return {dec_key(k): dec_y(v) for k, v in j["d"]}
    raise ValueError(j)


def _num_eq(real, model, exact: bool) -> bool:
    if isinstance(model, str):  # "inf" strings left in raw trees
        model = {"inf": math.inf, "-inf": -math.inf}.get(model, model)
    if isinstance(real, str) and real in ("inf", "-inf"):
        real = float(real)
    if isinstance(model, bool) or isinstance(real, (bool, np.bool_)):
        return bool(real) == bool(model)
    if isinstance(model, float):  # ±inf
        return float(real) == model
    if not isinstance(model, Fraction):
        return False
    r = float(real)
    if math.isinf(r) or math.isnan(r):
        return False
    if exact:
        # a float that came straight from the YAML file: its shortest repr is the decimal
        return Fraction(repr(r)) == model or Fraction(r) == model
    m = float(model)
    return abs(r - m) <= 2.0**-40 * max(1.0, abs(r), abs(m))


def diff_tree(real, model, path="", exact=True, out=None, limit=20):
    """Walk the real params and the model params simultaneously; list differences."""
    out = [] if out is None else out
    if len(out) >= limit:
        return out
    if isinstance(real, dict):
        if not isinstance(model, dict):
            out.append(f"{path}: real is a dict, model is {type(model).__name__}")
            return out
        rk, mk = set(real), set(model)
        for k in sorted(rk - mk, key=str):
            out.append(f"{path}[{k!r}]: missing in model")
        for k in sorted(mk - rk, key=str):
            out.append(f"{path}[{k!r}]: missing in real environment")
        for k in real:
            if k in model:
                derived = k in ("thresholds", "rates", "intercepts_at_lower_thresholds",
                                "maximum", "einführungsfaktor_vorsorgeaufw_alter_ab_2005",
                                "vorsorgepauschale_rentenv_anteil")
                diff_tree(real[k], model[k], f"{path}[{k!r}]", exact and not derived, out, limit)
        return out
    if isinstance(real, np.ndarray):
        real = real.tolist()
    if isinstance(real, (list, tuple)):
        if not isinstance(model, list) or len(model) != len(real):
            out.append(f"{path}: list shape differs: {real!r} vs {model!r}")
            return out
        for i, (a, b) in enumerate(zip(real, model)):
            diff_tree(a, b, f"{path}[{i}]", exact, out, limit)
        return out
    if isinstance(real, (np.datetime64, datetime.date)):
        rd = real.astype("datetime64[D]").astype(datetime.date) if isinstance(real, np.datetime64) else real
        if rd != model:
            out.append(f"{path}: date {rd} vs {model}")
        return out
    if real is None or isinstance(real, str) and not isinstance(model, (Fraction, float)):
        if real != model:
            out.append(f"{path}: {real!r} vs {model!r}")
        return out
    if not _num_eq(real, model, exact):
        out.append(f"{path}: {real!r} vs {model!r}")
    return out


_YAML_CACHE: dict = {}


def _cached_yaml():
    """The real loader re-parses every YAML file ~230 times per environment; the harness
    memoises `yaml.load` on the *text* it is given (a pure library call) and hands out deep
    copies, so edits to the files are still seen and results are never shared."""
    import copy
    import hashlib
    import _gettsim.policy_environment as pe
    if getattr(pe.yaml, "_verif_cached", False):
        return
    orig = pe.yaml.load

    def load(text, Loader=None, **kw):  # noqa: N803
        key = hashlib.sha1(text.encode() if isinstance(text, str) else text).hexdigest()
        if key not in _YAML_CACHE:
            _YAML_CACHE[key] = orig(text, Loader=Loader, **kw)
        return copy.deepcopy(_YAML_CACHE[key])

    class _Y:
        def __getattr__(self, name):
            return getattr(orig.__globals__["__builtins__"], name, None) if False else getattr(__import__("yaml"), name)
    shim = _Y()
    shim.load = load
    shim._verif_cached = True
    pe.yaml = shim


def real_params(date: datetime.date):
    from _gettsim.policy_environment import set_up_policy_environment
    import warnings
    _cached_yaml()
    with warnings.catch_warnings():
        warnings.simplefilter("ignore")
        return set_up_policy_environment(date)


def _real_one(o):
    import common as c
    c.quiet()
    d = datetime.date.fromordinal(o)
    try:
        p, f = real_params(d)
        fs = sorted((n, fn.__module__, fn.__name__) for n, fn in f.items())
        return ("ok", p, fs)
    except Exception as e:  # noqa: BLE001
        return ("err", f"{type(e).__name__}: {e}"[:500], None)


def real_envs_parallel(ordinals: list[int], procs: int = 12) -> list:
    import multiprocessing as mp
    if len(ordinals) <= 4:
        return [_real_one(o) for o in ordinals]
    # a watchdog per environment: a loader that recurses day by day must not hang the check
    pool = mp.get_context("fork").Pool(min(procs, len(ordinals)))
    try:
        pending = [pool.apply_async(_real_one, (o,)) for o in ordinals]
        out = []
        import time
        deadline = time.time() + 90 + 2.0 * len(ordinals)
        for p in pending:
            try:
                out.append(p.get(timeout=max(1.0, deadline - time.time())))
            except mp.TimeoutError:
                out.append(("err", "TimeoutError: set_up_policy_environment did not finish", None))
        return out
    finally:
        pool.terminate()


def _model_chunk(args):
    kind, ordinals = args
    ops = [load_raw_op()] + [{"op": kind, "date": o} for o in ordinals]
    return common.driver([json.dumps(o, ensure_ascii=False) for o in ops], build=False)[1:]


def model_envs(ordinals: list[int], procs: int = 12) -> list:
    common.ensure_driver()
    if len(ordinals) <= 6:
        outs = _model_chunk(("env", ordinals))
    else:
        import multiprocessing as mp
        k = min(procs, len(ordinals))
        chunks = [ordinals[i::k] for i in range(k)]
        with mp.get_context("fork").Pool(k) as pool:
            parts = pool.map(_model_chunk, [("env", c) for c in chunks])
        outs = [None] * len(ordinals)
        for i, part in enumerate(parts):
            for j, o in enumerate(part):
                outs[i + j * k] = o
    res = []
    for o in outs:
        j = json.loads(o)
        res.append(("ok", dec_y(j["ok"])) if "ok" in j else ("err", j.get("err", j)))
    return res


def model_functions(ordinals: list[int]) -> list:
    ops = [load_raw_op()] + [{"op": "functions", "date": o} for o in ordinals]
    outs = common.driver([json.dumps(o, ensure_ascii=False) for o in ops])
    return [sorted(tuple(x) for x in json.loads(o)["ok"]) for o in outs[1:]]
