"""Python `ast` -> IR (JSON terms of the Lean types `GV.Lang.Expr` / `Stmt` / `FunDef`).

The same serializer is applied to rule sources and to the output of the real
`_make_vectorizable_ast`, so transformer outputs can be compared term by term.
"""

from __future__ import annotations

import ast
from fractions import Fraction

BIN = {ast.Add: "add", ast.Sub: "sub", ast.Mult: "mul", ast.Div: "div"}
CMP = {ast.Lt: "lt", ast.LtE: "le", ast.Gt: "gt", ast.GtE: "ge", ast.Eq: "eq", ast.NotEq: "ne"}
MODULES = {"numpy", "np", "jax.numpy"}


def fstr(q: Fraction) -> str:
    return str(q.numerator) if q.denominator == 1 else f"{q.numerator}/{q.denominator}"


def const(v):
    if isinstance(v, bool):
        return {"k": "const", "t": "bool", "v": v}
    if isinstance(v, int):
        return {"k": "const", "t": "int", "v": v}
    if isinstance(v, float):
        if v in (float("inf"), float("-inf")):
            return {"k": "const", "t": "inf", "neg": v < 0}
        return {"k": "const", "t": "flt", "v": fstr(Fraction(repr(v)))}
    if isinstance(v, str):
        return {"k": "const", "t": "str", "v": v}
    if v is None:
        return {"k": "const", "t": "none"}
    return {"k": "opaque", "w": f"const:{type(v).__name__}"}


def dotted(node) -> str | None:
    if isinstance(node, ast.Name):
        return node.id
    if isinstance(node, ast.Attribute):
        b = dotted(node.value)
        return None if b is None else f"{b}.{node.attr}"
    return None


def expr(n) -> dict:  # noqa: PLR0911, PLR0912
    if isinstance(n, ast.Constant):
        return const(n.value)
    if isinstance(n, ast.Name):
        return {"k": "name", "n": n.id}
    if isinstance(n, ast.Attribute):
        d = dotted(n)
        if d in ("np.inf", "numpy.inf"):
            return {"k": "const", "t": "inf", "neg": False}
        return {"k": "opaque", "w": f"attr:{ast.unparse(n)}"}
    if isinstance(n, ast.BinOp):
        if type(n.op) in BIN:
            return {"k": "bin", "op": BIN[type(n.op)], "a": expr(n.left), "b": expr(n.right)}
        return {"k": "opaque", "w": f"binop:{type(n.op).__name__}"}
    if isinstance(n, ast.UnaryOp):
        if isinstance(n.op, ast.USub):
            return {"k": "neg", "a": expr(n.operand)}
        if isinstance(n.op, ast.Not):
            return {"k": "not", "a": expr(n.operand)}
        return {"k": "opaque", "w": f"unary:{type(n.op).__name__}"}
    if isinstance(n, ast.Compare):
        if len(n.ops) == 1 and isinstance(n.ops[0], (ast.In, ast.NotIn)) and isinstance(
                n.comparators[0], (ast.List, ast.Tuple, ast.Set)):
            return {"k": "in", "e": expr(n.left), "items": [expr(e) for e in n.comparators[0].elts],
                    "neg": isinstance(n.ops[0], ast.NotIn)}
        if all(type(o) in CMP for o in n.ops):
            return {"k": "cmp", "first": expr(n.left),
                    "rest": [[CMP[type(o)], expr(c)] for o, c in zip(n.ops, n.comparators)]}
        return {"k": "opaque", "w": "compare:" + ",".join(type(o).__name__ for o in n.ops)}
    if isinstance(n, ast.BoolOp):
        return {"k": "boolop", "and": isinstance(n.op, ast.And), "args": [expr(v) for v in n.values]}
    if isinstance(n, ast.IfExp):
        return {"k": "ifexp", "c": expr(n.test), "a": expr(n.body), "b": expr(n.orelse)}
    if isinstance(n, ast.Call):
        d = dotted(n.func)
        if d is None:
            return {"k": "opaque", "w": f"call:{ast.unparse(n.func)}"}
        args = [expr(a) for a in n.args]
        if any(isinstance(a, ast.Starred) for a in n.args):
            return {"k": "opaque", "w": f"call-starred:{d}"}
        if d == "piecewise_polynomial":
            kw = {k.arg: k.value for k in n.keywords}
            if set(kw) <= {"x", "thresholds", "rates", "intercepts_at_lower_thresholds"} and len(n.args) <= 1:
                x = n.args[0] if n.args else kw.get("x")
                parts = [x, kw.get("thresholds"), kw.get("rates"), kw.get("intercepts_at_lower_thresholds")]
                if all(p is not None for p in parts):
                    return {"k": "call", "f": "piecewise_polynomial", "args": [expr(p) for p in parts]}
        for k in n.keywords:
            if k.arg is None:
                return {"k": "opaque", "w": f"call-kwargs:{d}"}
            args.append({"k": "call", "f": f"={k.arg}", "args": [expr(k.value)]})
        mod, _, attr = d.rpartition(".")
        if mod in MODULES:
            return {"k": "mcall", "f": attr, "args": args}
        return {"k": "call", "f": d, "args": args}
    if isinstance(n, ast.Subscript):
        if isinstance(n.slice, ast.Slice) or isinstance(n.slice, ast.Tuple):
            return {"k": "opaque", "w": "slice"}
        return {"k": "sub", "e": expr(n.value), "idx": expr(n.slice)}
    return {"k": "opaque", "w": type(n).__name__}


def stmt(n) -> dict:
    if isinstance(n, ast.Assign) and len(n.targets) == 1 and isinstance(n.targets[0], ast.Name):
        return {"k": "assign", "x": n.targets[0].id, "e": expr(n.value)}
    if isinstance(n, ast.AugAssign) and isinstance(n.target, ast.Name) and type(n.op) in BIN:
        return {"k": "aug", "x": n.target.id, "op": BIN[type(n.op)], "e": expr(n.value)}
    if isinstance(n, ast.Return):
        return {"k": "ret", "e": expr(n.value) if n.value is not None else const(None)}
    if isinstance(n, ast.If):
        return {"k": "if", "c": expr(n.test), "body": [stmt(s) for s in n.body],
                "orelse": [stmt(s) for s in n.orelse]}
    if isinstance(n, ast.Expr):
        return {"k": "expr", "e": expr(n.value)}
    return {"k": "other", "w": type(n).__name__}


def fundef(n: ast.FunctionDef) -> dict:
    return {"name": n.name, "args": [a.arg for a in n.args.args], "body": [stmt(s) for s in n.body]}


def opaque_nodes(term) -> list[str]:
    out = []

    def walk(t):
        if isinstance(t, dict):
            if t.get("k") in ("opaque", "other"):
                out.append(t["w"])
            if t.get("k") == "call" and t.get("f") not in (
                    "min", "max", "float", "abs", "piecewise_polynomial") and not str(t.get("f", "")).startswith("="):
                out.append(f"call:{t['f']}")
            if t.get("k") == "call" and str(t.get("f", "")).startswith("="):
                out.append(f"keyword:{t['f']}")
            for v in t.values():
                walk(v)
        elif isinstance(t, list):
            for v in t:
                walk(v)

    walk(term)
    return out


def in_fragment(fd: dict) -> bool:
    """No opaque node, no unknown call: the Lean scalar evaluator covers the function."""
    return not opaque_nodes(fd["body"])


def strip_docstrings(fd: dict) -> dict:
    body = [s for s in fd["body"] if not (s["k"] == "expr" and s["e"].get("k") == "const")]
    return {**fd, "body": body}


# ---------------------------------------------------------------------------------
# inlining of helper functions (IR -> IR); validated against the source by T1
# ---------------------------------------------------------------------------------


class NotInlinable(Exception):
    pass


def subst(t, env: dict):
    """Replace free names by the expressions bound in env (all IR binders are statements, handled by the caller)."""
    if isinstance(t, dict):
        if t.get("k") == "name" and t["n"] in env:
            return env[t["n"]]
        if t.get("k") == "const":
            return t
        return {k: subst(v, env) for k, v in t.items()}
    if isinstance(t, list):
        return [subst(v, env) for v in t]
    return t


def block_to_expr(stmts: list, env: dict) -> dict:
    """The value returned by a straight-line/if block as ONE expression: assignments are substituted, an `if`
    becomes a conditional expression over the two continuations.  Pure, total programs only; evaluation order of
    errors may differ (an unused erroneous assignment disappears)."""
    if not stmts:
        return const(None)
    s, rest = stmts[0], stmts[1:]
    k = s["k"]
    if k == "ret":
        return subst(s["e"], env)
    if k == "assign":
        return block_to_expr(rest, {**env, s["x"]: subst(s["e"], env)})
    if k == "aug":
        cur = env.get(s["x"], {"k": "name", "n": s["x"]})
        return block_to_expr(rest, {**env, s["x"]: {"k": "bin", "op": s["op"], "a": cur, "b": subst(s["e"], env)}})
    if k == "if":
        return {"k": "ifexp", "c": subst(s["c"], env), "a": block_to_expr(s["body"] + rest, env),
                "b": block_to_expr(s["orelse"] + rest, env)}
    if k == "expr" and s["e"].get("k") == "const":
        return block_to_expr(rest, env)
    raise NotInlinable(s.get("w", k))


def inline_calls(t, helpers: dict, depth: int = 4):
    """helpers: name -> FunDef IR.  Every call of a helper is replaced by its body as an expression."""
    if isinstance(t, list):
        return [inline_calls(v, helpers, depth) for v in t]
    if not isinstance(t, dict):
        return t
    if t.get("k") == "const":
        return t
    t = {k: inline_calls(v, helpers, depth) for k, v in t.items()}
    if t.get("k") == "call" and t.get("f") in helpers and depth > 0:
        h = helpers[t["f"]]
        params = h["args"]
        env = {}
        pos = [a for a in t["args"] if not (a.get("k") == "call" and str(a.get("f", "")).startswith("="))]
        kws = {a["f"][1:]: a["args"][0] for a in t["args"] if a.get("k") == "call" and str(a.get("f", "")).startswith("=")}
        if len(pos) > len(params) or any(k not in params for k in kws):
            return t
        for p, a in zip(params, pos):
            env[p] = a
        for k2, v in kws.items():
            if k2 in env:
                return t
            env[k2] = v
        if set(env) != set(params):
            return t  # defaults are not modelled
        try:
            body = inline_calls(strip_docstrings(h)["body"], helpers, depth - 1)
            # names of the helper that are neither parameters nor assigned stay free on purpose (-> NameError in the model)
            return block_to_expr(body, env)
        except NotInlinable:
            return t
    return t


def fundef_inlined(node, helper_nodes: dict) -> dict:
    fd = strip_docstrings(fundef(node))
    if not helper_nodes:
        return fd
    helpers = {name: fundef(n) for name, n in helper_nodes.items()}
    return {**fd, "body": inline_calls(fd["body"], helpers)}
