"""C18 — statutory schedules are well-formed and evaluated exactly."""

from __future__ import annotations

import datetime
import json
import math
from fractions import Fraction

import numpy as np

import common
import corr
import emit_lean
import emit_more
import paramsio


def ext_str(v):
    if isinstance(v, float) and math.isinf(v):
        return "inf" if v > 0 else "-inf"
    return corr.fstr(v)


def schedules_at(env):
    """All parsed piecewise schedules inside a (model) environment."""
    out = []
    for g, body in env.items():
        if not isinstance(body, dict):
            continue
        for p, v in body.items():
            if isinstance(v, dict) and set(v) >= {"thresholds", "rates", "intercepts_at_lower_thresholds"}:
                out.append((g, p, v))
    return out


def probe_points(rnd, thr, n_random):
    fin = [t for t in thr if not (isinstance(t, float) and math.isinf(t))]
    pts = []
    for t in fin:
        t = Fraction(t)
        pts += [t, t - Fraction(1, 100), t + Fraction(1, 100), t - Fraction(1, 10**9), t + Fraction(1, 10**9)]
    lo = min(fin, default=Fraction(0)) - 1000
    hi = max(fin, default=Fraction(0)) * 2 + 1000
    for _ in range(n_random):
        pts.append(Fraction(rnd.randint(int(lo * 100), int(hi * 100)), 100))
    pts += [Fraction(-10**7), Fraction(0), Fraction(10**7)]
    return pts


def run(tier: str) -> int:
    from _gettsim.piecewise_functions import piecewise_polynomial

    r = common.Run("C18", tier)
    quick = tier == "quick"
    r.rule = ("instance obligations: every piecewise_* parameter at every date its resolved value changes "
              "(regenerated, kernel-decided); T2: real parser output vs Lean parse at those dates (2^-40), real "
              "piecewise_polynomial on exact Fractions vs Lean eval at thresholds, ±1e-9, ±0.01 and random points "
              "(exact), the same with rates_multiplier in {1, 4/5, random} vs Lean evalMul (exact) and, for continuous schedules, vs "
              "ic0 + m (value - ic0); search: the real float evaluator on a dense grid + threshold neighbours against "
              "monotonicity / convexity / soli bound / exact value")
    emit_lean.regenerate()
    common.build_and_audit(r, ["C18", "C18Mul", "C18Inst"], leanchecker=not quick)
    rnd = common.rng("C18")
    plist = emit_more.piecewise_params()
    dates = sorted({d for _, _, _, _, ds in plist for d in ds})
    dates = [d for d in dates if d >= datetime.date(1984, 1, 1).toordinal()]
    if quick:
        keep = set(rnd.sample(dates, 8)) | {datetime.date(2002, 1, 1).toordinal(), datetime.date(2021, 1, 1).toordinal(),
                                            datetime.date(2024, 1, 1).toordinal()}
        dates = sorted(d for d in dates if d in keep)
    raw_wellformed_search(r)
    shape_search(r, rnd, dates, 30 if quick else 400)
    models = paramsio.model_envs(dates)
    n_sched = 0
    pw_ops, pw_real, pw_meta = [], [], []
    mul_ops, mul_meta = [], []
    for o, (kind, env) in zip(dates, models):
        d = datetime.date.fromordinal(o)
        try:
            real, _ = paramsio.real_params(d)
        except Exception as e:  # noqa: BLE001
            real = None
            real_err = e
        if kind != "ok":
            if real is not None:
                r.broke("correspondence", f"environment at {d}: model raises {env}, code does not", str(env))
            continue
        if real is None:
            r.broke("correspondence", f"environment at {d}: code raises {type(real_err).__name__}, model does not",
                    str(real_err)[:500])
            continue
        for g, p, v in schedules_at(env):
            n_sched += 1
            rv = real.get(g, {}).get(p)
            r.case({"schedule": [g, p, d.isoformat()], "thr": [str(t) for t in v["thresholds"]]})
            r.traces += 1
            diffs = paramsio.diff_tree(rv, v, f"[{g}][{p}]") if isinstance(rv, dict) else [f"[{g}][{p}] missing in code"]
            if diffs:
                r.broke("correspondence", f"parsed schedule {g}.{p} at {d}: parser model vs code", "; ".join(diffs[:4]))
                continue
            xs = probe_points(rnd, v["thresholds"], 10 if quick else 200)
            pw_ops.append({"op": "pw_eval", "thresholds": [ext_str(t) for t in v["thresholds"]],
                           "rates": [[corr.fstr(q) for q in row] for row in v["rates"]],
                           "intercepts": [corr.fstr(q) for q in v["intercepts_at_lower_thresholds"]],
                           "x": [corr.fstr(x) for x in xs]})
            pw_meta.append((g, p, d, v, rv, xs))
            # the `rates_multiplier` branch of the evaluator (the code rebuilds the intercepts from intercepts[0])
            for mult in (Fraction(1), Fraction(4, 5), Fraction(rnd.randint(1, 300), 100)):
                mul_ops.append({**pw_ops[-1], "mult": corr.fstr(mult)})
                mul_meta.append((g, p, d, v, xs, mult))
    outs = corr.model_results(pw_ops) if pw_ops else []
    mul_outs = corr.model_results(mul_ops) if mul_ops else []
    bad_mul = 0
    for (g, p, d, v, xs, mult), (k, m) in zip(mul_meta, mul_outs):
        thr = np.array([float(t) if isinstance(t, float) else Fraction(t) for t in v["thresholds"]], dtype=object)
        rates = np.array([[Fraction(q) for q in row] for row in v["rates"]], dtype=object)
        ic = np.array([Fraction(q) for q in v["intercepts_at_lower_thresholds"]], dtype=object)
        continuous = all(independent_value(v, Fraction(t)) == independent_piece_limit(v, i)
                         for i, t in enumerate(v["thresholds"]) if not isinstance(t, float) and i >= 2) and \
            Fraction(v["intercepts_at_lower_thresholds"][1 if len(v["intercepts_at_lower_thresholds"]) > 1 else 0]) == \
            Fraction(v["intercepts_at_lower_thresholds"][0])
        for x, mv in zip(xs, m):
            mv = Fraction(mv)
            try:
                ev = piecewise_polynomial(x, thresholds=thr, rates=rates, intercepts_at_lower_thresholds=ic,
                                          rates_multiplier=mult)
            except Exception as e:  # noqa: BLE001
                ev = e
            r.case({"eval-mult": [g, p, d.isoformat(), str(mult)], "x": str(x)})
            r.traces += 1
            if isinstance(ev, Exception) or Fraction(ev) != mv:
                bad_mul += 1
                r.broke("correspondence", f"piecewise_polynomial(rates_multiplier) vs Piecewise.evalMul ({g}.{p} at {d})",
                        f"x={x}, multiplier {mult}: code {ev!r}, model {mv}")
                # the property: for a continuous schedule the value is ic0 + m * (schedule value - ic0)
                if continuous and not isinstance(ev, Exception):
                    ic0 = Fraction(v["intercepts_at_lower_thresholds"][0])
                    exp = ic0 + mult * (independent_value(v, x) - ic0)
                    if Fraction(ev) != exp:
                        r.hit({"schedule": f"{g}.{p}", "kind": "evaluation-with-multiplier-differs-from-schedule"},
                              f"piecewise_polynomial({x}, rates_multiplier={mult}) for {g}.{p} at {d} returns {ev}; the schedule "
                              f"with rates scaled by {mult} has the value {exp}",
                              {"date": d.isoformat(), "x": str(x), "multiplier": str(mult), "observed": str(ev), "expected": str(exp)})
                break
    r.extra.setdefault("correspondence", {})["evaluator with rates_multiplier: code vs Piecewise.evalMul"] = {
        "cases": len(mul_meta), "disagreements": bad_mul}
    bad_eval = 0
    for (g, p, d, v, rv, xs), (k, m) in zip(pw_meta, outs):
        thr = np.array([float(t) if isinstance(t, float) else Fraction(t) for t in v["thresholds"]], dtype=object)
        rates = np.array([[Fraction(q) for q in row] for row in v["rates"]], dtype=object)
        ic = np.array([Fraction(q) for q in v["intercepts_at_lower_thresholds"]], dtype=object)
        fthr, frates, fic = rv["thresholds"], rv["rates"], rv["intercepts_at_lower_thresholds"]
        prev = None
        for x, mv in zip(xs, m):
            mv = Fraction(mv)
            # (a) real evaluator on exact numbers vs the Lean evaluator: exact
            try:
                ev = piecewise_polynomial(x, thresholds=thr, rates=rates, intercepts_at_lower_thresholds=ic)
            except Exception as e:  # noqa: BLE001
                ev = e
            r.case({"eval": [g, p, d.isoformat()], "x": str(x)})
            r.traces += 1
            if isinstance(ev, Exception) or Fraction(ev) != mv:
                bad_eval += 1
                r.broke("correspondence", f"piecewise_polynomial vs Piecewise.eval ({g}.{p} at {d})",
                        f"x={x}: code {ev!r}, model {mv}")
                # the property itself: value of the schedule at x, computed independently
                exp = independent_value(v, x)
                if not isinstance(ev, Exception) and Fraction(ev) != exp:
                    r.hit({"schedule": f"{g}.{p}", "kind": "evaluation-differs-from-schedule"},
                          f"piecewise_polynomial({x}) for {g}.{p} at {d} returns {ev}, the schedule's value is {exp}",
                          {"date": d.isoformat(), "x": str(x), "observed": str(ev), "expected": str(exp)})
                break
            # (b) real float evaluator with the real float parameters vs exact value
            fv = piecewise_polynomial(float(x), thresholds=fthr, rates=frates, intercepts_at_lower_thresholds=fic)
            on_threshold_noise = any(abs(float(x) - float(t)) <= 1e-6 for t in v["thresholds"] if not isinstance(t, float))
            if abs(float(fv) - float(mv)) > 1e-6 * max(1.0, abs(float(mv))) and not on_threshold_noise:
                r.hit({"schedule": f"{g}.{p}", "kind": "evaluation-differs-from-schedule"},
                      f"float evaluation of {g}.{p} at {d}, x={float(x)}: {float(fv)!r} vs exact {float(mv)!r}",
                      {"date": d.isoformat(), "x": str(x), "observed": float(fv), "expected": float(mv)})
                break
    r.extra["schedules_compared"] = n_sched
    r.extra.setdefault("correspondence", {})["parser + evaluator: code vs Core/Piecewise.lean"] = {
        "dates": len(dates), "schedules": n_sched, "evaluator_disagreements": bad_eval}
    r.sample({"schedule": "eink_st.eink_st_tarif at 2021-01-01",
              "points": ["9744", "9744-1e-9", "57918+0.01", "random"], "comparison": "exact Fractions"})
    return r.finish()


def raw_wellformed_search(r):
    """The property on the configuration itself: thresholds of every schedule in force strictly
    increase and cover the real line (resolved YAML pieces, before the parser sorts anything)."""
    for g, p, typ, prog, d, val, err in emit_more.resolved_pieces():
        if val is None:
            continue
        date = datetime.date.fromordinal(d)
        keys = sorted(k for k in val if isinstance(k, int))
        r.case({"raw": [g, p, date.isoformat()]})
        ups, los = [], []
        for k in keys:
            ups.append(val[k].get("upper_threshold"))
            los.append(val[k].get("lower_threshold"))
        seq = [los[0]] + [u if u is not None else (los[i + 1] if i + 1 < len(los) else None) for i, u in enumerate(ups)]
        def num(v):
            if v in ("inf", float("inf")):
                return math.inf
            if v in ("-inf", float("-inf")):
                return -math.inf
            return None if v is None else float(v)
        vals = [num(v) for v in seq]
        bad = None
        if vals[0] != -math.inf or vals[-1] != math.inf:
            bad = "does not cover the real line"
        elif any(a is None or b is None or not a < b for a, b in zip(vals, vals[1:])):
            bad = "thresholds are not strictly increasing"
        if bad:
            r.hit({"schedule": f"{g}.{p}", "kind": "ill-formed-schedule", "date": date.isoformat()},
                  f"{g}.{p} in force from {date}: {bad}: {vals}", {"date": date.isoformat(), "thresholds": [str(v) for v in vals]})


def shape_search(r, rnd, dates, n_random):
    """Tariff and soli on the real float evaluator with the real parameters."""
    from _gettsim.piecewise_functions import piecewise_polynomial
    for o in dates:
        d = datetime.date.fromordinal(o)
        ok, res = r.attempt(f"set_up_policy_environment({d})", paramsio.real_params, d)
        if not ok:
            continue
        real = res[0]
        for g, p in (("eink_st", "eink_st_tarif"), ("soli_st", "soli_st")):
            rv = real.get(g, {}).get(p)
            if not isinstance(rv, dict) or "thresholds" not in rv:
                continue
            fthr, frates, fic = rv["thresholds"], rv["rates"], rv["intercepts_at_lower_thresholds"]
            grid = sorted(set(probe_points(rnd, [Fraction(repr(float(t))) if math.isfinite(t) else float(t) for t in fthr],
                                           n_random)))
            vals = [float(piecewise_polynomial(float(x), thresholds=fthr, rates=frates,
                                               intercepts_at_lower_thresholds=fic)) for x in grid]
            r.case({"shape": [g, p, d.isoformat()], "n": len(grid)})
            # the float evaluator returns the mathematical value of the schedule IT WAS GIVEN (its float coefficients
            # read as exact rationals), at every point incl. the neighbours of the thresholds
            vex = {"thresholds": [Fraction(float(t)) if math.isfinite(t) else float(t) for t in fthr],
                   "rates": [[Fraction(float(c)) for c in row] for row in frates],
                   "intercepts_at_lower_thresholds": [Fraction(float(c)) for c in fic]}
            for x, val in zip(grid, vals):
                exact = float(independent_value(vex, Fraction(float(x))))
                if abs(val - exact) > 1e-9 * max(1.0, abs(exact)):
                    r.hit({"schedule": f"{g}.{p}", "kind": "value-is-not-the-schedule"},
                          f"{g}.{p} at {d}: piecewise_polynomial({float(x)!r}) = {val!r}, the schedule's value there is {exact!r}",
                          {"date": d.isoformat(), "x": str(x), "observed": val, "expected": exact})
                    break
            top = float(frates[0][-1])
            first = min(float(t) for t in fthr if math.isfinite(t)) if any(math.isfinite(t) for t in fthr) else None
            for x, val in zip(grid, vals):
                if first is not None and float(x) < first and val != 0.0:
                    r.hit({"schedule": f"{g}.{p}", "kind": "nonzero-below-first-threshold"},
                          f"{g}.{p} at {d}: value {val} at {float(x)} below the first threshold {first}",
                          {"date": d.isoformat(), "x": str(x), "observed": val})
                    break
            for (x0, v0), (x1, v1) in zip(zip(grid, vals), zip(grid[1:], vals[1:])):
                if v1 < v0 - 1e-6:
                    r.hit({"schedule": f"{g}.{p}", "kind": "not-monotone"},
                          f"{g}.{p} at {d} decreases from {v0} at {float(x0)} to {v1} at {float(x1)}",
                          {"date": d.isoformat(), "x": [str(x0), str(x1)], "observed": [v0, v1]})
                    break
            if p == "soli_st":
                for x, val in zip(grid, vals):
                    if x >= 0 and val > top * float(x) + 0.01 + 1e-9:
                        r.hit({"schedule": f"{g}.{p}", "kind": "soli-above-nominal"},
                              f"soli at {d}: {val} at tax {float(x)} exceeds {top} x tax by more than a cent",
                              {"date": d.isoformat(), "x": str(x), "observed": val})
                        break
            else:
                sl = [((v1 - v0) / float(x1 - x0), x0) for (x0, v0), (x1, v1)
                      in zip(zip(grid, vals), zip(grid[1:], vals[1:])) if x1 - x0 >= 1]
                for (s0, xa), (s1, xb) in zip(sl, sl[1:]):
                    if s1 < s0 - 1e-7:
                        r.hit({"schedule": f"{g}.{p}", "kind": "not-convex"},
                              f"tariff at {d}: average slope drops from {s0} (from {float(xa)}) to {s1} (from {float(xb)})",
                              {"date": d.isoformat(), "x": [str(xa), str(xb)], "observed": [s0, s1]})
                        break
                    if s1 > top + 1e-9:
                        r.hit({"schedule": f"{g}.{p}", "kind": "marginal-rate-above-top"},
                              f"tariff at {d}: slope {s1} above top rate {top}", {"date": d.isoformat()})
                        break


def independent_value(v, x):
    """Mathematical value of the schedule at x (thresholds belong to the upper piece)."""
    thr = v["thresholds"]
    k = 0
    for i, t in enumerate(thr):
        if isinstance(t, float):
            if t < 0:
                k = i
            continue
        if Fraction(t) <= x:
            k = i
    ic = Fraction(v["intercepts_at_lower_thresholds"][k])
    if k == 0:
        return ic
    inc = x - Fraction(thr[k])
    return ic + sum(Fraction(row[k]) * inc ** (pw + 1) for pw, row in enumerate(v["rates"]))


def independent_piece_limit(v, i):
    """value of piece i-1 at its upper end thresholds[i] (i >= 2): what continuity at thresholds[i] requires"""
    thr = v["thresholds"]
    k = i - 1
    ic = Fraction(v["intercepts_at_lower_thresholds"][k])
    inc = Fraction(thr[i]) - Fraction(thr[k])
    return ic + sum(Fraction(row[k]) * inc ** (pw + 1) for pw, row in enumerate(v["rates"]))


def replay(path: str) -> int:
    d = json.load(open(path))
    print(json.dumps(d, ensure_ascii=False)[:1500])
    return 1
