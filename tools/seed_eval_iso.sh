#!/bin/bash
# tools/seed_eval_iso.sh <seed-id> <property> "<checks>" <dir with patch.diff demo.py notes.md> [skip-suite]
# Confirms a seeded change and runs the quick checks on it WITHOUT touching /repo or /verif's build: the change is applied
# to a scratch worktree of /repo, the checks run from a scratch copy of /verif with GETTSIM_REPO pointing there.
set -u
ID=$1; PROP=$2; CHECKS=$3; SRC=$4; SKIPSUITE=${5:-}
SRCWT=$(dirname $SRC)/wt
DST=/verif/seeded/$ID
mkdir -p $DST
cp $SRC/patch.diff $DST/patch.diff; cp $SRC/demo.py $DST/demo.py; cp $SRC/notes.md $DST/notes.md 2>/dev/null
sed -i "s#$SRC#/verif/seeded/$ID#g; s#$SRCWT#<tree>#g" $DST/notes.md $DST/demo.py 2>/dev/null
BASE=/tmp/seedcheck/$ID
rm -rf $BASE; mkdir -p $BASE; git -C /repo worktree prune
WT=$BASE/repo; VC=$BASE/verif
git -C /repo worktree add -q $WT HEAD
cd $WT
PYTHONPATH=$WT/src /venv/bin/python $DST/demo.py > $BASE/pristine.log 2>&1; P=$?
git apply $DST/patch.diff || { echo "PATCH DOES NOT APPLY"; }
PYTHONPATH=$WT/src /venv/bin/python $DST/demo.py > $BASE/patched.log 2>&1; Q=$?
if [ -z "$SKIPSUITE" ]; then
  SUITE=$(PYTHONPATH=$WT/src /venv/bin/python -m pytest -q -p no:cacheprovider src/_gettsim_tests -n 8 2>&1 | tail -1)
else SUITE="(not re-run)"; fi
echo "$ID demo pristine exit=$P patched exit=$Q suite: $SUITE"
rsync -a --exclude .git --exclude replays --exclude seeded /verif/ $VC/
cd $VC
RES=""
for c in $CHECKS; do
  OUT=$(GETTSIM_REPO=$WT ./check $c --tier quick 2>&1 | grep -v conda); RC=$?
  N=$(echo "$OUT" | grep -c "^VIOLATION")
  FIRST=$(echo "$OUT" | grep -A1 "^VIOLATION" | head -2 | tr '\n' ' ' | cut -c1-400)
  echo "$ID check $c: violations=$N :: $FIRST"
  RES="$RES{\"check\":\"$c\",\"violation_lines\":$N,\"first\":$(python3 -c "import json,sys;print(json.dumps(sys.argv[1]))" "$FIRST")},"
done
cd /verif
git -C /repo worktree remove --force $WT; rm -rf $BASE
python3 - "$ID" "$PROP" "$P" "$Q" "$SUITE" "[${RES%,}]" <<'PY'
import json,sys,os
i,prop,p,q,suite,res=sys.argv[1:7]
notes=open(f'/verif/seeded/{i}/notes.md').read() if os.path.exists(f'/verif/seeded/{i}/notes.md') else ''
path=f'/verif/seeded/{i}/meta.json'
old=json.load(open(path)) if os.path.exists(path) else {}
m={"id":i,"breaks_property":prop,"needs_to_manifest":notes[:1500],
 "confirmed":{"demo_exit_on_pristine_tree":int(p),"demo_exit_with_change":int(q),"test_suite_with_change":suite if suite!="(not re-run)" else old.get("confirmed",{}).get("test_suite_with_change",suite),
   "how":"scratch worktree of /repo HEAD: demo.py on the pristine tree, git apply patch.diff, demo.py again, full suite"},
 "checks_run_on_the_change":json.loads(res)}
if "history" in old: m["history"]=old["history"]
if old.get("checks_run_on_the_change") and old["checks_run_on_the_change"]!=m["checks_run_on_the_change"]:
    m.setdefault("earlier_runs",old.get("earlier_runs",[])).append(old["checks_run_on_the_change"])
json.dump(m,open(path,'w'),indent=1,ensure_ascii=False)
PY
