#!/bin/bash
# Offline set-up after a fresh restore: regenerate the Lean tables from /repo and build everything.
set -e
cd "$(dirname "$0")"
export PYTHONDONTWRITEBYTECODE=1
/venv/bin/python tools/emit_lean.py
cd lean
lake build GettsimVerif GettsimVerif.DriverOps 2>&1 | tail -5
# native build of the model driver (Mathlib-free; the T4 tie uses it for speed; without it the checks use the interpreter)
lake build gvdriver 2>&1 | tail -2 || true
