import GettsimVerif.Props.C06
#print axioms GV.Dag.locality
#print axioms GV.Dag.locality_reach
#print axioms GV.Dag.locality_data
#print axioms GV.Dag.ext_equiv
#print axioms GV.Dag.replace_by_copy
#print axioms GV.Dag.params_locality
