import GettsimVerif.Props.C04Sim
#print axioms GV.Simulate.exec_value
#print axioms GV.Simulate.simulate_value_unpruned
#print axioms GV.Simulate.buildFunctions_targets_agree
#print axioms GV.Simulate.buildFunctions_targets_only
#print axioms GV.Simulate.simulate_target_indep
#print axioms GV.Simulate.simulate_subtargets_succeed
#print axioms GV.Simulate.simulate_target_alone_succeeds
#print axioms GV.Simulate.simulate_targets_perm_dup
#print axioms GV.Simulate.simulate_rows
#print axioms GV.Simulate.C04SimExamples.ok_of_toBool
#print axioms GV.Simulate.C04SimExamples.ok1
#print axioms GV.Simulate.C04SimExamples.ok2
#print axioms GV.Simulate.C04SimExamples.ok3
