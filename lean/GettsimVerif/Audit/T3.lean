import GettsimVerif.Props.T3
#print axioms GV.Simulate.simulate_targets_sorted_dedup
#print axioms GV.Simulate.simulate_target_in_data_errors
#print axioms GV.Simulate.simulate_override
#print axioms GV.Simulate.simulate_rounding_off_eq
