import GettsimVerif.Props.C03Types
#print axioms GV.TypeInfer.tyExpr_sound
#print axioms GV.TypeInfer.tyExprK_sound
#print axioms GV.TypeInfer.tyBlock_sound
#print axioms GV.TypeInfer.tyBlockK_sound
#print axioms GV.TypeInfer.tyFun_sound
#print axioms GV.TypeInfer.tyFunK_sound
#print axioms GV.TypeInfer.falls_off_sound
#print axioms GV.TypeInfer.execBlock_frame_sound
#print axioms GV.TypeInfer.losslessFor_iff
#print axioms GV.TypeInfer.toR?_eq_valToR
#print axioms GV.TypeInfer.accepted_cast_lossless
#print axioms GV.TypeInfer.accepted_cast_id
#print axioms GV.TypeInfer.declared_cast_lossless
#print axioms GV.TypeInfer.declared_cast_losslessK
#print axioms GV.TypeInfer.declared_column_lossless
