import GettsimVerif.Props.C01E2E
#print axioms GV.Simulate.prepare_perm
#print axioms GV.Simulate.prepare_perm_fails_iff
#print axioms GV.Simulate.plan_perm
#print axioms GV.Simulate.exec_perm
#print axioms GV.Simulate.simulate_perm_needed
#print axioms GV.Simulate.simulate_perm
#print axioms GV.Simulate.simulate_perm_fails_iff
#print axioms GV.Simulate.simulate_perm_needed_fails_iff
#print axioms GV.Simulate.neededFns_eq
#print axioms GV.Simulate.simulate_undeclared_not_perm
#print axioms GV.Simulate.simulate_grouping_not_perm
