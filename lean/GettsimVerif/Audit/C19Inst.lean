import GettsimVerif.Props.C19Inst
#print axioms GV.Props.C19Inst.all_certified
#print axioms GV.Props.C19Inst.instances_nonempty
#print axioms GV.Props.C19Inst.contribution_shape
