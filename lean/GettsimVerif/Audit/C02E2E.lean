import GettsimVerif.Props.C02E2E
#print axioms GV.Simulate.simulate_union
#print axioms GV.Simulate.simulate_union_snd
#print axioms GV.Simulate.simulate_union_needed
#print axioms GV.Simulate.simulate_union_homogeneous
#print axioms GV.Simulate.simulate_union_of_parts
#print axioms GV.Simulate.simulate_union_of_parts_checked
#print axioms GV.Simulate.checkData_union_of_parts
#print axioms GV.Simulate.prepare_pid_unique
#print axioms GV.Simulate.prepare_take
#print axioms GV.Simulate.plan_take
#print axioms GV.Simulate.exec_take
#print axioms GV.Simulate.simulate_union_needs_disjoint_households
#print axioms GV.Simulate.simulate_union_needs_closed_pointers
#print axioms GV.Simulate.simulate_union_needs_dtype_stability
#print axioms GV.Simulate.simulate_union_needs_return_annotation
#print axioms GV.Simulate.simulate_union_of_parts_needs_disjoint_pids
