import GettsimVerif.Props.C15
#print axioms GV.Levels.refines_table
#print axioms GV.Levels.refines_preorder
#print axioms GV.Levels.refines_least
#print axioms GV.Levels.refines_excluded
#print axioms GV.Levels.refines_sem
#print axioms GV.Levels.downward
#print axioms GV.Levels.rowwise_const
#print axioms GV.Levels.agg_const
#print axioms GV.Levels.constOn_iff_group_value
#print axioms GV.Levels.checks_correct
#print axioms GV.Levels.const_sound
#print axioms GV.Levels.constTable_sound
#print axioms GV.Levels.constLevels_downclosed
#print axioms GV.Levels.suffix_obligation_sound
#print axioms GV.Levels.suffix_check_empty
#print axioms GV.Levels.suffix_obligation_sound_table
#print axioms GV.Levels.checkSuffixes_example
