import GettsimVerif.Props.C03Sim
#print axioms GV.Simulate.ruleOp_rowwise_spec
#print axioms GV.Simulate.ruleOp_rowwise_spec_general
#print axioms GV.Simulate.ruleOp_dtype_declared
#print axioms GV.Simulate.ruleOp_row_independent
#print axioms GV.Simulate.C03SimExamples.ruleOp_undeclared_dtype_depends_on_first_row
#print axioms GV.Simulate.C03SimExamples.ruleOp_noargs_not_declared
