import GettsimVerif.Props.C06Sim
#print axioms GV.Simulate.simulate_params_locality
#print axioms GV.Simulate.simulate_params_copy
#print axioms GV.Simulate.simulate_rule_copy
