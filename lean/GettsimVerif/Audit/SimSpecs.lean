import GettsimVerif.Props.SimSpecs
#print axioms GV.Simulate.simulate_node_unfold
#print axioms GV.Simulate.simulate_arg_column
#print axioms GV.Simulate.simulate_time_variant
#print axioms GV.Simulate.simulate_group_sum
#print axioms GV.Simulate.simulate_group_sum_int
#print axioms GV.Simulate.simulate_group_sum_bool
#print axioms GV.Simulate.simulate_rule_rows
#print axioms GV.Simulate.simulate_rule_rows_arg
#print axioms GV.Simulate.simulate_rounded_on_grid
#print axioms GV.Simulate.simulate_rounding_switch
