import GettsimVerif.Props.C18Mul
#print axioms GV.Props.C18.evalMul_piece
#print axioms GV.Props.C18.evalMul_spec
#print axioms GV.Props.C18.evalMul_one
#print axioms GV.Props.C18.evalMul_zero
#print axioms GV.Props.C18.evalMul_mono_of_eval_mono
