import GettsimVerif.Props.C16PE
#print axioms GV.PEval.peExpr_sound
#print axioms GV.PEval.peBlock_sound
#print axioms GV.PEval.assigned_frame
#print axioms GV.PEval.peFun_sig
#print axioms GV.PEval.peFun_sound
#print axioms GV.PEval.zip_get?_of_index
#print axioms GV.PEval.peFun_sound_nodup
#print axioms GV.PEval.pwNonnegChk_sound
#print axioms GV.PEval.peGraph_names
#print axioms GV.PEval.peGraph_sem
#print axioms GV.PEval.signTablePE_sound
#print axioms GV.PEval.signTablePE_sound_get
#print axioms GV.PEval.allNonnegPE_sound
#print axioms GV.PEval.leFactsPE_sound
#print axioms GV.PEval.mini_consts
#print axioms GV.PEval.mini_sem
