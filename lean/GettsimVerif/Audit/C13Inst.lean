import GettsimVerif.Props.C13Inst
#print axioms GV.Props.C13Inst.constants_are_documented
#print axioms GV.Props.C13Inst.units_and_groupings_match
