import GettsimVerif.Props.C01
#print axioms GV.Dag.eval_respects
#print axioms GV.Dag.eval_respects_err
#print axioms GV.Dag.eval_respects_err_rel
#print axioms GV.Dag.rowwise_respects_perm
#print axioms GV.Dag.simulate_perm
#print axioms GV.Dag.permuted_data_rel
#print axioms GV.Dag.grouped_respects_perm
#print axioms GV.Dag.simulate_perm_grouped
#print axioms GV.Dag.simulate_perm_err
