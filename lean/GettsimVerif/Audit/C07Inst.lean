import GettsimVerif.Props.C07Inst
#print axioms GV.Props.C07Inst.registry_ok
#print axioms GV.Props.C07Inst.active_implementations
#print axioms GV.Props.C07Inst.no_parameter_named_datum
#print axioms GV.Props.C07Inst.cross_deviations_acyclic
#print axioms GV.Props.C07Inst.intervals_wellformed
