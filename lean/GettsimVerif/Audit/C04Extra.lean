import GettsimVerif.Props.C04Extra
#print axioms GV.Simulate.simulate_extra_column
#print axioms GV.Simulate.simulate_extra_column_stable
#print axioms GV.Simulate.simulate_extra_column_plain
#print axioms GV.Simulate.create_extra_plain_column
#print axioms GV.Simulate.simulate_extra_float_column
#print axioms GV.Simulate.simulate_extra_columns
#print axioms GV.Simulate.sameFns_spec
#print axioms GV.Simulate.simulate_column_order_false
