import GettsimVerif.Props.C05
#print axioms GV.Dag.override_equiv_gen
#print axioms GV.Dag.override_equiv
#print axioms GV.Dag.override_equiv_append
#print axioms GV.Dag.override_equiv_conv
#print axioms GV.Dag.override_used
#print axioms GV.Dag.override_used_cons
#print axioms GV.Dag.override_used_consumer
#print axioms GV.Dag.overridden_spec
#print axioms GV.Dag.overridden_spec'
