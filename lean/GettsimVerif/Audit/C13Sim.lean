import GettsimVerif.Props.C13Sim
#print axioms GV.Simulate.timeConvOp_values
#print axioms GV.Simulate.timeConvOp_round_trip
#print axioms GV.Simulate.timeConvOp_round_trip_vals
#print axioms GV.Simulate.timeConvOp_groupSum_commute
#print axioms GV.Simulate.groupAggOp_sum_values
