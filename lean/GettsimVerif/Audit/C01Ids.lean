import GettsimVerif.Props.C01Ids
#print axioms GV.Simulate.groupAggOp_partition_congr
#print axioms GV.Simulate.groupAggOp_count_partition_congr
#print axioms GV.Simulate.groupAggOp_partition_congr_needs_nonneg
#print axioms GV.Simulate.groupAggOp_perm_partition
#print axioms GV.Simulate.groupAggOp_count_perm_partition
#print axioms GV.Simulate.groupingOp_perm
#print axioms GV.Simulate.groupingOp_wthh_perm
#print axioms GV.Simulate.groupingOp_nonneg
#print axioms GV.Simulate.groupingOp_bg_nonneg
#print axioms GV.Simulate.groupingOp_bg_congr
#print axioms GV.Simulate.groupingOp_bg_perm_congr
#print axioms GV.Simulate.sys_eval_perm_ids
#print axioms GV.Simulate.sys_eval_perm_ids_value
#print axioms GV.Simulate.sys_eval_ids_rows
