import GettsimVerif.Props.C08Inst
#print axioms GV.Props.C08Inst.graphs_build
#print axioms GV.Props.C08Inst.all_graphs_ok
#print axioms GV.Props.C08Inst.all_graphs_acyclic
