import GettsimVerif.Props.C13
#print axioms GV.TimeConv.conv_factor
#print axioms GV.TimeConv.conv_round_trip
#print axioms GV.TimeConv.conv_compose
#print axioms GV.TimeConv.conv_documented_factors
#print axioms GV.TimeConv.conv_add
#print axioms GV.TimeConv.conv_sum
#print axioms GV.TimeConv.conv_list_sum
#print axioms GV.TimeConv.parseName_build
#print axioms GV.TimeConv.parseName_table
#print axioms GV.TimeConv.create_no_shadow
#print axioms GV.TimeConv.create_eq_loops
#print axioms GV.TimeConv.create_first_loop_no_shadow
#print axioms GV.TimeConv.derivedOf_not_dep
#print axioms GV.TimeConv.derived_units_differ
#print axioms GV.TimeConv.derived_name_shape
