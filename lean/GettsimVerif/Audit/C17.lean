import GettsimVerif.Props.C17
#print axioms GV.Props.C17.alg2_pos_requires
#print axioms GV.Props.C17.kiz_pos_requires
#print axioms GV.Props.C17.alg2_kiz_exclusive
#print axioms GV.Props.C17.wohngeld_pos_requires
#print axioms GV.Props.C17.wthh_any_eq_flag
#print axioms GV.Props.C17.alg2_wohngeld_exclusive
#print axioms GV.Props.C17.grunds_pos_requires
#print axioms GV.Props.C17.alle_rentner_has_rentner
#print axioms GV.Props.C17.grunds_excludes_others
#print axioms GV.Props.C17.kiz_only_if_need_covered
#print axioms GV.Props.C17.bg_in_one_wthh
#print axioms GV.Props.C17.kiz_pos_eq
#print axioms GV.Props.C17.kiz_only_if_need_covered_wired
#print axioms GV.Props.C17.alg2_kiz_exclusive_wired
#print axioms GV.Props.C17.alg2_pos_need_uncovered_wired
#print axioms GV.Props.C17.grunds_excludes_others_wired
