import GettsimVerif.Props.C14
#print axioms GV.Process.fixed_step_id
#print axioms GV.Process.fixed_step_preserves
#print axioms GV.Process.registry_params_functions_const
#print axioms GV.Process.fixed_history_id
#print axioms GV.Process.history_indep
#print axioms GV.Process.trace_fixed
#print axioms GV.Process.history_irrelevant
#print axioms GV.Process.determinism
#print axioms GV.Process.unfixed_vectorize_rebinds
#print axioms GV.Process.unfixed_dict_mutated
#print axioms GV.Process.unfixed_leaks_only
