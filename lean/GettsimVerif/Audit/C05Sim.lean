import GettsimVerif.Props.C05Sim
#print axioms GV.Simulate.simulate_feed_back_gen
#print axioms GV.Simulate.simulate_feed_back_checked
#print axioms GV.Simulate.simulate_feed_back_compat
#print axioms GV.Simulate.simulate_feed_back_compat_checked
#print axioms GV.Simulate.simulate_supplied_is_used
#print axioms GV.Simulate.simulate_values_typed
#print axioms GV.Simulate.colOfData_render
#print axioms GV.Simulate.fnsStable_sound
#print axioms GV.Simulate.FeedBack.simulate_feed_back_false
