import GettsimVerif.Props.C02Ids
#print axioms GV.Simulate.groupingOp_union
#print axioms GV.Simulate.groupingOp_union_both
#print axioms GV.Simulate.groupingOp_union_exact
#print axioms GV.Simulate.groupingOp_union_idsSep
#print axioms GV.Simulate.groupAggOp_union_partition
#print axioms GV.Simulate.groupAggOp_count_union_partition
#print axioms GV.Simulate.groupAggOp_grouping_union
#print axioms GV.Simulate.groupAggOp_grouping_union_exact
#print axioms GV.Simulate.groupingOp_bg_union_congr
#print axioms GV.Simulate.groupingOp_union_needs_separation
#print axioms GV.Simulate.sys_eval_union_ids
#print axioms GV.Simulate.sys_eval_union_ids_value
#print axioms GV.Simulate.sys_eval_union_ids_rows
