import GettsimVerif.Props.C18Inst
#print axioms GV.Props.C18Inst.all_schedules_wellformed
#print axioms GV.Props.C18Inst.tariff_schedules_ok
#print axioms GV.Props.C18Inst.tariff_table_nonempty
#print axioms GV.Props.C18Inst.soli_schedules_ok
#print axioms GV.Props.C18Inst.soli_table_nonempty
#print axioms GV.Props.C18Inst.tariff_global
#print axioms GV.Props.C18Inst.soli_global
