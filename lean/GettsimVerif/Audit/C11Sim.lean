import GettsimVerif.Props.C11Sim
#print axioms GV.Simulate.groupAggFns_user_wins
#print axioms GV.Simulate.groupAggFns_automatic
#print axioms GV.Simulate.groupAggFns_only_if
#print axioms GV.Simulate.groupAggFns_never_shadows
#print axioms GV.Simulate.groupAggFns_names_distinct
#print axioms GV.Simulate.buildFunctions_merge_order
#print axioms GV.Simulate.buildFunctions_aggregation_beats_rule
#print axioms GV.Simulate.buildFunctions_groupings_win
#print axioms GV.Simulate.C11SimExamples.ok_of_toBool
#print axioms GV.Simulate.C11SimExamples.grp_ok
