import GettsimVerif.Props.C08
#print axioms GV.Graph.cert_rank
#print axioms GV.Graph.cert_sound
#print axioms GV.Graph.cert_sound_list
#print axioms GV.Graph.eval_terminates_with_fuel_n
#print axioms GV.Graph.chain_in_graph
#print axioms GV.Graph.cert_topo
#print axioms GV.Graph.eval_not_other_of_rank
#print axioms GV.Graph.eval_fuel_suffices
#print axioms GV.Graph.rootsAllowed_spec
#print axioms GV.Graph.mem_reachable
#print axioms GV.Graph.S2_ops
#print axioms GV.Graph.S2_struct
