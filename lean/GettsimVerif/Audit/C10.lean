import GettsimVerif.Props.C10
#print axioms GV.Round.roundTo_on_grid
#print axioms GV.Round.roundTo_up_bounds
#print axioms GV.Round.roundTo_down_bounds
#print axioms GV.Round.roundTo_nearest_bounds
#print axioms GV.Round.roundTo_nearest_tie_even
#print axioms GV.Round.roundHalfEven_int
#print axioms GV.Round.roundTo_error_lt_step
#print axioms GV.Round.roundTo_idempotent_on_grid
#print axioms GV.Round.applyRounding_off
#print axioms GV.Round.applyRounding_no_key
#print axioms GV.Round.applyRounding_missing_spec_is_error
#print axioms GV.Round.applyRounding_missing_base_or_direction_is_error
#print axioms GV.Round.applyRounding_spec
#print axioms GV.Round.applyRounding_bad_direction
#print axioms GV.Round.rounded_once
#print axioms GV.Round.double_rounding_differs
