import GettsimVerif.Props.C05Rule
#print axioms GV.Simulate.fnsStable_of_plain_rule
#print axioms GV.Simulate.feed_back_S_T_of_declared_rule
#print axioms GV.Simulate.simulate_feed_back_rule
