import GettsimVerif.Props.C04
#print axioms GV.Dag.prune_sound
#print axioms GV.Dag.prune_spec
#print axioms GV.Dag.run_eq
#print axioms GV.Dag.targets_indep
#print axioms GV.Dag.run_spec
#print axioms GV.Dag.run_shape
#print axioms GV.Dag.run_targets_indep
#print axioms GV.Dag.extra_data_irrelevant
#print axioms GV.Dag.extra_data_irrelevant_append
#print axioms GV.Dag.unused_data_irrelevant
#print axioms GV.Dag.run_extra_data_irrelevant
