import GettsimVerif.Props.C10Inst
#print axioms GV.Props.C10Inst.rounding_entries_wellformed
#print axioms GV.Props.C10Inst.rounding_spec_fully_transported
#print axioms GV.Props.C10Inst.rounding_keys_match_entries
