import GettsimVerif.Props.C02
#print axioms GV.Dag.grouped_relabel_node
#print axioms GV.Dag.relabel_invariance
#print axioms GV.Dag.union_separable_rowwise
#print axioms GV.Dag.union_separable_grouped
#print axioms GV.Dag.union_separable_grouped_snd
#print axioms GV.Dag.union_separable_grouped_node
#print axioms GV.Dag.simulate_union_local
#print axioms GV.Dag.simulate_union
#print axioms GV.Dag.union_data_rel
#print axioms GV.Dag.simulate_union_snd
#print axioms GV.Dag.union_data_rel_snd
#print axioms GV.Dag.simulate_union_both
