import GettsimVerif.Props.C06Fn
#print axioms GV.Simulate.prepare_body_irrelevant
#print axioms GV.Simulate.prepare_body_irrelevant_ok
#print axioms GV.Simulate.simulate_rule_locality
#print axioms GV.Simulate.simulate_rule_pruned
#print axioms GV.Simulate.simulate_rule_locality_errors
#print axioms GV.Simulate.simulate_cone_agreement
#print axioms GV.Simulate.simulate_rule_locality_checked
#print axioms GV.Simulate.simulate_rule_locality_new_args
#print axioms GV.Simulate.C06FnExamples.hrelF
#print axioms GV.Simulate.C06FnExamples.hrelFail
#print axioms GV.Simulate.C06FnExamples.hrel2
#print axioms GV.Simulate.C06FnExamples.hrel4
