import GettsimVerif.Props.C15E2E
#print axioms GV.Simulate.simulate_const_column
#print axioms GV.Simulate.simulate_suffix_columns
#print axioms GV.Simulate.simulate_group_max
#print axioms GV.Simulate.simulate_group_min
#print axioms GV.Simulate.simulate_group_any
#print axioms GV.Simulate.simulate_group_all
#print axioms GV.Simulate.simulate_group_count
#print axioms GV.Simulate.C15E2EExamples.hypsConst_spec
#print axioms GV.Simulate.C15E2EExamples.hypsSuffix_spec
#print axioms GV.Simulate.C15E2EExamples.isFlt_spec
#print axioms GV.Simulate.C15E2EExamples.isBool_spec
#print axioms GV.Simulate.C15E2EExamples.hypsAgg_spec
