import GettsimVerif.Props.C15Sim
#print axioms GV.Simulate.groupAggOp_const
#print axioms GV.Simulate.groupAggOp_count_const
#print axioms GV.Simulate.groupAggOp_const_refines
#print axioms GV.Simulate.refines_length_needed
#print axioms GV.Simulate.ruleOp_const
#print axioms GV.Simulate.timeConvOp_const
#print axioms GV.Simulate.pidSumOp_not_const
#print axioms GV.Simulate.constOn_antitone
#print axioms GV.Simulate.refines_refl_trans
#print axioms GV.Simulate.sys_eval_const
#print axioms GV.Simulate.suffix_check_sound
