import GettsimVerif.Props.C11
#print axioms GV.Props.C11.placeholder
