import GettsimVerif.Props.C08Sim
#print axioms GV.Simulate.plan_roots_are_data_general
#print axioms GV.Simulate.plan_roots_are_data
#print axioms GV.Simulate.prepare_guarantees
#print axioms GV.Simulate.simulate_plan_complete
#print axioms GV.Simulate.plan_node_deps
#print axioms GV.Simulate.plan_acyclic
#print axioms GV.Simulate.exec_fuel_suffices
#print axioms GV.Simulate.exec_fuel_enough
#print axioms GV.Simulate.eval_fuel_stable
#print axioms GV.Simulate.C08SimExamples.plan_ok'
#print axioms GV.Simulate.C08SimExamples.hyps
