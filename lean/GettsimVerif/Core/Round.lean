import GettsimVerif.Core.Basic
/-
Model of the rounding wrapper (`interface._add_rounding_to_one_function`,
`_add_rounding_to_functions`) over exact rationals.
`numpy.ndarray.round()` rounds half to even.
-/
namespace GV.Round

inductive Dir where
  | up | down | nearest
  deriving DecidableEq, Repr

/-- round half to even -/
def roundHalfEven (q : Rat) : Int :=
  let f := q.floor
  let r := q - (f : Rat)
  if r < 1/2 then f
  else if 1/2 < r then f + 1
  else if f % 2 = 0 then f else f + 1

def steps (dir : Dir) (q : Rat) : Int :=
  match dir with
  | .up => q.ceil
  | .down => q.floor
  | .nearest => roundHalfEven q

/-- `base * ceil|floor|round(x / base) + to_add_after_rounding` -/
def roundTo (base : Rat) (dir : Dir) (off : Rat) (x : Rat) : Rat :=
  base * (steps dir (x / base) : Rat) + off

def parseDir (s : String) : Option Dir :=
  if s = "up" then some .up else if s = "down" then some .down
  else if s = "nearest" then some .nearest else none

/-- What `params[key]["rounding"][name]` delivers (each part may be missing). -/
structure Spec where
  base : Option Rat
  direction : Option String
  off : Option Rat
  deriving Repr

/-- The wrapped function's value for raw value `x`.
* `rounding = false` or no rounding key: identity;
* key but no spec / no base / no direction: `KeyError` (when the functions are built);
* unknown direction: `ValueError` (when called). -/
def applyRounding (roundingOn : Bool) (hasKey : Bool) (spec : Option Spec) (x : Rat) :
    Except Err Rat :=
  if !roundingOn || !hasKey then .ok x
  else match spec with
    | none => .error .keyError
    | some s =>
      match s.base, s.direction with
      | some b, some d =>
        match parseDir d with
        | some dir => .ok (roundTo b dir (s.off.getD 0) x)
        | none => .error .valueError
      | _, _ => .error .keyError

end GV.Round
