import GettsimVerif.Core.Basic
/-
Constancy analysis for group-level columns (property C15).

A column whose name carries a grouping suffix (`_hh`, `_wthh`, `_fg`, `_bg`, `_eg`, `_ehe`,
`_sn`) is supposed to have one value per group of that level.  The analysis assigns to every
node of the dependency graph the set of levels on whose groups the node's column is provably
constant; `checkSuffixes` reports the suffixed nodes for which the suffix level is not in that
set.

Refinement order (`g' ⊑ g`: every `g'`-group lies inside one `g`-group), valid populations:
`bg ⊑ fg ⊑ hh`, `eg ⊑ fg`, `wthh ⊑ hh`, `bg ⊑ wthh`, `sn ⊑ ehe`; reflexive-transitive closure.
A column constant on every `g`-group is constant on every `g'`-group for `g' ⊑ g`.
-/
namespace GV.Levels

abbrev Name := String

inductive Level where
  | hh | wthh | fg | bg | eg | ehe | sn
  deriving DecidableEq, Repr, Inhabited

def Level.all : List Level := [.hh, .wthh, .fg, .bg, .eg, .ehe, .sn]

def Level.suffix : Level → String
  | .hh => "hh" | .wthh => "wthh" | .fg => "fg" | .bg => "bg" | .eg => "eg" | .ehe => "ehe"
  | .sn => "sn"

def Level.ofString? (s : String) : Option Level :=
  Level.all.find? fun g => g.suffix == s

abbrev LSet := List Level

/-- generating pairs `(g', g)` of the refinement order `g' ⊑ g` -/
def refinesBase : List (Level × Level) :=
  [(.bg, .fg), (.fg, .hh), (.eg, .fg), (.eg, .bg), (.wthh, .hh), (.bg, .wthh), (.sn, .ehe)]

/-- paths of length ≤ fuel in `refinesBase` -/
def refinesFuel : Nat → Level → Level → Bool
  | 0, a, b => a == b
  | k + 1, a, b => a == b || refinesBase.any fun p => p.1 == a && refinesFuel k p.2 b

/-- `refines g' g` : `g' ⊑ g` (reflexive-transitive closure of `refinesBase`; 7 levels, so
paths of length ≤ 7 suffice) -/
def refines (a b : Level) : Bool := refinesFuel 7 a b

/-- all levels below `g` (incl. `g`) -/
def down (g : Level) : LSet := Level.all.filter fun g' => refines g' g

inductive Kind where
  | input (declared : Option Level)   -- data column; `some g`: declared constant per `g`-group
  | param                             -- parameter (the same value for every row)
  | agg (level : Level)               -- aggregation by group at `level`
  | rowwise (args : List Name)        -- row-wise function of the argument columns
  | grouping (level : Level)          -- the group id column of `level`
  | timeconv (src : Name)             -- time-unit conversion of `src` (row-wise scaling)
  | opaque                            -- anything else (e.g. aggregation by p_id): no claim
  deriving DecidableEq, Repr, Inhabited

abbrev Graph := List (Name × Kind)

def find? {β : Type} (l : List (Name × β)) (n : Name) : Option β :=
  match l with
  | [] => none
  | (k, v) :: rest => if k = n then some v else find? rest n

/-- levels of one node, given the levels `look a` of the nodes it reads -/
def nodeLevels (look : Name → LSet) : Kind → LSet
  | .input (some g) => down g
  | .input none => []
  | .param => Level.all
  | .agg g => down g
  | .rowwise args => Level.all.filter fun g => args.all fun a => (look a).contains g
  | .grouping g => down g
  | .timeconv src => look src
  | .opaque => []

/-- by-need analysis; `fuel` bounds the depth (exhausted fuel / unknown name: no claim) -/
def constLevels (graph : Graph) : Nat → Name → LSet
  | 0, _ => []
  | k + 1, n =>
    match find? graph n with
    | none => []
    | some kind => nodeLevels (constLevels graph k) kind

def lookup (t : List (Name × LSet)) (n : Name) : LSet := (find? t n).getD []

/-- one-pass (memoised) analysis for a graph listed in topological order (dependencies first);
a dependency that has not been listed before its reader gets no claim -/
def constTable (graph : Graph) : List (Name × LSet) :=
  graph.foldl (fun t nk => (nk.1, nodeLevels (lookup t) nk.2) :: t) []

/-- the suffixed nodes `(name, level of the suffix)` whose level is NOT established -/
def checkSuffixes (graph : Graph) (fuel : Nat) (names : List (Name × Level)) : List Name :=
  (names.filter fun ng => !(constLevels graph fuel ng.1).contains ng.2).map (·.1)

/-- same with the one-pass analysis -/
def checkSuffixesT (graph : Graph) (names : List (Name × Level)) : List Name :=
  let t := constTable graph
  (names.filter fun ng => !(lookup t ng.1).contains ng.2).map (·.1)

/-! ### executable checks on concrete populations / columns (used to validate test data and
to compare computed columns with the analysis) -/

/-- a population: number of rows and one group id column per level -/
structure Pop where
  n : Nat
  gid : Level → List Int

/-- rows with the same id in `l'` have the same (existing) id in `l` -/
def refinesCols (l' l : List Int) : Bool :=
  (List.range l'.length).all fun i => (List.range l'.length).all fun j =>
    !(l'[i]? == l'[j]?) || ((l[i]?).isSome && l[i]? == l[j]?)

/-- all id columns have `n` rows and the generating pairs of the refinement order hold -/
def Pop.valid (P : Pop) : Bool :=
  (Level.all.all fun g => (P.gid g).length == P.n) &&
  refinesBase.all fun p => refinesCols (P.gid p.1) (P.gid p.2)

/-- rows with the same id have the same entry in `col` -/
def constOnCols {V : Type} [DecidableEq V] (ids : List Int) (col : List V) : Bool :=
  (List.range ids.length).all fun i => (List.range ids.length).all fun j =>
    !(ids[i]? == ids[j]?) || (col[i]? == col[j]?)

end GV.Levels
