import GettsimVerif.Core.Lang
/-
Symbolic evaluation of `GV.Lang` rules as a function of ONE rational input `w` over an
interval: every value is either a constant `Val` or an affine float `a*w + b`.  The evaluator
returns `none` whenever it cannot certify that the result has that form on the WHOLE interval
(and that the concrete semantics raises no error there).  On top of it: chains of rules,
piecewise decompositions of `[start, ∞)` and decidable shape checks (non-negative,
non-decreasing, zero below, constant above, continuous at, sum identity).

Soundness (w.r.t. `evalExpr` / `execBlock` / `runFun` / `runChain`) is proved in
`Lemmas/Sym.lean` and `Props/SymSound.lean`; the results are EXACT (`=` on `Val`, not only
numerically equal), which is why `max`/`min` mirror `pickExt`'s leftmost-extremal rule
with a comparison whose truth value must be constant on the interval.
-/
namespace GV.Sym
open GV.Lang

/-! ### symbolic values and intervals -/

/-- a constant value or the float `a*w + b` -/
inductive SVal where
  | const (v : Val)
  | aff (a b : Rat)
  deriving Repr, Inhabited

/-- the value denoted at wage `w` (`SVal.at` of the specification; `at` is a keyword) -/
def SVal.eval (s : SVal) (w : Rat) : Val :=
  match s with
  | .const v => v
  | .aff a b => .flt (a * w + b)

/-- interval with independently open/closed ends; `hi = none` means unbounded above -/
structure Ivl where
  lo : Rat
  loClosed : Bool
  hi : Option Rat
  hiClosed : Bool
  deriving Repr, Inhabited, DecidableEq

def Ivl.mem (I : Ivl) (w : Rat) : Prop :=
  (if I.loClosed then I.lo ≤ w else I.lo < w) ∧
  (match I.hi with
   | none => True
   | some h => if I.hiClosed then w ≤ h else w < h)

def Ivl.memB (I : Ivl) (w : Rat) : Bool :=
  (if I.loClosed then decide (I.lo ≤ w) else decide (I.lo < w)) &&
  (match I.hi with
   | none => true
   | some h => if I.hiClosed then decide (w ≤ h) else decide (w < h))

/-! ### sign of an affine function on an interval (sufficient conditions; complete on
non-empty intervals) -/

/-- certifies `∀ w ∈ I, a*w + b ≤ 0` -/
def allLe0 (I : Ivl) (a b : Rat) : Bool :=
  if 0 < a then
    match I.hi with
    | none => false
    | some h => decide (a * h + b ≤ 0)
  else decide (a * I.lo + b ≤ 0)

/-- certifies `∀ w ∈ I, a*w + b < 0` -/
def allLt0 (I : Ivl) (a b : Rat) : Bool :=
  if 0 < a then
    match I.hi with
    | none => false
    | some h => decide (a * h + b < 0) || (decide (a * h + b ≤ 0) && !I.hiClosed)
  else
    decide (a * I.lo + b < 0) || (decide (a * I.lo + b ≤ 0) && !I.loClosed && decide (a < 0))

def allGe0 (I : Ivl) (a b : Rat) : Bool := allLe0 I (-a) (-b)
def allGt0 (I : Ivl) (a b : Rat) : Bool := allLt0 I (-a) (-b)
def allEq0 (I : Ivl) (a b : Rat) : Bool := allLe0 I a b && allGe0 I a b
def allNe0 (I : Ivl) (a b : Rat) : Bool := allLt0 I a b || allGt0 I a b

/-- constant truth value of `a*w + b  op  0` on `I`, if certifiable -/
def decideCmp (I : Ivl) (op : CmpOp) (a b : Rat) : Option Bool :=
  match op with
  | .lt => if allLt0 I a b then some true else if allGe0 I a b then some false else none
  | .le => if allLe0 I a b then some true else if allGt0 I a b then some false else none
  | .gt => if allGt0 I a b then some true else if allLe0 I a b then some false else none
  | .ge => if allGe0 I a b then some true else if allLt0 I a b then some false else none
  | .eq => if allEq0 I a b then some true else if allNe0 I a b then some false else none
  | .ne => if allNe0 I a b then some true else if allEq0 I a b then some false else none

/-! ### non-recursive building blocks -/

/-- numeric view `a*w + b` of a symbolic value (`int`/`bool` constants are promoted like `num?`) -/
def SVal.lin? : SVal → Option (Rat × Rat)
  | .aff a b => some (a, b)
  | .const v => (num? v).map fun (q, _) => (0, q)

/-- `aff 0 b` is normalised to the constant float `b` -/
def mkAff (a b : Rat) : SVal := if a = 0 then .const (.flt b) else .aff a b

def symBin (op : BinOp) (x y : SVal) : Option SVal :=
  match x, y with
  | .const u, .const v =>
    match evalBin op u v with
    | .ok r => some (.const r)
    | .error _ => none
  | _, _ =>
    match x.lin?, y.lin? with
    | some (a, b), some (c, d) =>
      match op with
      | .add => some (mkAff (a + c) (b + d))
      | .sub => some (mkAff (a - c) (b - d))
      | .mul =>
        if a = 0 then some (mkAff (b * c) (b * d))
        else if c = 0 then some (mkAff (a * d) (b * d))
        else none
      | .div => if c = 0 ∧ d ≠ 0 then some (mkAff (a / d) (b / d)) else none
    | _, _ => none

/-- unary minus of the concrete semantics (the `.neg` case of `evalExpr`) -/
def negVal (x : Val) : Except Err Val :=
  match x with
  | .inf n => pure (.inf (!n))
  | _ => match num? x with
    | some (q, fl) => pure (mkNum (-q) fl)
    | Option.none => .error .typeError

def symNeg (x : SVal) : Option SVal :=
  match x with
  | .const v =>
    match negVal v with
    | .ok r => some (.const r)
    | .error _ => none
  | .aff a b => some (mkAff (-a) (-b))

/-- constant truth value of `x op y` on `I` -/
def symCmp (I : Ivl) (op : CmpOp) (x y : SVal) : Option Bool :=
  match x, y with
  | .const u, .const v =>
    match evalCmp op u v with
    | .ok r => some r
    | .error _ => none
  | _, _ =>
    match x.lin?, y.lin? with
    | some (a, b), some (c, d) => decideCmp I op (a - c) (b - d)
    | _, _ =>
      -- an affine float against a non-numeric constant (±inf, a string, …): the outcome of
      -- `evalCmp` does not depend on the float
      match x, y with
      | .aff _ _, .const v =>
        match evalCmp op (.flt 0) v with
        | .ok r => some r
        | .error _ => none
      | .const u, .aff _ _ =>
        match evalCmp op u (.flt 0) with
        | .ok r => some r
        | .error _ => none
      | _, _ => none

/-- constant truthiness on `I` -/
def symTruthy (I : Ivl) (x : SVal) : Option Bool :=
  match x with
  | .const v => some (truthy v)
  | .aff a b => if allNe0 I a b then some true else if allEq0 I a b then some false else none

def allConst? : List SVal → Option (List Val)
  | [] => some []
  | .const v :: rest => (allConst? rest).map (v :: ·)
  | .aff _ _ :: _ => none

/-- mirrors `pickExt`: the comparison deciding each step must be constant on `I` -/
def symPick (I : Ivl) (isMax : Bool) : List SVal → Option SVal
  | [] => none
  | [v] => some v
  | v :: rest => do
    let r ← symPick I isMax rest
    let better ← symCmp I (if isMax then .lt else .gt) v r
    pure (if better then r else v)

def symCall (I : Ivl) (f : String) (args : List SVal) : Option SVal :=
  match allConst? args with
  | some vs =>
    match evalCall f vs with
    | .ok r => some (.const r)
    | .error _ => none
  | none =>
    if f = "max" then
      match args with
      | _ :: _ :: _ => symPick I true args
      | _ => none
    else if f = "min" then
      match args with
      | _ :: _ :: _ => symPick I false args
      | _ => none
    else if f = "float" then
      match args with
      | [.aff a b] => some (mkAff a b)
      | _ => none
    else if f = "abs" then
      match args with
      | [.aff a b] =>
        if allGe0 I a b then some (mkAff a b)
        else if allLt0 I a b then some (mkAff (-a) (-b))
        else none
      | _ => none
    else none

def symSub (c idx : SVal) : Option SVal :=
  match c, idx with
  | .const u, .const v =>
    match evalSub u v with
    | .ok r => some (.const r)
    | .error _ => none
  | _, _ => none

/-- the `isIn` case of `evalExpr` on evaluated operands -/
def isInVal (x : Val) (vs : List Val) (neg : Bool) : Except Err Val := do
  let hit ← vs.foldlM (fun acc v => do
    let eq ← evalCmp .eq x v
    pure (acc || eq)) false
  pure (.bool (if neg then !hit else hit))

def symIsIn (x : SVal) (items : List SVal) (neg : Bool) : Option SVal :=
  match x, allConst? items with
  | .const v, some vs =>
    match isInVal v vs neg with
    | .ok r => some (.const r)
    | .error _ => none
  | _, _ => none

/-! ### symbolic environments -/

abbrev SEnv := List (String × SVal)

def SEnv.get? (env : SEnv) (n : String) : Option SVal :=
  match env with
  | [] => none
  | (k, v) :: rest => if k = n then some v else SEnv.get? rest n

def SEnv.set (env : SEnv) (n : String) (v : SVal) : SEnv :=
  match env with
  | [] => [(n, v)]
  | (k, w) :: rest => if k = n then (n, v) :: rest else (k, w) :: SEnv.set rest n v

/-- the concrete environment denoted at wage `w` -/
def SEnv.eval (env : SEnv) (w : Rat) : Env :=
  match env with
  | [] => []
  | (k, s) :: rest => (k, s.eval w) :: SEnv.eval rest w

/-! ### the symbolic evaluator (same recursion structure as `evalExpr`) -/

mutual
def symExpr (I : Ivl) (env : SEnv) : Expr → Option SVal
  | .const v => some (.const v)
  | .name n => env.get? n
  | .bin op a b => do
    let x ← symExpr I env a
    let y ← symExpr I env b
    symBin op x y
  | .neg a => do
    let x ← symExpr I env a
    symNeg x
  | .cmp first rest => do
    let x ← symExpr I env first
    symChainCmp I env x rest
  | .boolop isAnd args => symBool I env isAnd args
  | .not a => do
    let x ← symExpr I env a
    let t ← symTruthy I x
    pure (.const (.bool (!t)))
  | .ifexp c a b => do
    let t ← symExpr I env c
    let tb ← symTruthy I t
    if tb then symExpr I env a else symExpr I env b
  | .call f args => do
    let vs ← symArgs I env args
    symCall I f vs
  | .mcall _ _ => none
  | .sub e idx => do
    let c ← symExpr I env e
    let i ← symExpr I env idx
    symSub c i
  | .isIn e items neg => do
    let x ← symExpr I env e
    let vs ← symArgs I env items
    symIsIn x vs neg
  | .opaque _ => none
def symChainCmp (I : Ivl) (env : SEnv) (left : SVal) : List (CmpOp × Expr) → Option SVal
  | [] => some (.const (.bool true))
  | (op, e) :: rest => do
    let r ← symExpr I env e
    let ok ← symCmp I op left r
    if ok then symChainCmp I env r rest else pure (.const (.bool false))
def symBool (I : Ivl) (env : SEnv) (isAnd : Bool) : List Expr → Option SVal
  | [] => some (.const (.bool isAnd))
  | [e] => symExpr I env e
  | e :: rest => do
    let v ← symExpr I env e
    let t ← symTruthy I v
    if t = isAnd then symBool I env isAnd rest else pure v
def symArgs (I : Ivl) (env : SEnv) : List Expr → Option (List SVal)
  | [] => some []
  | e :: rest => do
    let v ← symExpr I env e
    let vs ← symArgs I env rest
    pure (v :: vs)
end

mutual
def symStmt (I : Ivl) (env : SEnv) : Stmt → Option (SEnv × Option SVal)
  | .assign x e => do
    let v ← symExpr I env e
    pure (env.set x v, none)
  | .aug x op e => do
    let old ← env.get? x
    let v ← symExpr I env e
    let r ← symBin op old v
    pure (env.set x r, none)
  | .ret e => do
    let v ← symExpr I env e
    pure (env, some v)
  | .ite c body orelse => do
    let t ← symExpr I env c
    let tb ← symTruthy I t
    if tb then symBlock I env body else symBlock I env orelse
  | .expr _ => pure (env, none)
  | .other _ => none
def symBlock (I : Ivl) (env : SEnv) : List Stmt → Option (SEnv × Option SVal)
  | [] => some (env, none)
  | s :: rest => do
    let (env', r) ← symStmt I env s
    match r with
    | some v => pure (env', some v)
    | none => symBlock I env' rest
end

def symFun (I : Ivl) (f : FunDef) (args : List SVal) : Option SVal :=
  if args.length ≠ f.args.length then none
  else
    match symBlock I (f.args.zip args) f.body with
    | some (_, r) => some (r.getD (.const .none))
    | none => none

/-! ### chains of rules -/

/-- argument `i` of `fn` is bound to the value named `argNames[i]` (an earlier node's result,
an input or a parameter tree) -/
structure ChainNode where
  name : String
  fn : FunDef
  argNames : List String
  deriving Repr

def slookupAll (env : SEnv) : List String → Option (List SVal)
  | [] => some []
  | n :: rest => do
    let v ← env.get? n
    let vs ← slookupAll env rest
    pure (v :: vs)

def lookupAll (env : Env) : List String → Except Err (List Val)
  | [] => .ok []
  | n :: rest => do
    let v ← match env.get? n with
      | some v => Except.ok v
      | Option.none => Except.error Err.nameError
    let vs ← lookupAll env rest
    pure (v :: vs)

/-- evaluates the nodes in order; each result is put in FRONT of the environment
(so it shadows an earlier binding of the same name) -/
def symChain (I : Ivl) (env : SEnv) : List ChainNode → Option SEnv
  | [] => some env
  | n :: rest => do
    let args ← slookupAll env n.argNames
    let r ← symFun I n.fn args
    symChain I ((n.name, r) :: env) rest

/-- concrete counterpart of `symChain` -/
def runChain (env : Env) : List ChainNode → Except Err Env
  | [] => .ok env
  | n :: rest => do
    let args ← lookupAll env n.argNames
    let r ← runFun n.fn args
    runChain ((n.name, r) :: env) rest

/-- a chain as a function of the single real input `wname` (bound to the float `w`),
all other inputs / parameters being the constants `consts` -/
structure Chain where
  wname : String
  consts : List (String × Val)
  nodes : List ChainNode
  deriving Repr

def constEnv : List (String × Val) → SEnv
  | [] => []
  | (k, v) :: rest => (k, .const v) :: constEnv rest

def Chain.symInputs (C : Chain) : SEnv := (C.wname, .aff 1 0) :: constEnv C.consts

def Chain.inputsAt (C : Chain) (w : Rat) : Env := (C.wname, .flt w) :: C.consts

/-- the concrete run at wage `w` -/
def Chain.run (C : Chain) (w : Rat) : Except Err Env := runChain (C.inputsAt w) C.nodes

/-- THE function the shape theorems talk about: the numeric value of `target` in the concrete
run of the chain at wage `w` (`none` if the run raises, the name is unbound or non-numeric) -/
def Chain.valAt (C : Chain) (target : String) (w : Rat) : Option Rat :=
  match C.run w with
  | .ok env =>
    match env.get? target with
    | some v => (num? v).map (·.1)
    | Option.none => Option.none
  | .error _ => Option.none

/-! ### piecewise decomposition of `[start, ∞)` -/

/-- `(b, inLeft)`: breakpoint `b`, belonging to the piece on its LEFT iff `inLeft`.
A point piece `{b}` is encoded as `(b, false), (b, true)`. -/
def piecesFrom (lo : Rat) (loClosed : Bool) : List (Rat × Bool) → List Ivl
  | [] => [⟨lo, loClosed, none, false⟩]
  | (b, inLeft) :: rest => ⟨lo, loClosed, some b, inLeft⟩ :: piecesFrom b (!inLeft) rest

def pieces (start : Rat) (bs : List (Rat × Bool)) : List Ivl := piecesFrom start true bs

/-- encodings of plain breakpoints `x₁ < x₂ < …`: every breakpoint in the LEFT piece
(`…, x]`, `(x, …` — rules written with `w <= x`), in the RIGHT piece (`w < x`), or as a point
piece of its own (the finest decomposition: whatever is certifiable with some closedness is
certifiable with this one) -/
def rightClosedBreaks (xs : List Rat) : List (Rat × Bool) := xs.map fun x => (x, true)
def leftClosedBreaks (xs : List Rat) : List (Rat × Bool) := xs.map fun x => (x, false)
def pointBreaks : List Rat → List (Rat × Bool)
  | [] => []
  | x :: rest => (x, false) :: (x, true) :: pointBreaks rest

/-- the symbolic run on one piece -/
def Chain.symPiece (C : Chain) (I : Ivl) : Option SEnv := symChain I C.symInputs C.nodes

def linOf (env : SEnv) (target : String) : Option (Rat × Rat) :=
  match env.get? target with
  | some sv => sv.lin?
  | none => none

def affinePiece (C : Chain) (target : String) (I : Ivl) : Option (Rat × Rat) :=
  match C.symPiece I with
  | some env => linOf env target
  | none => none

def affineOnL (C : Chain) (target : String) : List Ivl → Option (List (Ivl × Rat × Rat))
  | [] => some []
  | I :: rest =>
    match affinePiece C target I, affineOnL C target rest with
    | some (a, b), some ps => some ((I, a, b) :: ps)
    | _, _ => none

/-- affine form `(I, a, b)` (value `a*w + b` on `I`) of `target` on every piece -/
def affineOn (C : Chain) (target : String) (start : Rat) (bs : List (Rat × Bool)) :
    Option (List (Ivl × Rat × Rat)) :=
  affineOnL C target (pieces start bs)

/-! ### decidable shape checks on a list of affine pieces -/

abbrev Pieces := List (Ivl × Rat × Rat)

def nonnegChk (pcs : Pieces) : Bool := pcs.all fun p => allGe0 p.1 p.2.1 p.2.2

/-- slope `≥ 0`, or the piece is a single point -/
def slopeOK (I : Ivl) (a : Rat) : Bool := decide (0 ≤ a) || decide (I.hi = some I.lo)

def nondecFrom (I : Ivl) (a b : Rat) : Pieces → Bool
  | [] => slopeOK I a
  | (J, c, d) :: rest =>
    slopeOK I a && decide (I.hi = some J.lo) && decide (I.lo ≤ J.lo) &&
      decide (a * J.lo + b ≤ c * J.lo + d) && nondecFrom J c d rest

/-- consecutive pieces are adjacent and ordered, slopes are `≥ 0`, and at every junction the
one-sided limit from the left is `≤` the one from the right -/
def nondecChk : Pieces → Bool
  | [] => true
  | (I, a, b) :: rest => nondecFrom I a b rest

/-- `I` does not meet `{w ≤ g}` (`incl`) resp. `{w < g}` -/
def Ivl.aboveOf (I : Ivl) (g : Rat) (incl : Bool) : Bool :=
  if incl && I.loClosed then decide (g < I.lo) else decide (g ≤ I.lo)

/-- a superset of `I ∩ {w ≤ g}` (`incl`) resp. `I ∩ {w < g}` -/
def Ivl.clipHi (I : Ivl) (g : Rat) (incl : Bool) : Ivl :=
  match I.hi with
  | none => ⟨I.lo, I.loClosed, some g, incl⟩
  | some h => if g < h then ⟨I.lo, I.loClosed, some g, incl⟩ else I

/-- every piece is identically zero on its part in `{w ≤ g}` (resp. `{w < g}`) -/
def zeroBelowChk (g : Rat) (incl : Bool) (pcs : Pieces) : Bool :=
  pcs.all fun p => p.1.aboveOf g incl || allEq0 (p.1.clipHi g incl) p.2.1 p.2.2

/-- `I` does not meet `{c ≤ w}` (`incl`) resp. `{c < w}` -/
def Ivl.belowOf (I : Ivl) (c : Rat) (incl : Bool) : Bool :=
  match I.hi with
  | none => false
  | some h => if incl && I.hiClosed then decide (h < c) else decide (h ≤ c)

/-- a superset of `I ∩ {c ≤ w}` (`incl`) resp. `I ∩ {c < w}` -/
def Ivl.clipLo (I : Ivl) (c : Rat) (incl : Bool) : Ivl :=
  if I.lo < c then ⟨c, incl, I.hi, I.hiClosed⟩ else I

/-- every piece is identically `K` on its part in `{c ≤ w}` (resp. `{c < w}`) -/
def constAboveChk (c : Rat) (incl : Bool) (K : Rat) (pcs : Pieces) : Bool :=
  pcs.all fun p => p.1.belowOf c incl || allEq0 (p.1.clipLo c incl) p.2.1 (p.2.2 - K)

def lastConst : Pieces → Option Rat
  | [] => none
  | [(_, _, b)] => some b
  | _ :: rest => lastConst rest

def constantAboveChk (c : Rat) (incl : Bool) (pcs : Pieces) : Bool :=
  match lastConst pcs with
  | some K => constAboveChk c incl K pcs
  | none => false

/-- `m` lies in the closure of `I` -/
def Ivl.touches (I : Ivl) (m : Rat) : Bool :=
  decide (I.lo ≤ m) &&
  (match I.hi with
   | none => true
   | some h => decide (m ≤ h))

/-- every piece whose closure contains `m` has the (one-sided) limit `V` at `m` -/
def contChk (m V : Rat) (pcs : Pieces) : Bool :=
  pcs.all fun p => !p.1.touches m || decide (p.2.1 * m + p.2.2 = V)

def valueAt? (m : Rat) : Pieces → Option Rat
  | [] => none
  | (I, a, b) :: rest => if I.memB m then some (a * m + b) else valueAt? m rest

def continuousAtChk (m : Rat) (pcs : Pieces) : Bool :=
  match valueAt? m pcs with
  | some V => contChk m V pcs
  | none => false

/-- `t1 + t2 = t3` on every piece (one symbolic run per piece) -/
def sumEqChkL (C : Chain) (t1 t2 t3 : String) (Is : List Ivl) : Bool :=
  Is.all fun I =>
    match C.symPiece I with
    | some env =>
      match linOf env t1, linOf env t2, linOf env t3 with
      | some (a1, b1), some (a2, b2), some (a3, b3) => allEq0 I (a1 + a2 - a3) (b1 + b2 - b3)
      | _, _, _ => false
    | none => false

def sumEqChk (C : Chain) (t1 t2 t3 : String) (start : Rat) (bs : List (Rat × Bool)) : Bool :=
  sumEqChkL C t1 t2 t3 (pieces start bs)

/-- run a check on the affine forms of `target`; `false` if they cannot be computed -/
def checkOn (chk : Pieces → Bool) (C : Chain) (target : String) (start : Rat)
    (bs : List (Rat × Bool)) : Bool :=
  match affineOn C target start bs with
  | some pcs => chk pcs
  | none => false

/-! ### a miniature contribution chain (non-vacuity of the soundness theorems, driver tests)

```
geringf(w)   = w <= 450
gleitzone(w) = 450 < w and w <= 1300
bemessung(w, F) = F*450 + (1300/(1300-450) - 450/(1300-450)*F) * (w - 450)
beitrag(w, geringf, gleitzone, bemessung) =
    if geringf: return 0.0
    elif gleitzone: return bemessung*0.186 - w*0.093
    else: return min(w, 7100)*0.093
gesamt(w, geringf, gleitzone, bemessung) =
    if geringf: out = 0.0
    elif gleitzone: out = bemessung*0.186
    else: out = min(w, 7100)*0.186
    return out
ag(g, a) = g - a
```
-/
namespace Mini

def nW : Expr := .name "w"
def cI (i : Int) : Expr := .const (.int i)
def cF (q : Rat) : Expr := .const (.flt q)

def geringfFn : FunDef := ⟨"geringf", ["w"], [.ret (.cmp nW [(.le, cI 450)])]⟩

def gleitzoneFn : FunDef := ⟨"gleitzone", ["w"],
  [.ret (.boolop true [.cmp (cI 450) [(.lt, nW)], .cmp nW [(.le, cI 1300)]])]⟩

def bemessungFn : FunDef := ⟨"bemessung", ["w", "F"],
  [.ret (.bin .add (.bin .mul (.name "F") (cI 450))
     (.bin .mul
        (.bin .sub (.bin .div (cI 1300) (.bin .sub (cI 1300) (cI 450)))
                   (.bin .mul (.bin .div (cI 450) (.bin .sub (cI 1300) (cI 450))) (.name "F")))
        (.bin .sub nW (cI 450))))]⟩

def beitragFn : FunDef := ⟨"beitrag", ["w", "geringf", "gleitzone", "bemessung"],
  [.ite (.name "geringf") [.ret (cF 0)]
     [.ite (.name "gleitzone")
        [.ret (.bin .sub (.bin .mul (.name "bemessung") (cF (186/1000)))
                         (.bin .mul nW (cF (93/1000))))]
        [.ret (.bin .mul (.call "min" [nW, cI 7100]) (cF (93/1000)))]]]⟩

def gesamtFn : FunDef := ⟨"gesamt", ["w", "geringf", "gleitzone", "bemessung"],
  [.ite (.name "geringf") [.assign "out" (cF 0)]
     [.ite (.name "gleitzone")
        [.assign "out" (.bin .mul (.name "bemessung") (cF (186/1000)))]
        [.assign "out" (.bin .mul (.call "min" [nW, cI 7100]) (cF (186/1000)))]],
   .ret (.name "out")]⟩

def agFn : FunDef := ⟨"ag", ["g", "a"], [.ret (.bin .sub (.name "g") (.name "a"))]⟩

def chain : Chain := ⟨"w", [("F", .flt (3/4))],
  [⟨"geringf", geringfFn, ["w"]⟩, ⟨"gleitzone", gleitzoneFn, ["w"]⟩,
   ⟨"bemessung", bemessungFn, ["w", "F"]⟩,
   ⟨"beitrag", beitragFn, ["w", "geringf", "gleitzone", "bemessung"]⟩,
   ⟨"gesamt", gesamtFn, ["w", "geringf", "gleitzone", "bemessung"]⟩,
   ⟨"ag", agFn, ["gesamt", "beitrag"]⟩]⟩

/-- the rules use `w <= G`: every breakpoint belongs to the piece on its left -/
def bs : List (Rat × Bool) := [(450, true), (1300, true), (7100, true)]

/-- the finest decomposition: alternating open pieces and points -/
def bsPoints : List (Rat × Bool) :=
  [(450, false), (450, true), (1300, false), (1300, true), (7100, false), (7100, true)]

/-- wrong closedness (`[0,450)`, `[450,1300)`, …): must NOT be certifiable -/
def bsWrong : List (Rat × Bool) := [(450, false), (1300, false), (7100, false)]

end Mini

end GV.Sym
