/-
Dependency graphs with interned nodes and *checkable certificates* of acyclicity.

The real code (`dags.create_dag` / `dags.dag.topological_sort` as used by
`interface.compute_taxes_and_transfers`) builds a networkx DiGraph over the qualified names of
the policy environment and fails if it contains a cycle.  Here the nodes are interned as
`0 … n-1`; `deps[i]` are the nodes that node `i` reads.  The driver exports the graph together
with the topological order computed by the real code; `certOK` re-checks this order inside Lean
(no search, only table look-ups).

Kernel performance: stepping through a `List` costs the kernel ≈ 50 µs per cell, so a
`List`-based position table (`List.set` / `List.getD`, O(n) per look-up) needs ≈ 40 s for
450 nodes / 2 245 edges.  The position table is therefore packed into ONE natural number
(`width n` bits per node); a look-up is a shift and a remainder, which the kernel performs
with GMP in O(1) reduction steps.  Every list (`order`, `deps`) is traversed exactly once.
The same graph then checks in ≈ 1.5 s.

Mathlib-free, executable, structural recursion only.
-/
namespace GV.Graph

structure G where
  n : Nat
  deps : List (List Nat)
  deriving Repr, DecidableEq

/-- the nodes read by node `i` (nothing for an index outside the table) -/
def G.depsOf (g : G) (i : Nat) : List Nat := g.deps.getD i []

/-- bits per entry of the packed position table (`n < 2 ^ width n`) -/
def width (n : Nat) : Nat := n.log2 + 1

/-- entry `a` of the packed table `P` with `w` bits per entry -/
def look (w P a : Nat) : Nat := (P >>> (w * a)) % 2 ^ w

/-- one pass over the certificate: write `k` into entry `order[k]` -/
def packLoop (w : Nat) : List Nat → Nat → Nat → Nat
  | [], _, acc => acc
  | v :: rest, k, acc => packLoop w rest (k + 1) (acc ||| (k <<< (w * v)))

/-- packed position table: entry `i` = index of node `i` in `order` -/
def posPack (n : Nat) (order : List Nat) : Nat := packLoop (width n) order 0 0

/-- `pos : List Nat` view of the packed table (`pos[i]` = index of node `i` in `order`);
for the driver / for inspection, not used by the kernel check -/
def position (order : List Nat) (n : Nat) : List Nat :=
  (List.range n).map (look (width n) (posPack n order))

/-- bit mask of the nodes occurring in the certificate -/
def maskLoop : List Nat → Nat → Nat
  | [], acc => acc
  | v :: rest, acc => maskLoop rest (acc ||| (1 <<< v))

/-- every slot `k` of the certificate holds a node `v < n` whose table entry is `k`
(so no node occurs twice) -/
def backLoop (n w P : Nat) : List Nat → Nat → Bool
  | [], _ => true
  | v :: rest, k => decide (v < n) && look w P v == k && backLoop n w P rest (k + 1)

/-- every edge `i → d` stays inside the graph and goes strictly backwards in the order -/
def edgesLoop (n w P : Nat) : List (List Nat) → Nat → Bool
  | [], _ => true
  | ds :: rest, i =>
    ds.all (fun d => decide (d < n) && decide (look w P d < look w P i)) &&
      edgesLoop n w P rest (i + 1)

/-- the certificate check: `deps` has one row per node; `order` has `n` entries, contains
every node `< n` (mask), contains only nodes `< n` and none twice (look-back), i.e. it is a
permutation of `0 … n-1`; and every node appears after all its dependencies -/
def certOK (g : G) (order : List Nat) : Bool :=
  let w := width g.n
  let P := posPack g.n order
  g.deps.length == g.n && order.length == g.n && maskLoop order 0 == 2 ^ g.n - 1 &&
    backLoop g.n w P order 0 && edgesLoop g.n w P g.deps 0

/-- rank of a node under a certificate (its position in `order`; `0` outside the graph) -/
def rank (g : G) (order : List Nat) (a : Nat) : Nat :=
  if a < g.n then look (width g.n) (posPack g.n order) a else 0

/-- indices `i, i+1, …, i+m-1` whose row is empty (missing rows count as empty) -/
def rootsLoop : List (List Nat) → Nat → Nat → List Nat
  | _, _, 0 => []
  | [], i, m + 1 => i :: rootsLoop [] (i + 1) m
  | ds :: rest, i, m + 1 =>
    if ds.isEmpty then i :: rootsLoop rest (i + 1) m else rootsLoop rest (i + 1) m

/-- nodes without dependencies (these must be supplied as data or parameters) -/
def roots (g : G) : List Nat := rootsLoop g.deps 0 g.n

/-- every root is one of the `allowed` nodes -/
def rootsAllowed (g : G) (allowed : List Nat) : Bool :=
  (roots g).all fun i => allowed.contains i

/-- add to `seen` everything read by a member of `seen` (no duplicates added) -/
def expand (g : G) (seen : List Nat) : List Nat :=
  (seen.flatMap g.depsOf).foldl (fun acc d => if acc.contains d then acc else acc ++ [d]) seen

/-- nodes reachable from `targets` through at most `fuel` dependency steps
(`dags.create_dag(functions, targets)` keeps exactly these when `fuel ≥ n`) -/
def reachable (g : G) : Nat → List Nat → List Nat
  | 0, targets => targets
  | fuel + 1, targets => reachable g fuel (expand g targets)

/-- synthetic test graph: node `i` reads `i-1, i-3, i-7, i-13, i/2` where these are `< i` -/
def synth (n : Nat) : G :=
  { n := n
    deps := (List.range n).map fun i =>
      ([i - 1, i - 3, i - 7, i - 13, i / 2].filter fun d => decide (d < i)) }

/-- `synth n` with the numbering reversed (node `i` becomes `n-1-i`), so that the only
topological orders are far from the identity -/
def synthRev (n : Nat) : G :=
  { n := n
    deps := (List.range n).map fun j =>
      let i := n - 1 - j
      ([i - 1, i - 3, i - 7, i - 13, i / 2].filter fun d => decide (d < i)).map fun d => n - 1 - d }

def edgeCount (g : G) : Nat := (g.deps.map List.length).sum

end GV.Graph
