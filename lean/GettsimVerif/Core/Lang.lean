import GettsimVerif.Core.Yaml
import GettsimVerif.Core.Piecewise
/-
Deep embedding of the restricted Python style the policy rules are written in
(docs/gettsim_developer/code-restrictions.md) and its scalar semantics: Python on
`int | float | bool` (floats are exact rationals in the model) with short-circuit
`and`/`or`, errors for division by zero / missing key / unbound name.
-/
namespace GV.Lang
open GV.Yaml

inductive Val where
  | int (i : Int)
  | flt (q : Rat)
  | bool (b : Bool)
  | inf (neg : Bool)        -- ±numpy.inf
  | str (s : String)
  | tree (y : Y)            -- a parameter (sub)dictionary or list
  | none
  deriving Repr, Inhabited

inductive BinOp where
  | add | sub | mul | div
  deriving DecidableEq, Repr

inductive CmpOp where
  | lt | le | gt | ge | eq | ne
  deriving DecidableEq, Repr

inductive Expr where
  | const (v : Val)
  | name (n : String)
  | bin (op : BinOp) (a b : Expr)
  | neg (a : Expr)
  | cmp (first : Expr) (rest : List (CmpOp × Expr))     -- chained comparison
  | boolop (isAnd : Bool) (args : List Expr)             -- n-ary `and` / `or`
  | not (a : Expr)
  | ifexp (c a b : Expr)
  | call (f : String) (args : List Expr)                 -- builtins min max sum any all float abs
  | mcall (f : String) (args : List Expr)                -- <module>.f(...) after the rewrite
  | sub (e : Expr) (idx : Expr)                          -- e[idx]
  | isIn (e : Expr) (items : List Expr) (negated : Bool) -- e in [a, b, …]
  | opaque (what : String)                               -- anything else (never evaluated)
  deriving Repr, Inhabited

inductive Stmt where
  | assign (x : String) (e : Expr)
  | aug (x : String) (op : BinOp) (e : Expr)
  | ret (e : Expr)
  | ite (c : Expr) (body orelse : List Stmt)
  | expr (e : Expr)                                       -- expression statement (docstring)
  | other (what : String)                                 -- raise / for / …
  deriving Repr, Inhabited

structure FunDef where
  name : String
  args : List String
  body : List Stmt
  deriving Repr

/-! ### scalar semantics -/

abbrev Env := List (String × Val)

def Env.get? (env : Env) (n : String) : Option Val :=
  match env with
  | [] => Option.none
  | (k, v) :: rest => if k = n then some v else Env.get? rest n

def Env.set (env : Env) (n : String) (v : Val) : Env :=
  match env with
  | [] => [(n, v)]
  | (k, w) :: rest => if k = n then (n, v) :: rest else (k, w) :: Env.set rest n v

/-- numeric view: value and "is a float" -/
def num? : Val → Option (Rat × Bool)
  | .int i => some ((i : Rat), false)
  | .flt q => some (q, true)
  | .bool b => some ((if b then 1 else 0), false)
  | _ => Option.none

def mkNum (q : Rat) (isFloat : Bool) : Val :=
  if isFloat then .flt q else .int q.num

def truthy : Val → Bool
  | .int i => i ≠ 0
  | .flt q => q ≠ 0
  | .bool b => b
  | .inf _ => true
  | .str s => s ≠ ""
  | .tree (.dict kvs) => !kvs.isEmpty
  | .tree (.list xs) => !xs.isEmpty
  | .tree _ => true
  | .none => false

def binNum (op : BinOp) (a b : Rat) (fa fb : Bool) : Except Err Val :=
  match op with
  | .add => .ok (mkNum (a + b) (fa || fb))
  | .sub => .ok (mkNum (a - b) (fa || fb))
  | .mul => .ok (mkNum (a * b) (fa || fb))
  | .div => if b = 0 then .error .zeroDiv else .ok (.flt (a / b))

def evalBin (op : BinOp) (x y : Val) : Except Err Val :=
  match num? x, num? y with
  | some (a, fa), some (b, fb) => binNum op a b fa fb
  | _, _ =>
    -- arithmetic with ±inf (only the cases that stay infinite or become 0; NaN cases are errors in the model)
    match x, y, op with
    | .inf n, .inf m, .add => if n = m then .ok (.inf n) else .error .other
    | .inf n, .inf m, .sub => if n = m then .error .other else .ok (.inf n)
    | .inf n, v, .add | .inf n, v, .sub => if (num? v).isSome then .ok (.inf n) else .error .typeError
    | v, .inf n, .add => if (num? v).isSome then .ok (.inf n) else .error .typeError
    | v, .inf n, .sub => if (num? v).isSome then .ok (.inf (!n)) else .error .typeError
    | v, .inf _, .div => if (num? v).isSome then .ok (.flt 0) else .error .typeError
    | .inf n, v, .mul | v, .inf n, .mul =>
      match num? v with
      | some (q, _) => if q = 0 then .error .other else .ok (.inf (if q < 0 then !n else n))
      | Option.none => .error .typeError
    | _, _, _ => .error .typeError

/-- total order view for comparisons: −∞ < rationals < +∞ -/
inductive Ord3 where
  | lo | mid (q : Rat) | hi

def ord? : Val → Option Ord3
  | .inf true => some .lo
  | .inf false => some .hi
  | v => (num? v).map fun (q, _) => .mid q

def ordLt : Ord3 → Ord3 → Bool
  | .lo, .lo => false | .lo, _ => true
  | .mid _, .lo => false | .mid a, .mid b => a < b | .mid _, .hi => true
  | .hi, _ => false

def ordEq : Ord3 → Ord3 → Bool
  | .lo, .lo => true | .hi, .hi => true | .mid a, .mid b => a = b | _, _ => false

def evalCmp (op : CmpOp) (x y : Val) : Except Err Bool :=
  match ord? x, ord? y with
  | some a, some b =>
    .ok (match op with
      | .lt => ordLt a b | .le => ordLt a b || ordEq a b
      | .gt => ordLt b a | .ge => ordLt b a || ordEq a b
      | .eq => ordEq a b | .ne => !ordEq a b)
  | _, _ =>
    match x, y, op with
    | .str a, .str b, .eq => .ok (a = b)
    | .str a, .str b, .ne => .ok (a ≠ b)
    | _, _, .eq => .ok false
    | _, _, .ne => .ok true
    | _, _, _ => .error .typeError

def leafVal : Y → Val
  | .num q => .flt q
  | .pinf => .inf false
  | .ninf => .inf true
  | .bool b => .bool b
  | .str "inf" => .inf false
  | .str "-inf" => .inf true
  | .str s => .str s
  | .null => .none
  | y => .tree y

def evalSub (c idx : Val) : Except Err Val :=
  match c with
  | .tree (.dict kvs) =>
    let key? : Option Key := match idx with
      | .str s => some (.s s)
      | .int i => some (.i i)
      | .bool b => some (.i (if b then 1 else 0))
      | .flt q => if q.den = 1 then some (.i q.num) else Option.none
      | _ => Option.none
    match key? with
    | some k => match kvGet? kvs k with
      | some v => .ok (leafVal v)
      | Option.none => .error .keyError
    | Option.none => .error .keyError
  | .tree (.list xs) =>
    match idx with
    | .int i =>
      let j := if i < 0 then i + xs.length else i
      if 0 ≤ j ∧ j < xs.length then .ok (leafVal (xs.getD j.toNat .null)) else .error .shape
    | _ => .error .typeError
  | _ => .error .typeError

/-- Python `max(a, b, …)` / `min(…)`: the first extremal argument is returned -/
def pickExt (isMax : Bool) : List Val → Except Err Val
  | [] => .error .typeError
  | [v] => .ok v
  | v :: rest => do
    let r ← pickExt isMax rest
    -- Python scans left to right keeping the first; equivalently the leftmost extremal
    let better ← if isMax then evalCmp .lt v r else evalCmp .gt v r   -- r strictly better than v?
    pure (if better then r else v)

/-- `max(d)` / `min(d)` for a dictionary with integer keys -/
def intKeyExt (isMax : Bool) (kvs : List (Key × Y)) : Except Err Val :=
  let ks := kvs.filterMap fun (k, _) => match k with | .i n => some n | _ => Option.none
  if ks.length ≠ kvs.length then .error .typeError
  else match ks with
    | [] => .error .valueError
    | k :: rest => .ok (.int (rest.foldl (fun a b => if isMax then max a b else min a b) k))

def scheduleOfVal (thr rates ic : Val) : Except Err Piecewise.Schedule := do
  let ext (y : Y) : Except Err Piecewise.Ext := match y with
    | .num q => .ok (.fin q) | .pinf => .ok .posInf | .ninf => .ok .negInf
    | .str "inf" => .ok .posInf | .str "-inf" => .ok .negInf | _ => .error .typeError
  let rat (y : Y) : Except Err Rat := match y with | .num q => .ok q | _ => .error .typeError
  match thr, rates, ic with
  | .tree (.list ts), .tree (.list rows), .tree (.list cs) => do
    let t ← ts.mapM ext
    let r ← rows.mapM fun row => match row with
      | .list xs => xs.mapM rat
      | _ => .error .typeError
    let c ← cs.mapM rat
    pure { thresholds := t, rates := r, intercepts := c }
  | _, _, _ => .error .typeError

def evalCall (f : String) (args : List Val) : Except Err Val :=
  match f, args with
  | "max", [.tree (.dict kvs)] => intKeyExt true kvs
  | "min", [.tree (.dict kvs)] => intKeyExt false kvs
  | "max", _ :: _ :: _ => pickExt true args
  | "min", _ :: _ :: _ => pickExt false args
  | "float", [v] => match num? v with
    | some (q, _) => .ok (.flt q)
    | Option.none => match v with | .inf n => .ok (.inf n) | _ => .error .typeError
  | "abs", [v] => match num? v with
    | some (q, fl) => .ok (mkNum (if q < 0 then -q else q) fl)
    | Option.none => .error .typeError
  | "piecewise_polynomial", [x, thr, rates, ic] => do
    let s ← scheduleOfVal thr rates ic
    match num? x with
    | some (q, _) => pure (.flt (Piecewise.eval s q))
    | Option.none => .error .typeError
  | _, _ => .error .notImpl

mutual
def evalExpr (env : Env) : Expr → Except Err Val
  | .const v => .ok v
  | .name n => match env.get? n with
    | some v => .ok v
    | Option.none => .error .nameError
  | .bin op a b => do
    let x ← evalExpr env a
    let y ← evalExpr env b
    evalBin op x y
  | .neg a => do
    let x ← evalExpr env a
    match x with
    | .inf n => pure (.inf (!n))
    | _ => match num? x with
      | some (q, fl) => pure (mkNum (-q) fl)
      | Option.none => .error .typeError
  | .cmp first rest => do
    let x ← evalExpr env first
    evalChain env x rest
  | .boolop isAnd args => evalBool env isAnd args
  | .not a => do
    let x ← evalExpr env a
    pure (.bool (!truthy x))
  | .ifexp c a b => do
    let t ← evalExpr env c
    if truthy t then evalExpr env a else evalExpr env b
  | .call f args => do
    let vs ← evalArgs env args
    evalCall f vs
  | .mcall _ _ => .error .notImpl
  | .sub e idx => do
    let c ← evalExpr env e
    let i ← evalExpr env idx
    evalSub c i
  | .isIn e items neg => do
    let x ← evalExpr env e
    let vs ← evalArgs env items
    let hit ← vs.foldlM (fun acc v => do
      let eq ← evalCmp .eq x v
      pure (acc || eq)) false
    pure (.bool (if neg then !hit else hit))
  | .opaque _ => .error .notImpl
/-- `a < b <= c`: short-circuit, each operand evaluated once -/
def evalChain (env : Env) (left : Val) : List (CmpOp × Expr) → Except Err Val
  | [] => .ok (.bool true)
  | (op, e) :: rest => do
    let r ← evalExpr env e
    let ok ← evalCmp op left r
    if ok then evalChain env r rest else pure (.bool false)
/-- `a and b and c` returns the first falsy operand or the last one (`or`: first truthy) -/
def evalBool (env : Env) (isAnd : Bool) : List Expr → Except Err Val
  | [] => .ok (.bool isAnd)
  | [e] => evalExpr env e
  | e :: rest => do
    let v ← evalExpr env e
    if truthy v = isAnd then evalBool env isAnd rest else pure v
def evalArgs (env : Env) : List Expr → Except Err (List Val)
  | [] => .ok []
  | e :: rest => do
    let v ← evalExpr env e
    let vs ← evalArgs env rest
    pure (v :: vs)
end

mutual
/-- executes statements; `some v` = a `return` was executed -/
def execStmt (env : Env) : Stmt → Except Err (Env × Option Val)
  | .assign x e => do
    let v ← evalExpr env e
    pure (env.set x v, Option.none)
  | .aug x op e => do
    let old ← match env.get? x with | some v => pure v | Option.none => throw Err.nameError
    let v ← evalExpr env e
    let r ← evalBin op old v
    pure (env.set x r, Option.none)
  | .ret e => do
    let v ← evalExpr env e
    pure (env, some v)
  | .ite c body orelse => do
    let t ← evalExpr env c
    if truthy t then execBlock env body else execBlock env orelse
  | .expr _ => pure (env, Option.none)   -- docstrings / bare expressions have no effect here
  | .other _ => .error .notImpl
def execBlock (env : Env) : List Stmt → Except Err (Env × Option Val)
  | [] => .ok (env, Option.none)
  | s :: rest => do
    let (env', r) ← execStmt env s
    match r with
    | some v => pure (env', some v)
    | Option.none => execBlock env' rest
end

/-- call a function on argument values (falling off the end returns `None`) -/
def runFun (f : FunDef) (args : List Val) : Except Err Val := do
  if args.length ≠ f.args.length then throw Err.typeError
  let (_, r) ← execBlock (f.args.zip args) f.body
  pure (r.getD .none)

end GV.Lang
