import GettsimVerif.Core.Basic
/-
Model of `_gettsim/piecewise_functions.py` and `policy_environment.add_progressionsfaktor`
over exact rationals extended by ±∞ for thresholds.
-/
namespace GV.Piecewise

/-- extended rationals (thresholds may be `-inf` / `inf`) -/
inductive Ext where
  | negInf | fin (q : Rat) | posInf
  deriving DecidableEq, Repr

def Ext.le : Ext → Ext → Bool
  | .negInf, _ => true
  | _, .posInf => true
  | .fin a, .fin b => a ≤ b
  | _, _ => false

/-- raw piece as it appears in the YAML file (after `deviation_from` merging) -/
structure RawPiece where
  lower : Option Ext := none
  upper : Option Ext := none
  rate : Option Rat := none          -- key `rate`
  rateLinear : Option Rat := none    -- key `rate_linear`
  rateQuadratic : Option Rat := none
  rateCubic : Option Rat := none
  intercept : Option Rat := none
  deriving Repr

/-- parsed schedule: `thresholds` has one more entry than there are pieces,
`rates[p][i]` is the coefficient of `(x - t_i)^(p+1)` on piece `i`. -/
structure Schedule where
  thresholds : List Ext
  rates : List (List Rat)
  intercepts : List Rat
  deriving Repr, DecidableEq

def insertSorted (x : Ext) : List Ext → List Ext
  | [] => [x]
  | y :: ys => if Ext.le x y then x :: y :: ys else y :: insertSorted x ys

def sortExt (l : List Ext) : List Ext := l.foldr insertSorted []

/-- `check_thresholds` -/
def checkThresholds (ps : List RawPiece) : Except Err (List Ext × List Ext × List Ext) := do
  let n := ps.length
  if n = 0 then throw .keyError
  let first := ps.getD 0 {}
  let last := ps.getD (n - 1) {}
  let lo0 ← match first.lower with | some l => pure l | none => throw .valueError
  let upN ← match last.upper with | some u => pure u | none => throw .valueError
  if upN ≠ .posInf || lo0 ≠ .negInf then throw .valueError
  -- lower thresholds
  let lowers ← (List.range n).mapM fun i =>
    if i = 0 then pure lo0 else
      match (ps.getD i {}).lower, (ps.getD (i - 1) {}).upper with
      | some l, _ => pure l
      | none, some u => pure u
      | none, none => throw Err.valueError
  let uppers ← (List.range n).mapM fun i =>
    if i = n - 1 then pure upN else
      match (ps.getD i {}).upper, (ps.getD (i + 1) {}).lower with
      | some u, _ => pure u
      | none, some l => pure l
      | none, none => throw Err.valueError
  -- `numpy.allclose(lower[1:], upper[:-1])` (exact in the model)
  if lowers.drop 1 ≠ uppers.dropLast then throw .valueError
  pure (lowers, uppers, sortExt (lo0 :: uppers))

/-- `check_rates`; `degree` = 1 (linear), 2 (quadratic), 3 (cubic) -/
def checkRates (ps : List RawPiece) (degree : Nat) : Except Err (List (List Rat)) :=
  if degree = 1 then do
    let r ← ps.mapM fun p => match p.rate, p.rateLinear with
      | some r, _ => pure r
      | none, some r => pure r
      | none, none => throw Err.valueError
    pure [r]
  else if degree = 2 ∨ degree = 3 then do
    let lin ← ps.mapM fun p => match p.rateLinear with | some r => pure r | none => throw Err.valueError
    let quad ← ps.mapM fun p => match p.rateQuadratic with | some r => pure r | none => throw Err.valueError
    if degree = 2 then pure [lin, quad] else do
      let cub ← ps.mapM fun p => match p.rateCubic with | some r => pure r | none => throw Err.valueError
      pure [lin, quad, cub]
  else throw .valueError

/-- polynomial increment `Σ_p rates[p][i] * inc^(p+1)` -/
def polyInc (rates : List (List Rat)) (i : Nat) (inc : Rat) : Rat :=
  (rates.zipIdx.map fun (row, p) => row.getD i 0 * inc ^ (p + 1)).foldl (· + ·) 0

/-- `create_intercepts` / `calculate_intercepts`: intercept `i+1` is the value of piece `i`
at its upper threshold. -/
def createIntercepts (lowers uppers : List Ext) (rates : List (List Rat)) (c0 : Rat) :
    List Rat :=
  let n := lowers.length
  (List.range (n - 1)).foldl (fun acc i =>
    let prev := acc.getD i 0
    match lowers.getD i .negInf, uppers.getD i .posInf with
    | .fin l, .fin u => acc ++ [prev + polyInc rates i (u - l)]
    | _, _ => acc ++ [prev]) [c0]

/-- `check_intercepts` -/
def checkIntercepts (ps : List RawPiece) (lowers uppers : List Ext) (rates : List (List Rat)) :
    Except Err (List Rat) := do
  let c0 ← match (ps.getD 0 {}).intercept with | some c => pure c | none => throw .valueError
  let supplied := 1 + ((ps.drop 1).filter (·.intercept.isSome)).length
  if supplied > 1 ∧ supplied ≠ ps.length then throw .valueError
  if supplied = ps.length then pure (ps.map fun p => p.intercept.getD 0)
  else pure (createIntercepts lowers uppers rates c0)

/-- `get_piecewise_parameters` -/
def parse (ps : List RawPiece) (degree : Nat) : Except Err Schedule := do
  let (lowers, uppers, thr) ← checkThresholds ps
  let rates ← checkRates ps degree
  let ic ← checkIntercepts ps lowers uppers rates
  pure { thresholds := thr, rates := rates, intercepts := ic }

/-- `add_progressionsfaktor`: fill in missing quadratic rates
`(rate_linear[i+1] - rate_linear[i]) / (2 * (upper[i] - lower[i]))`;
an infinite width gives `0.0` in floating point. -/
def addProgressionsfaktor (ps : List RawPiece) : Except Err (List RawPiece) := do
  let (lowers, uppers, _) ← checkThresholds ps
  (List.range ps.length).mapM fun i =>
    let p := ps.getD i {}
    match p.rateQuadratic with
    | some _ => pure p
    | none =>
      match p.rateLinear, (ps[i + 1]?).bind (·.rateLinear) with
      | some r0, some r1 =>
        match lowers.getD i .negInf, uppers.getD i .posInf with
        | .fin l, .fin u =>
          if u - l = 0 then throw Err.zeroDiv
          else pure { p with rateQuadratic := some ((r1 - r0) / (2 * (u - l))) }
        | _, _ => pure { p with rateQuadratic := some 0 }
      | _, _ => throw Err.keyError

/-- `searchsorted(thresholds, x, side="right") - 1` for sorted thresholds whose first
entry is `-inf`: the number of finite thresholds `≤ x`. -/
def selectedBin (thresholds : List Ext) (x : Rat) : Nat :=
  (thresholds.filter fun t => match t with | .fin q => q ≤ x | _ => false).length

/-- `piecewise_polynomial(x, thresholds, rates, intercepts)` (no `rates_multiplier`) -/
def eval (s : Schedule) (x : Rat) : Rat :=
  let b := selectedBin s.thresholds x
  let c := s.intercepts.getD b 0
  if b = 0 then c
  else match s.thresholds.getD b .negInf with
    | .fin t => c + polyInc s.rates b (x - t)
    | _ => c

/-- `piecewise_polynomial(x, thresholds, rates, intercepts, rates_multiplier = m)`: the pre-computed
intercepts are not used; the intercept of the selected piece is rebuilt from `intercepts[0]` by
adding, for every piece `i - 1` with `2 ≤ i < num_intervals` that lies completely below the
selected one (`selected_bin ≥ i`), `m * Σ_p rates[p][i-1] * (thresholds[i] - thresholds[i-1])^(p+1)`;
then `m * Σ_p rates[p][bin] * (x - thresholds[bin])^(p+1)` is added if `bin > 0`.
(Thresholds `1 … num_intervals - 1` are finite in every well-formed schedule; an infinite one
would give `inf`/`nan` in the code and contributes nothing here.) -/
def evalMul (s : Schedule) (m x : Rat) : Rat :=
  let b := selectedBin s.thresholds x
  let n := s.thresholds.length - 1
  let base := (List.range (n - 2)).foldl (fun acc k =>
      let i := k + 2
      if i ≤ b then
        match s.thresholds.getD (i - 1) .negInf, s.thresholds.getD i .posInf with
        | .fin l, .fin u => acc + m * polyInc s.rates (i - 1) (u - l)
        | _, _ => acc
      else acc) (s.intercepts.getD 0 0)
  if b = 0 then base
  else match s.thresholds.getD b .negInf with
    | .fin t => base + m * polyInc s.rates b (x - t)
    | _ => base

end GV.Piecewise
