import GettsimVerif.Core.Basic
/-
Model of `_gettsim/aggregation_numpy.py` and `shared.join_numpy`.

`npg.aggregate(group_id, column, func=f, fill_value=0)` scatters the column into a
table indexed by the group id (folding `f`), the result is gathered by `group_id`.
The table is modelled as an association list id ↦ accumulator; `numpy_groupies`
rejects negative ids and arrays of different length.
-/
namespace GV.Agg

/-- Scatter step: fold `v` into the accumulator stored under `g`. -/
def bump {α : Type} (f : α → α → α) (t : List (Int × α)) (g : Int) (v : α) : List (Int × α) :=
  match dictGet? t g with
  | none => dictSet t g v
  | some a => dictSet t g (f a v)

def scatter {α : Type} (f : α → α → α) : List Int → List α → List (Int × α) → List (Int × α)
  | g :: gs, v :: vs, t => scatter f gs vs (bump f t g v)
  | _, _, t => t

def gather {α : Type} (dflt : α) (t : List (Int × α)) (gid : List Int) : List α :=
  gid.map fun g => (dictGet? t g).getD dflt

def guard (gid : List Int) (n : Nat) : Except Err Unit :=
  if gid.length ≠ n then .error .shape
  else if gid.any (· < 0) then .error .valueError
  else .ok ()

/-- generic grouped reduction -/
def grouped {α : Type} (f : α → α → α) (dflt : α) (col : List α) (gid : List Int) :
    Except Err (List α) := do
  guard gid col.length
  pure (gather dflt (scatter f gid col []) gid)

def groupedSum (col : List Rat) (gid : List Int) := grouped (· + ·) 0 col gid
def groupedSumInt (col : List Int) (gid : List Int) := grouped (· + ·) 0 col gid
def groupedMax (col : List Rat) (gid : List Int) := grouped max 0 col gid
def groupedMin (col : List Rat) (gid : List Int) := grouped min 0 col gid
def groupedAny (col : List Bool) (gid : List Int) := grouped (· || ·) false col gid
def groupedAll (col : List Bool) (gid : List Int) := grouped (· && ·) true col gid

def groupedCount (gid : List Int) : Except Err (List Int) :=
  grouped (· + ·) 0 (gid.map fun _ => (1 : Int)) gid

/-- `npg.aggregate(func="mean")` = sum / count per group. -/
def groupedMean (col : List Rat) (gid : List Int) : Except Err (List Rat) := do
  let s ← groupedSum col gid
  let c ← groupedCount gid
  pure (List.zipWith (fun (a : Rat) (b : Int) => a / (b : Rat)) s c)

/-- `sum_by_p_id`: `out = zeros; pos = {p: i}; for i, r in enumerate(ptr): if r >= 0: out[pos[r]] += col[i]` -/
def posMap (pid : List Int) : List (Int × Nat) :=
  (pid.zipIdx).foldl (fun d (p, i) => dictSet d p i) []

def addAt (out : List Rat) (k : Nat) (v : Rat) : List Rat :=
  out.zipIdx.map fun (x, i) => if i = k then x + v else x

def sumByPidLoop (pos : List (Int × Nat)) : List Int → List Rat → List Rat → Except Err (List Rat)
  | r :: rs, v :: vs, out =>
    if r ≥ 0 then
      match dictGet? pos r with
      | none => .error .keyError
      | some k => sumByPidLoop pos rs vs (addAt out k v)
    else sumByPidLoop pos rs vs out
  | _, _, out => .ok out

def sumByPid (col : List Rat) (ptr : List Int) (pid : List Int) : Except Err (List Rat) :=
  if ptr.length ≠ col.length then .error .shape
  else sumByPidLoop (posMap pid) ptr col (pid.map fun _ => 0)

/-- `join_numpy(foreign_key, primary_key, target, default)` -/
def firstIdx (pk : List Int) (k : Int) : Option Nat :=
  match pk with
  | [] => none
  | p :: ps => if p = k then some 0 else (firstIdx ps k).map (· + 1)

def hasDup : List Int → Bool
  | [] => false
  | p :: ps => ps.contains p || hasDup ps

def joinNumpy {α : Type} (fk pk : List Int) (target : List α) (dflt : α) : Except Err (List α) :=
  if hasDup pk then .error .valueError
  else if fk.any (fun k => k ≥ 0 && !pk.contains k) then .error .valueError
  else if target.length ≠ pk.length then .error .shape
  else .ok (fk.map fun k => match firstIdx pk k with
    | some i => target.getD i dflt
    | none => dflt)

end GV.Agg
