import GettsimVerif.Core.Basic
/-
Model of `_gettsim/groupings.py`: the six id constructors exactly as written
(folds over the rows with dictionaries, counters and overwriting writes).
-/
namespace GV.Groupings

/-! ### eg_id / ehe_id  (identical algorithms on different pointer columns) -/

structure PairState where
  dict : List (Int × Int) := []
  next : Int := 0
  res : List Int := []      -- reversed
  deriving Repr

def pairStep (s : PairState) (row : Int × Int) : PairState :=
  let (p, partner) := row
  match (if partner ≥ 0 then dictGet? s.dict partner else none) with
  | some g => { s with res := g :: s.res }
  | none => { dict := dictSet s.dict p s.next, next := s.next + 1, res := s.next :: s.res }

/-- `eg_id_numpy(p_id, p_id_einstandspartner)` = `ehe_id_numpy(p_id, p_id_ehepartner)` -/
def pairId (pid partner : List Int) : List Int :=
  ((pid.zip partner).foldl pairStep {}).res.reverse

/-! ### sn_id -/

structure SnState where
  dict : List (Int × Int) := []
  flag : List (Int × Bool) := []
  next : Int := 0
  res : List Int := []
  deriving Repr

def snStep (s : SnState) (row : Int × Int × Bool) : Except Err SnState :=
  let (p, partner, gv) := row
  let fresh : SnState :=
    { dict := dictSet s.dict p s.next, flag := dictSet s.flag p gv,
      next := s.next + 1, res := s.next :: s.res }
  if partner ≥ 0 then
    match dictGet? s.dict partner with
    | some g =>
      match dictGet? s.flag partner with
      | none => .error .keyError
      | some gvp =>
        if gv ≠ gvp then .error .valueError
        else if gv then .ok { s with res := g :: s.res }
        else .ok fresh
    | none => .ok fresh
  else .ok fresh

def snId (pid partner : List Int) (gv : List Bool) : Except Err (List Int) := do
  let s ← (pid.zip (partner.zip gv)).foldlM snStep {}
  pure s.res.reverse

/-! ### bg_id -/

structure BgState where
  counter : List (Int × Int) := []
  res : List Int := []

def bgStep (s : BgState) (row : Int × Int × Bool) : BgState :=
  let (fg, alter, eigen) := row
  if alter < 25 && eigen then
    let c := (dictGet? s.counter fg).getD 0 + 1
    { counter := dictSet s.counter fg c, res := (fg * 100 + c) :: s.res }
  else { s with res := (fg * 100) :: s.res }

def bgId (fg alter : List Int) (eigen : List Bool) : List Int :=
  ((fg.zip (alter.zip eigen)).foldl bgStep {}).res.reverse

/-! ### wthh_id -/

def wthhId (hh : List Int) (v1 v2 : List Bool) : List Int :=
  (hh.zip (v1.zip v2)).map fun (h, a, b) => if a || b then h * 100 + 1 else h * 100

/-! ### fg_id -/

structure Person where
  pid : Int
  hh : Int
  alter : Int
  partner : Int
  e1 : Int
  e2 : Int
  deriving Repr, DecidableEq

/-- `p_id_to_p_ids_children`: parent ↦ children in scan order (a child listing the same
parent twice is appended twice, as in the code). -/
def childrenMap (ps : List Person) : List (Int × List Int) :=
  ps.foldl (fun d r =>
    let d := if r.e1 ≥ 0 then dictSet d r.e1 ((dictGet? d r.e1).getD [] ++ [r.pid]) else d
    if r.e2 ≥ 0 then dictSet d r.e2 ((dictGet? d r.e2).getD [] ++ [r.pid]) else d) []

/-- `p_id_to_index` then row lookup: the *last* row with that p_id. -/
def findPerson (ps : List Person) (p : Int) : Option Person :=
  ps.foldl (fun acc r => if r.pid = p then some r else acc) none

structure FgState where
  dict : List (Int × Int) := []
  next : Int := 0

/-- The children of `p` that join p's family unit (the loop body `Assign fg to children`).
`repaired = true` is the algorithm after the fix of finding 6.3. -/
def fgChildren (ps : List Person) (cm : List (Int × List Int)) (head : Person) (kids : List Int)
    (d : List (Int × Int)) (g : Int) : Except Err (List (Int × Int)) :=
  kids.foldlM (fun d c =>
    match findPerson ps c with
    | none => .error .keyError
    | some cr =>
      if cr.hh = head.hh && cr.alter < 25 && ((dictGet? cm c).getD []).isEmpty
      then .ok (dictSet d c g) else .ok d) d

def fgStep (repaired : Bool) (ps : List Person) (cm : List (Int × List Int))
    (s : FgState) (r : Person) : Except Err FgState :=
  if dictHas s.dict r.pid then .ok s
  else do
    let d := dictSet s.dict r.pid s.next
    let kids := (dictGet? cm r.pid).getD []
    let d := if r.partner ≥ 0 then dictSet d r.partner s.next else d
    let kids := if repaired && r.partner ≥ 0 then kids ++ (dictGet? cm r.partner).getD [] else kids
    let d ← fgChildren ps cm r kids d s.next
    pure { dict := d, next := s.next + 1 }

def fgId (repaired : Bool) (ps : List Person) : Except Err (List Int) := do
  let cm := childrenMap ps
  let s ← ps.foldlM (fgStep repaired ps cm) {}
  ps.mapM fun r => match dictGet? s.dict r.pid with
    | some g => .ok g
    | none => .error .keyError

end GV.Groupings
