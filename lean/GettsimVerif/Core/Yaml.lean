import GettsimVerif.Core.Basic
/-
YAML value trees as PyYAML delivers them (dict keys may be strings, ints or dates), and
the dictionary operations the parameter loader performs on them.
-/
namespace GV.Yaml

inductive Key where
  | s (v : String) | i (v : Int) | d (ord : Int)
  deriving DecidableEq, Repr, Inhabited

inductive Y where
  | num (q : Rat)
  | pinf | ninf
  | str (v : String)
  | bool (b : Bool)
  | null
  | date (ord : Int)
  | list (xs : List Y)
  | dict (kvs : List (Key × Y))
  deriving Repr, Inhabited

def kvGet? (kvs : List (Key × Y)) (k : Key) : Option Y :=
  match kvs with
  | [] => none
  | (k', v) :: rest => if k' = k then some v else kvGet? rest k

/-- Python `d[k] = v`: replace in place or append -/
def kvSet (kvs : List (Key × Y)) (k : Key) (v : Y) : List (Key × Y) :=
  match kvs with
  | [] => [(k, v)]
  | (k', v') :: rest => if k' = k then (k, v) :: rest else (k', v') :: kvSet rest k v

def Y.get? (y : Y) (k : Key) : Option Y :=
  match y with
  | .dict kvs => kvGet? kvs k
  | _ => none

def Y.has (y : Y) (k : Key) : Bool := (y.get? k).isSome

def Y.keys (y : Y) : List Key :=
  match y with
  | .dict kvs => kvs.map (·.1)
  | _ => []

def Y.isDict : Y → Bool
  | .dict _ => true
  | _ => false

/-- `set_by_path(new_dict, path, value)`: intermediate keys must exist (`KeyError`),
intermediate values must be dicts (`TypeError`); the last key may be new. -/
def setByPath (t : Y) (path : List Key) (v : Y) : Except Err Y :=
  match path with
  | [] => .ok v
  | [k] =>
    match t with
    | .dict kvs => .ok (.dict (kvSet kvs k v))
    | _ => .error .typeError
  | k :: rest =>
    match t with
    | .dict kvs =>
      match kvGet? kvs k with
      | none => .error .keyError
      | some sub => do
        let sub' ← setByPath sub rest v
        pure (.dict (kvSet kvs k sub'))
    | _ => .error .typeError

mutual
/-- `transfer_dictionary(remaining_dict, new_dict, key_list)` -/
def transfer (remaining : Y) (new : Y) (path : List Key) : Except Err Y :=
  match remaining with
  | .dict kvs => transferKvs kvs new path
  | leaf => if path.isEmpty then .ok leaf else setByPath new path leaf
def transferKvs (kvs : List (Key × Y)) (new : Y) (path : List Key) : Except Err Y :=
  match kvs with
  | [] => .ok new
  | (k, v) :: rest => do
    let new' ← transfer v new (path ++ [k])
    transferKvs rest new' path
end

end GV.Yaml
