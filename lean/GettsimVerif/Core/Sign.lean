import GettsimVerif.Core.Lang
/-
A sign analysis (abstract interpretation) for the rule language `GV.Lang`, compositional over
a dependency graph of rules (property C16).

ABSTRACT VALUES (`Abs`) and their exact meaning (`Abs.holds`):
  * `nonneg` : the value is a number `q ≥ 0` (an `int`, a `float` or a Python `bool`, which IS an
               int: `True = 1`, `False = 0`) or `+inf`;
  * `pos`    : a number `q > 0` (incl. `True`) or `+inf`;
  * `zero`   : a number `= 0` (`0`, `0.0` or `False`);
  * `bool`   : a Python `bool`;
  * `pnn`    : "a parameter with nothing negative inside": a non-negative number, `+inf`, a
               string, `None`, or a parameter tree (dict / list) none of whose leaves is a
               negative number or `-inf` (`nnTreeB`).  Subscripting a `pnn` gives a `pnn`; an
               arithmetic operation, comparison-based builtin (`max`/`min`) or `float`/`abs`
               that SUCCEEDS on a `pnn` operand has seen a non-negative number (the others
               raise), so there it counts as `nonneg`;
  * `any`    : no information (may also be a string, a parameter tree, `None`, `-inf`).
`+inf` has to be allowed in `nonneg`/`pos` because `max(x, 0.0)` with an unknown `x` may well be
`+inf`; "non-negative" therefore means non-negative in the extended reals (never `-inf`,
never `NaN`: the concrete semantics raises where numpy would produce `NaN`).

The analysis additionally tracks ONE relational fact per value, the flag `AV.le`: "this value
is `≤` the reference value `t`" (`numLe`, in the order `-inf < rationals < +inf` of `ord?`),
where `t` is the entry value of one chosen argument of the rule.  `absFun` ignores the flag,
`absLeArg` reports it for the returned value.

Soundness (w.r.t. `evalExpr` / `execBlock` / `runFun`) is proved in `Lemmas/Sign.lean`, the
theorems are collected in `Props/C16.lean`.
-/
namespace GV.Sign
open GV.Lang

/-! ### the abstract domain -/

inductive Abs where
  | nonneg | pos | zero | bool | pnn | any
  deriving DecidableEq, Repr, Inhabited

open GV.Yaml in
mutual
/-- no leaf of the parameter tree is a negative number or `-inf` -/
def nnTreeB : Y → Bool
  | .num q => decide (0 ≤ q)
  | .ninf => false
  | .str s => !(s == "-inf")
  | .list xs => nnListB xs
  | .dict kvs => nnKvsB kvs
  | .pinf => true
  | .bool _ => true
  | .null => true
  | .date _ => true
def nnListB : List Y → Bool
  | [] => true
  | y :: rest => nnTreeB y && nnListB rest
def nnKvsB : List (Key × Y) → Bool
  | [] => true
  | (_, y) :: rest => nnTreeB y && nnKvsB rest
end

/-- "nothing negative inside" -/
def PNN (v : Val) : Prop :=
  (∀ q fl, num? v = some (q, fl) → 0 ≤ q) ∧ v ≠ .inf true ∧ (∀ y, v = .tree y → nnTreeB y = true)

def IsNonneg (v : Val) : Prop := (∃ q fl, num? v = some (q, fl) ∧ 0 ≤ q) ∨ v = .inf false
def IsPos (v : Val) : Prop := (∃ q fl, num? v = some (q, fl) ∧ 0 < q) ∨ v = .inf false
def IsZero (v : Val) : Prop := ∃ fl, num? v = some (0, fl)
def IsBool (v : Val) : Prop := ∃ b, v = .bool b

/-- concretisation -/
def Abs.holds : Abs → Val → Prop
  | .nonneg, v => IsNonneg v
  | .pos, v => IsPos v
  | .zero, v => IsZero v
  | .bool, v => IsBool v
  | .pnn, v => PNN v
  | .any, _ => True

/-- the classes that consist of non-negative numbers (or `+inf`) only -/
def Abs.numeric : Abs → Bool
  | .any => false
  | .pnn => false
  | _ => true

/-- the classes below `pnn` -/
def Abs.pnnish : Abs → Bool
  | .any => false
  | _ => true

/-- what a `pnn` operand must have been if a numeric operation on it succeeded -/
def Abs.strip : Abs → Abs
  | .pnn => .nonneg
  | a => a

def Abs.isZero : Abs → Bool
  | .zero => true
  | _ => false

def Abs.isPos : Abs → Bool
  | .pos => true
  | _ => false

/-- the order of the domain: `zero, pos, bool ≤ nonneg ≤ pnn ≤ any` -/
def Abs.le (a b : Abs) : Bool :=
  decide (a = b) || decide (b = .any) || (decide (b = .nonneg) && a.numeric) ||
    (decide (b = .pnn) && a.pnnish)

def Abs.join (a b : Abs) : Abs :=
  if a = b then a else if a.numeric && b.numeric then .nonneg
  else if a.pnnish && b.pnnish then .pnn else .any

/-- `u ≤ v` in the order `-inf < rationals < +inf` (both must be numbers or `±inf`) -/
def numLe (u v : Val) : Prop :=
  ∃ a b, ord? u = some a ∧ ord? v = some b ∧ ordLt b a = false

/-- abstract value: sign class and the flag "`≤` the reference value" -/
structure AV where
  sign : Abs
  le : Bool
  deriving DecidableEq, Repr, Inhabited

/-- concretisation relative to the reference value `t` -/
def AV.holds (t : Val) (a : AV) (v : Val) : Prop :=
  a.sign.holds v ∧ (a.le = true → numLe v t)

def AV.top : AV := ⟨.any, false⟩

def AV.join (a b : AV) : AV := ⟨a.sign.join b.sign, a.le && b.le⟩

/-- constructor that knows: a `zero` is `≤` a non-negative reference value (`tn = true`) -/
def mk (tn : Bool) (s : Abs) (le : Bool) : AV := ⟨s, le || (tn && s.isZero)⟩

def joinOpt : Option AV → Option AV → Option AV
  | none, b => b
  | a, none => a
  | some a, some b => some (a.join b)

def joinL : List AV → Option AV
  | [] => none
  | a :: rest => joinOpt (some a) (joinL rest)

/-! ### transfer functions on sign classes -/

def absConst : Val → Abs
  | .bool _ => .bool
  | .inf false => .pos
  | .int i => if i = 0 then .zero else if 0 < i then .pos else .any
  | .flt q => if q = 0 then .zero else if 0 < q then .pos else .any
  | .tree y => if nnTreeB y then .pnn else .any
  | _ => .any

/-- forget boolness: `bool ↦ nonneg` -/
def Abs.n : Abs → Abs
  | .bool => .nonneg
  | a => a

def absAdd (a b : Abs) : Abs :=
  match a.n with
  | .any => .any
  | .zero => b.n
  | .pos => (match b.n with | .any => .any | _ => .pos)
  | _ => (match b.n with | .any => .any | .pos => .pos | _ => .nonneg)

/-- `x * 0 = 0` whenever it is defined (also for an unknown `x`: `inf * 0` raises) -/
def absMul (a b : Abs) : Abs :=
  match a.n, b.n with
  | .zero, _ => .zero
  | _, .zero => .zero
  | .any, _ => .any
  | _, .any => .any
  | .pos, .pos => .pos
  | _, _ => .nonneg

/-- division by zero raises, so an existing quotient of non-negatives is non-negative
(`pos / pos` is only `nonneg`: `1 / inf = 0.0`) -/
def absDiv (a b : Abs) : Abs :=
  match a.n, b.n with
  | .any, _ => .any
  | _, .any => .any
  | .zero, _ => .zero
  | _, _ => .nonneg

def absSub (a b : Abs) : Abs :=
  match b.n with
  | .zero => a.n
  | _ => .any

/-- on sign classes without `pnn` -/
def absBin' (op : BinOp) (a b : Abs) : Abs :=
  match op with
  | .add => absAdd a b
  | .sub => absSub a b
  | .mul => absMul a b
  | .div => absDiv a b

/-- a `pnn` operand of a successful arithmetic operation was a non-negative number -/
def absBin (op : BinOp) (a b : Abs) : Abs := absBin' op a.strip b.strip

/-- `x - y ≤ t` if `x ≤ t` and `y ≥ 0` -/
def leBin (op : BinOp) (a b : AV) : Bool :=
  match op with
  | .sub => a.le && b.sign.strip.numeric
  | _ => false

def avBin (tn : Bool) (op : BinOp) (a b : AV) : AV :=
  mk tn (absBin op a.sign b.sign) (leBin op a b)

def absNeg : Abs → Abs
  | .zero => .zero
  | _ => .any

def absAbs : Abs → Abs
  | .zero => .zero
  | .pos => .pos
  | _ => .nonneg

/-- `float(x)` keeps the numeric value (`float(True) = 1.0` is no longer a `bool`) -/
def absFloat (a : Abs) : Abs := a.strip.n

/-- `e[idx]`: a component of a parameter with nothing negative inside has nothing negative
inside -/
def absSubscript : Abs → Abs
  | .pnn => .pnn
  | _ => .any

def AV.strip (a : AV) : AV := ⟨a.sign.strip, a.le⟩

/-- the better of two sound descriptions -/
def Abs.better (base cand : Abs) : Abs := if base.le cand then base else cand

/-- `max(a, b, …)` returns one of its arguments and is `≥` each of them -/
def avMax (args : List AV) : AV :=
  let base := (joinL args).getD AV.top
  let s :=
    if args.any (fun a => a.sign.isPos) then base.sign.better .pos
    else if args.any (fun a => a.sign.numeric) then base.sign.better .nonneg
    else base.sign
  ⟨s, base.le⟩

/-- `min(a, b, …)` returns one of its arguments and is `≤` each of them -/
def avMin (args : List AV) : AV :=
  let base := (joinL args).getD AV.top
  ⟨base.sign, args.any (fun a => a.le)⟩

def avCall (tn : Bool) (f : String) (args : List AV) : AV :=
  if f = "max" then
    match args with
    | a :: b :: rest => avMax ((a :: b :: rest).map AV.strip)
    | _ => AV.top
  else if f = "min" then
    match args with
    | a :: b :: rest => avMin ((a :: b :: rest).map AV.strip)
    | _ => AV.top
  else if f = "abs" then
    match args with
    | [a] => mk tn (absAbs a.sign) false
    | _ => AV.top
  else if f = "float" then
    match args with
    | [a] => mk tn (absFloat a.sign) a.le
    | _ => AV.top
  else AV.top

/-! ### abstract environments and branch refinement -/

abbrev AEnv := List (String × AV)

def AEnv.get? (Γ : AEnv) (n : String) : Option AV :=
  match Γ with
  | [] => none
  | (k, v) :: rest => if k = n then some v else AEnv.get? rest n

def AEnv.set (Γ : AEnv) (n : String) (v : AV) : AEnv :=
  match Γ with
  | [] => [(n, v)]
  | (k, w) :: rest => if k = n then (n, v) :: rest else (k, w) :: AEnv.set rest n v

/-- unbound names are unknown -/
def AEnv.lookup (Γ : AEnv) (n : String) : AV := (Γ.get? n).getD AV.top

/-- pointwise join; a name bound on one side only becomes unknown (is dropped) -/
def AEnv.join (Γ₁ Γ₂ : AEnv) : AEnv :=
  match Γ₁ with
  | [] => []
  | (k, a) :: rest =>
    match Γ₂.get? k with
    | some b => (k, a.join b) :: AEnv.join rest Γ₂
    | none => AEnv.join rest Γ₂

def negOp : CmpOp → CmpOp
  | .lt => .ge | .le => .gt | .gt => .le | .ge => .lt | .eq => .ne | .ne => .eq

def flipOp : CmpOp → CmpOp
  | .lt => .gt | .le => .ge | .gt => .lt | .ge => .le | .eq => .eq | .ne => .ne

def meetPos : Abs → Abs
  | .any => .pos
  | .nonneg => .pos
  | .pnn => .pos
  | a => a

def meetNonneg : Abs → Abs
  | .any => .nonneg
  | .pnn => .nonneg
  | a => a

/-- the value is known to be `≤ 0` -/
def meetLe0 : Abs → Abs
  | .nonneg => .zero
  | .bool => .zero
  | a => a

/-- the value is known to be `≠ 0` -/
def meetNe0 : Abs → Abs
  | .nonneg => .pos
  | a => a

/-- what is known about a value of class `cur` for which `value op q` holds -/
def refineAbs (cur : Abs) (op : CmpOp) (q : Rat) : Abs :=
  match op with
  | .gt => if 0 ≤ q then meetPos cur else cur
  | .ge => if 0 < q then meetPos cur else if 0 ≤ q then meetNonneg cur else cur
  | .eq => if 0 < q then meetPos cur else if q = 0 then .zero else cur
  | .le => if q ≤ 0 then meetLe0 cur else cur
  | .lt => cur
  | .ne => if q = 0 then meetNe0 cur else cur

def refineVar (tn : Bool) (Γ : AEnv) (x : String) (op : CmpOp) (q : Rat) : AEnv :=
  let a := Γ.lookup x
  Γ.set x (mk tn (refineAbs a.sign op q) a.le)

/-- a test of the form `name ⋈ const` or `const ⋈ name` with a numeric constant, normalised to
`(name, ⋈, const)` -/
def cmpFact? : Expr → Option (String × CmpOp × Rat)
  | .cmp (.name x) [(op, .const c)] => (num? c).map fun p => (x, op, p.1)
  | .cmp (.const c) [(op, .name x)] => (num? c).map fun p => (x, flipOp op, p.1)
  | _ => none

mutual
/-- the environment refined by "the test `c` was truthy (`branch = true`) / falsy": single
comparisons of a name with a numeric constant, conjunctions in the then-branch, disjunctions
in the else-branch, `not`; everything else refines nothing -/
def refine (tn : Bool) (Γ : AEnv) (branch : Bool) : Expr → AEnv
  | .boolop isAnd args => if isAnd = branch then refineAll tn Γ branch args else Γ
  | .not a => refine tn Γ (!branch) a
  | e =>
    match cmpFact? e with
    | some (x, op, q) => refineVar tn Γ x (if branch then op else negOp op) q
    | none => Γ
def refineAll (tn : Bool) (Γ : AEnv) (branch : Bool) : List Expr → AEnv
  | [] => Γ
  | e :: rest => refineAll tn (refine tn Γ branch e) branch rest
end

/-! ### expressions -/

mutual
def avExpr (tn : Bool) (Γ : AEnv) : Expr → AV
  | .const v => mk tn (absConst v) false
  | .name n => Γ.lookup n
  | .bin op a b => avBin tn op (avExpr tn Γ a) (avExpr tn Γ b)
  | .neg a => mk tn (absNeg (avExpr tn Γ a).sign) false
  | .cmp _ _ => ⟨.bool, false⟩
  | .boolop _ args => (joinL (avArgs tn Γ args)).getD ⟨.bool, false⟩
  | .not _ => ⟨.bool, false⟩
  | .ifexp c a b => (avExpr tn (refine tn Γ true c) a).join (avExpr tn (refine tn Γ false c) b)
  | .call f args => avCall tn f (avArgs tn Γ args)
  | .mcall _ _ => AV.top
  | .sub e _ => ⟨absSubscript (avExpr tn Γ e).sign, false⟩
  | .isIn _ _ _ => ⟨.bool, false⟩
  | .opaque _ => AV.top
def avArgs (tn : Bool) (Γ : AEnv) : List Expr → List AV
  | [] => []
  | e :: rest => avExpr tn Γ e :: avArgs tn Γ rest
end

/-! ### statements -/

/-- result of analysing a block: the environment at its end (meaningful if `falls`), the join
of all values returned inside, and whether control can reach the end -/
structure SRes where
  env : AEnv
  ret : Option AV
  falls : Bool
  deriving Repr

def mergeRes (r₁ r₂ : SRes) : SRes :=
  { env := if r₁.falls then (if r₂.falls then r₁.env.join r₂.env else r₁.env) else r₂.env
    ret := joinOpt r₁.ret r₂.ret
    falls := r₁.falls || r₂.falls }

mutual
def avStmt (tn : Bool) (Γ : AEnv) : Stmt → SRes
  | .assign x e => ⟨Γ.set x (avExpr tn Γ e), none, true⟩
  | .aug x op e => ⟨Γ.set x (avBin tn op (Γ.lookup x) (avExpr tn Γ e)), none, true⟩
  | .ret e => ⟨Γ, some (avExpr tn Γ e), false⟩
  | .ite c body orelse =>
    mergeRes (avBlock tn (refine tn Γ true c) body) (avBlock tn (refine tn Γ false c) orelse)
  | .expr _ => ⟨Γ, none, true⟩
  | .other _ => ⟨[], some AV.top, true⟩
def avBlock (tn : Bool) (Γ : AEnv) : List Stmt → SRes
  | [] => ⟨Γ, none, true⟩
  | s :: rest =>
    let r₁ := avStmt tn Γ s
    if r₁.falls then
      let r₂ := avBlock tn r₁.env rest
      ⟨r₂.env, joinOpt r₁.ret r₂.ret, r₂.falls⟩
    else r₁
end

/-- the abstract value of what the function returns (falling off the end returns `None`) -/
def avBody (tn : Bool) (Γ : AEnv) (body : List Stmt) : AV :=
  let r := avBlock tn Γ body
  (joinOpt r.ret (if r.falls then some AV.top else none)).getD AV.top

/-! ### the requested interface on plain sign classes -/

def plainEnv (Γ : List (String × Abs)) : AEnv := Γ.map fun p => (p.1, ⟨p.2, false⟩)

/-- sign class of an expression under the sign assumptions `Γ` (unbound names are unknown) -/
def absExpr (Γ : List (String × Abs)) (e : Expr) : Abs := (avExpr false (plainEnv Γ) e).sign

/-- sign class of the value returned by a block (join over all `return` paths; `any` if the
block may fall off its end) -/
def absBlock (Γ : List (String × Abs)) (body : List Stmt) : Abs :=
  (avBody false (plainEnv Γ) body).sign

/-- sign class of the result of `f` for arguments of the classes `argAbs` (missing entries are
unknown) -/
def absFun (argAbs : List Abs) (f : FunDef) : Abs := absBlock (f.args.zip argAbs) f.body

/-- argument classes with the flag set exactly on position `i` (`k` = current position) -/
def markFrom (k i : Nat) : List Abs → List AV
  | [] => []
  | a :: rest => ⟨a, decide (k = i)⟩ :: markFrom (k + 1) i rest

/-- certifies `result ≤ args[i]` for all arguments of the classes `argAbs`: the `i`-th argument
must exist and be of a numeric class (so it is non-negative and comparable with itself) -/
def absLeArg (f : FunDef) (i : Nat) (argAbs : List Abs) : Bool :=
  match argAbs[i]? with
  | some a =>
    a.numeric && decide (i < f.args.length) &&
      (avBody true (f.args.zip (markFrom 0 i argAbs)) f.body).le
  | none => false

/-! ### graphs of rules -/

inductive NodeKind where
  | rule (fn : FunDef) (argNames : List String)
  | input (a : Abs)
  | sumAgg (src : String)
  | countAgg
  | maxAgg (src : String)
  | minAgg (src : String)
  | anyAgg (src : String)
  | timeconv (src : String)
  | opaque
  deriving Repr

structure GNode where
  name : String
  kind : NodeKind
  deriving Repr

/-- table look-up; unknown names are `any` -/
def tblGet (tbl : List (String × Abs)) (n : String) : Abs :=
  match tbl with
  | [] => .any
  | (k, a) :: rest => if k = n then a else tblGet rest n

/-- a sum over a group: of zeros is zero, of non-negatives (or flags) non-negative -/
def absSum : Abs → Abs
  | .zero => .zero
  | .pos => .pos
  | .nonneg => .nonneg
  | .bool => .nonneg
  | _ => .any

/-- multiplication by a positive factor -/
def absTimeconv (a : Abs) : Abs := a.strip.n

def nodeAbs (tbl : List (String × Abs)) : NodeKind → Abs
  | .rule fn argNames => absFun (argNames.map (tblGet tbl)) fn
  | .input a => a
  | .sumAgg src => absSum (tblGet tbl src)
  | .countAgg => .pos
  | .maxAgg src => tblGet tbl src
  | .minAgg src => tblGet tbl src
  | .anyAgg _ => .bool
  | .timeconv src => absTimeconv (tblGet tbl src)
  | .opaque => .any

/-- one pass over the nodes (dependencies first); `tbl` holds the entries so far, newest
first (so a later node of the same name shadows an earlier one during the pass) -/
def signTableFrom (tbl : List (String × Abs)) : List GNode → List (String × Abs)
  | [] => tbl
  | n :: rest => signTableFrom ((n.name, nodeAbs tbl n.kind) :: tbl) rest

/-- the sign table of a graph, in the order of the nodes -/
def signTable (nodes : List GNode) : List (String × Abs) := (signTableFrom [] nodes).reverse

/-- `true` iff every listed target is certified non-negative -/
def allNonneg (tbl : List (String × Abs)) (targets : List String) : Bool :=
  targets.all fun t => (tblGet tbl t).numeric

/-- the facts `node ≤ argument node` the analysis can certify for the rule nodes of a graph:
all pairs `(rule node, i-th argument name)` for which `absLeArg` succeeds with the argument
classes taken from the sign table -/
def leFacts (nodes : List GNode) : List (String × String) :=
  let tbl := signTable nodes
  nodes.flatMap fun n =>
    match n.kind with
    | .rule fn argNames =>
      (List.range argNames.length).filterMap fun i =>
        if absLeArg fn i (argNames.map (tblGet tbl)) then argNames[i]?.map fun y => (n.name, y)
        else none
    | _ => []

/-! ### semantics of the aggregation nodes -/

/-- Python `sum(xs)`: left fold of `+` from `0` -/
def sumFrom (acc : Val) : List Val → Except Err Val
  | [] => .ok acc
  | v :: rest => do
    let acc' ← evalBin .add acc v
    sumFrom acc' rest

def sumVals (vs : List Val) : Except Err Val := sumFrom (.int 0) vs

/-! ### miniature rules and a miniature graph (used for the non-vacuity examples) -/

namespace Mini

/-- `def f1(x, y): return max(x - y, 0.0)` -/
def f1 : FunDef :=
  ⟨"f1", ["x", "y"],
    [.ret (.call "max" [.bin .sub (.name "x") (.name "y"), .const (.flt 0)])]⟩

/-- `def f2(a, n): if n > 0: out = a / n  else: out = 0.0;  return out` -/
def f2 : FunDef :=
  ⟨"f2", ["a", "n"],
    [.ite (.cmp (.name "n") [(.gt, .const (.int 0))])
       [.assign "out" (.bin .div (.name "a") (.name "n"))]
       [.assign "out" (.const (.flt 0))],
     .ret (.name "out")]⟩

/-- `def alg2(v, f1, f2): if f1 or f2: out = 0.0  else: out = v;  return out`
(the shape of `arbeitsl_geld_2_m_bg`: zero if a priority benefit applies, otherwise the
entitlement computed before the priority check) -/
def alg2 : FunDef :=
  ⟨"alg2", ["v", "f1", "f2"],
    [.ite (.boolop false [.name "f1", .name "f2"])
       [.assign "out" (.const (.flt 0))]
       [.assign "out" (.name "v")],
     .ret (.name "out")]⟩

/-- a cap followed by a deduction:
`def netto(x, lim, abzug): return max(min(x, lim) - abzug, 0.0)` -/
def netto : FunDef :=
  ⟨"netto", ["x", "lim", "abzug"],
    [.ret (.call "max" [.bin .sub (.call "min" [.name "x", .name "lim"]) (.name "abzug"),
       .const (.flt 0)])]⟩

/-- `def beitrag(lohn, params): return lohn * params["beitr_satz"]["ges_rentenv"]` -/
def beitrag : FunDef :=
  ⟨"beitrag", ["lohn", "params"],
    [.ret (.bin .mul (.name "lohn")
      (.sub (.sub (.name "params") (.const (.str "beitr_satz"))) (.const (.str "ges_rentenv"))))]⟩

/-- a parameter tree with nothing negative inside -/
def params : GV.Yaml.Y :=
  .dict [(.s "beitr_satz", .dict [(.s "ges_rentenv", .num (93 / 1000)),
           (.s "ges_krankenv", .dict [(.s "allgemein", .num (146 / 1000))])]),
         (.s "grenzen", .list [.num 450, .pinf]), (.s "hinweis", .str "ab 2015"), (.s "alt", .null)]

/-- … and one with a negative leaf -/
def paramsNeg : GV.Yaml.Y :=
  .dict [(.s "beitr_satz", .dict [(.s "ges_rentenv", .num (-1 / 10))])]

/-- an input, two rules (the second argument of the first one is a parameter, not a node), a
group sum and a time conversion -/
def graph : List GNode :=
  [⟨"x_m", .input .nonneg⟩,
   ⟨"r1_m", .rule f1 ["x_m", "freibetrag"]⟩,
   ⟨"r2_m", .rule f2 ["r1_m", "x_m"]⟩,
   ⟨"r2_m_hh", .sumAgg "r2_m"⟩,
   ⟨"r2_y_hh", .timeconv "r2_m_hh"⟩]

/-- a two-row data set for `graph` (rows `false`, `true`, one household) -/
def val (r : Bool) (n : String) : Val :=
  if n = "x_m" then .flt (if r then 5 else 3)
  else if n = "freibetrag" then .flt 1
  else if n = "r1_m" then .flt (if r then 4 else 2)
  else if n = "r2_m" then .flt (if r then 4 / 5 else 2 / 3)
  else if n = "r2_m_hh" then .flt (22 / 15)
  else if n = "r2_y_hh" then .flt (88 / 5)
  else .none

/-- entitlement before the priority check, two priority flags, the benefit paid -/
def graph2 : List GNode :=
  [⟨"vor_vorrang_m", .input .nonneg⟩,
   ⟨"kiz_vorrang", .input .bool⟩,
   ⟨"wog_vorrang", .input .bool⟩,
   ⟨"alg2_m", .rule alg2 ["vor_vorrang_m", "kiz_vorrang", "wog_vorrang"]⟩]

/-- a two-row data set for `graph2` -/
def val2 (r : Bool) (n : String) : Val :=
  if n = "vor_vorrang_m" then .flt 400
  else if n = "kiz_vorrang" then .bool false
  else if n = "wog_vorrang" then .bool r
  else if n = "alg2_m" then .flt (if r then 0 else 400)
  else .none

end Mini

end GV.Sign
