import GettsimVerif.Core.Lang
import GettsimVerif.Core.VecDtype
/-
A result-KIND analysis (abstract interpretation) for the rule language `GV.Lang` (property C03).

Every Python value of the model has a kind (`kindOf`): `int`, `flt` (a finite float), `bool`,
`inf` (±numpy.inf), `str`, `tree` (a parameter dictionary / list) or `none`.  `tyExpr` /
`tyBlock` / `tyFun` compute a SET of kinds (`KindSet`) that over-approximates the kinds an
expression / a `return` of a block / the result of a rule can have, for ALL inputs whose kinds
lie in the given sets.  Constructs that always raise in the model (`mcall`, `opaque`, unknown
builtins, unbound names, `other` statements) contribute nothing: there is no value whose kind
would have to be covered.

The vectorising wrapper casts every returned scalar to the rule's declared result type;
`losslessFor declared kinds` says that this cast cannot change any value of one of the kinds:
declared `float` accepts `int`, `flt`, `bool`, `inf`; declared `int` accepts `int`, `bool`;
declared `bool` accepts `bool` only.

Soundness (w.r.t. `evalExpr` / `execBlock` / `runFun`) is proved in `Lemmas/TypeInfer.lean`,
the theorems are collected in `Props/C03Types.lean`.
-/
namespace GV.TypeInfer
open GV.Lang

/-! ### kinds and sets of kinds -/

inductive Kind where
  | int | flt | bool | inf | str | tree | none
  deriving DecidableEq, Repr, Inhabited

def kindOf : Val → Kind
  | .int _ => .int
  | .flt _ => .flt
  | .bool _ => .bool
  | .inf _ => .inf
  | .str _ => .str
  | .tree _ => .tree
  | .none => .none

def Kind.all : List Kind := [.int, .flt, .bool, .inf, .str, .tree, .none]

def Kind.name : Kind → String
  | .int => "int" | .flt => "flt" | .bool => "bool" | .inf => "inf"
  | .str => "str" | .tree => "tree" | .none => "none"

/-- a set of kinds: one flag per kind -/
structure KindSet where
  int : Bool := false
  flt : Bool := false
  bool : Bool := false
  inf : Bool := false
  str : Bool := false
  tree : Bool := false
  none : Bool := false
  deriving DecidableEq, Repr, Inhabited

namespace KindSet

/-- membership test -/
def has (s : KindSet) : Kind → Bool
  | .int => s.int
  | .flt => s.flt
  | .bool => s.bool
  | .inf => s.inf
  | .str => s.str
  | .tree => s.tree
  | .none => s.none

instance : Membership Kind KindSet := ⟨fun s k => s.has k = true⟩

instance (k : Kind) (s : KindSet) : Decidable (k ∈ s) :=
  inferInstanceAs (Decidable (s.has k = true))

def empty : KindSet := {}

def full : KindSet := ⟨true, true, true, true, true, true, true⟩

def single : Kind → KindSet
  | .int => { int := true }
  | .flt => { flt := true }
  | .bool => { bool := true }
  | .inf => { inf := true }
  | .str => { str := true }
  | .tree => { tree := true }
  | .none => { none := true }

def union (a b : KindSet) : KindSet :=
  ⟨a.int || b.int, a.flt || b.flt, a.bool || b.bool, a.inf || b.inf, a.str || b.str,
    a.tree || b.tree, a.none || b.none⟩

def inter (a b : KindSet) : KindSet :=
  ⟨a.int && b.int, a.flt && b.flt, a.bool && b.bool, a.inf && b.inf, a.str && b.str,
    a.tree && b.tree, a.none && b.none⟩

instance : Union KindSet := ⟨union⟩
instance : Inter KindSet := ⟨inter⟩
instance : EmptyCollection KindSet := ⟨empty⟩

/-- subset test -/
def subset (a b : KindSet) : Bool := Kind.all.all fun k => !a.has k || b.has k

def ofList : List Kind → KindSet
  | [] => empty
  | k :: rest => single k ∪ ofList rest

/-- the members in the fixed order `int, flt, bool, inf, str, tree, none` -/
def toList (s : KindSet) : List Kind := Kind.all.filter s.has

/-- `⋃ k ∈ s, f k` -/
def bind (s : KindSet) (f : Kind → KindSet) : KindSet :=
  (if s.int then f .int else empty) ∪ (if s.flt then f .flt else empty) ∪
  (if s.bool then f .bool else empty) ∪ (if s.inf then f .inf else empty) ∪
  (if s.str then f .str else empty) ∪ (if s.tree then f .tree else empty) ∪
  (if s.none then f .none else empty)

def unionL : List KindSet → KindSet
  | [] => empty
  | a :: rest => a ∪ unionL rest

/-- the kinds that can be compared with `<` (numbers and `±inf`) -/
def ordered : KindSet := { int := true, flt := true, bool := true, inf := true }

end KindSet

/-! ### transfer functions on exact kinds -/

/-- `int`, `flt` or `bool` (`num?` succeeds) -/
def Kind.isNum : Kind → Bool
  | .int => true | .flt => true | .bool => true | _ => false

/-- the kinds `evalBin op x y` can have for `x`, `y` of the kinds `a`, `b`: `int`/`bool` operands
give an `int` (also `True + True`), a float operand a `flt`, `/` always a `flt`; with `±inf`
operands the result is `±inf` (`+ - *`) or `0.0` (number `/ ±inf`); everything else raises -/
def binKind (op : BinOp) (a b : Kind) : KindSet :=
  if a.isNum && b.isNum then
    (if op = .div ∨ a = .flt ∨ b = .flt then .single .flt else .single .int)
  else if a = .inf ∧ b = .inf then (if op = .add ∨ op = .sub then .single .inf else .empty)
  else if a = .inf ∧ b.isNum then (if op = .div then .empty else .single .inf)
  else if a.isNum ∧ b = .inf then (if op = .div then .single .flt else .single .inf)
  else .empty

def tyBin (op : BinOp) (a b : KindSet) : KindSet := a.bind fun ka => b.bind fun kb => binKind op ka kb

/-- unary minus -/
def negKind : Kind → KindSet
  | .int => .single .int
  | .bool => .single .int
  | .flt => .single .flt
  | .inf => .single .inf
  | _ => .empty

/-- `float(x)` -/
def floatKind : Kind → KindSet
  | .int => .single .flt
  | .bool => .single .flt
  | .flt => .single .flt
  | .inf => .single .inf
  | _ => .empty

/-- `abs(x)` -/
def absKind : Kind → KindSet
  | .int => .single .int
  | .bool => .single .int
  | .flt => .single .flt
  | _ => .empty

/-- what a subscript into a parameter tree can be (`leafVal`) -/
def leafKinds : KindSet :=
  { flt := true, inf := true, bool := true, str := true, none := true, tree := true }

/-- `c[idx]`: only parameter trees can be subscripted -/
def tySub (c : KindSet) : KindSet := if c.tree then leafKinds else .empty

/-- `a and b and …` / `a or b or …` return one of the operands (`True` / `False` for no operand) -/
def boolKinds : List KindSet → KindSet
  | [] => .single .bool
  | [a] => a
  | a :: rest => a ∪ boolKinds rest

/-- the builtins of `evalCall`; any other call raises -/
def tyCall (f : String) (args : List KindSet) : KindSet :=
  if f = "max" ∨ f = "min" then
    match args with
    | [a] => if a.tree then .single .int else .empty      -- smallest / largest integer key
    | a :: b :: rest => KindSet.unionL (a :: b :: rest) ∩ KindSet.ordered   -- one of the arguments
    | _ => .empty
  else if f = "float" then
    match args with
    | [a] => a.bind floatKind
    | _ => .empty
  else if f = "abs" then
    match args with
    | [a] => a.bind absKind
    | _ => .empty
  else if f = "piecewise_polynomial" then
    match args with
    | [_, _, _, _] => .single .flt
    | _ => .empty
  else .empty

/-! ### kind environments -/

abbrev TEnv := List (String × KindSet)

def TEnv.get? (Γ : TEnv) (n : String) : Option KindSet :=
  match Γ with
  | [] => none
  | (k, v) :: rest => if k = n then some v else TEnv.get? rest n

/-- unbound names cannot be read (reading raises `NameError`): no kind -/
def TEnv.lookup (Γ : TEnv) (n : String) : KindSet := (Γ.get? n).getD .empty

def TEnv.set (Γ : TEnv) (n : String) (v : KindSet) : TEnv :=
  match Γ with
  | [] => [(n, v)]
  | (k, w) :: rest => if k = n then (n, v) :: rest else (k, w) :: TEnv.set rest n v

def TEnv.bound (Γ : TEnv) (n : String) : Bool := (Γ.get? n).isSome

/-- pointwise union; a name bound on one side only keeps its kinds -/
def TEnv.join (Γ₁ Γ₂ : TEnv) : TEnv :=
  Γ₁.map (fun p => (p.1, p.2 ∪ Γ₂.lookup p.1)) ++ Γ₂.filter (fun p => !Γ₁.bound p.1)

/-! ### known parameter trees

A rule's parameter arguments (`…_params`) are not data: for a given policy date they are KNOWN
dictionaries.  `K` lists such known argument values; a subscript chain `params["a"]["b"]` into a
known tree is evaluated (`kSet`) instead of being approximated by "anything a leaf can be".
This is only used for names the rule never assigns to (`assignedB`). -/

mutual
/-- does the statement / block assign to the name `x`? -/
def assignedS (x : String) : Stmt → Bool
  | .assign y _ => decide (y = x)
  | .aug y _ _ => decide (y = x)
  | .ite _ body orelse => assignedB x body || assignedB x orelse
  | _ => false
def assignedB (x : String) : List Stmt → Bool
  | [] => false
  | s :: rest => assignedS x s || assignedB x rest
end

/-- the direct components of a parameter tree (as the values a subscript yields) -/
def children : Val → List Val
  | .tree (.dict kvs) => kvs.map fun p => leafVal p.2
  | .tree (.list xs) => xs.map leafVal
  | _ => []

/-- the possible values of an expression built from constants, known names and subscripts
(`none`: not of that form): `params["a"]["b"]` is looked up, `params["staffel"][n]` with an
unknown index `n` can be any component of `params["staffel"]` -/
def kSet (K : Env) : Expr → Option (List Val)
  | .const v => some [v]
  | .name n => (K.get? n).map fun v => [v]
  | .sub e i =>
    match kSet K e with
    | Option.none => Option.none
    | some cs =>
      match kSet K i with
      | some ks => some (cs.flatMap fun c => ks.filterMap fun k => (evalSub c k).toOption)
      | Option.none => some (cs.flatMap children)
  | _ => Option.none

/-- the kinds of a list of values -/
def kindsOf (vs : List Val) : KindSet := KindSet.unionL (vs.map fun v => .single (kindOf v))

/-- `e[idx]`: the kinds of its possible values if `e` is known; otherwise `fallback` -/
def tySubK (K : Env) (e idx : Expr) (fallback : KindSet) : KindSet :=
  match kSet K (.sub e idx) with
  | some vs => kindsOf vs
  | Option.none => fallback

/-! ### expressions -/

mutual
/-- the kinds the value of an expression can have when every name `n` holds a value of a kind
in `Γ.lookup n` and the names listed in `K` hold the listed values -/
def tyExprK (K : Env) (Γ : TEnv) : Expr → KindSet
  | .const v => .single (kindOf v)
  | .name n => Γ.lookup n
  | .bin op a b => tyBin op (tyExprK K Γ a) (tyExprK K Γ b)
  | .neg a => (tyExprK K Γ a).bind negKind
  | .cmp _ _ => .single .bool
  | .boolop _ args => boolKinds (tyArgsK K Γ args)
  | .not _ => .single .bool
  | .ifexp _ a b => tyExprK K Γ a ∪ tyExprK K Γ b
  | .call f args => tyCall f (tyArgsK K Γ args)
  | .mcall _ _ => .empty
  | .sub e idx => tySubK K e idx (tySub (tyExprK K Γ e))
  | .isIn _ _ _ => .single .bool
  | .opaque _ => .empty
def tyArgsK (K : Env) (Γ : TEnv) : List Expr → List KindSet
  | [] => []
  | e :: rest => tyExprK K Γ e :: tyArgsK K Γ rest
end

/-- without known trees -/
abbrev tyExpr (Γ : TEnv) (e : Expr) : KindSet := tyExprK [] Γ e

/-! ### statements -/

/-- result of analysing a block: the environment at its end (meaningful if `falls`), the kinds
of all values returned inside, and whether control can reach the end -/
structure SRes where
  env : TEnv
  ret : KindSet
  falls : Bool
  deriving Repr

def mergeRes (r₁ r₂ : SRes) : SRes :=
  { env := if r₁.falls then (if r₂.falls then r₁.env.join r₂.env else r₁.env) else r₂.env
    ret := r₁.ret ∪ r₂.ret
    falls := r₁.falls || r₂.falls }

mutual
def tyStmtK (K : Env) (Γ : TEnv) : Stmt → SRes
  | .assign x e => ⟨Γ.set x (tyExprK K Γ e), .empty, true⟩
  | .aug x op e => ⟨Γ.set x (tyBin op (Γ.lookup x) (tyExprK K Γ e)), .empty, true⟩
  | .ret e => ⟨Γ, tyExprK K Γ e, false⟩
  | .ite _ body orelse => mergeRes (tyBlockK K Γ body) (tyBlockK K Γ orelse)
  | .expr _ => ⟨Γ, .empty, true⟩
  | .other _ => ⟨Γ, .empty, false⟩          -- always raises
def tyBlockK (K : Env) (Γ : TEnv) : List Stmt → SRes
  | [] => ⟨Γ, .empty, true⟩
  | s :: rest =>
    let r₁ := tyStmtK K Γ s
    if r₁.falls then
      let r₂ := tyBlockK K r₁.env rest
      ⟨r₂.env, r₁.ret ∪ r₂.ret, r₂.falls⟩
    else r₁
end

abbrev tyBlock (Γ : TEnv) (b : List Stmt) : SRes := tyBlockK [] Γ b

/-- the known values actually used: all of `K` if the body assigns to none of its names,
otherwise none -/
def usableK (K : Env) (body : List Stmt) : Env :=
  if K.all (fun p => !assignedB p.1 body) then K else []

/-- the block-level result for a rule whose `i`-th argument has a kind in `argKinds[i]` and
whose arguments listed in `K` have the listed values -/
def tyFunResK (K : Env) (argKinds : List KindSet) (f : FunDef) : SRes :=
  tyBlockK (usableK K f.body) (f.args.zip argKinds) f.body

/-- the kinds the result of `f` can have (falling off the end returns `None`) -/
def tyFunK (K : Env) (argKinds : List KindSet) (f : FunDef) : KindSet :=
  let r := tyFunResK K argKinds f
  r.ret ∪ (if r.falls then .single .none else .empty)

abbrev tyFunRes (argKinds : List KindSet) (f : FunDef) : SRes := tyFunResK [] argKinds f

/-- … without known parameter trees -/
abbrev tyFun (argKinds : List KindSet) (f : FunDef) : KindSet := tyFunK [] argKinds f

/-! ### the declared result type -/

/-- the kinds the cast to the declared type leaves unchanged: `float` ← int, float, bool, ±inf;
`int` ← int, bool; `bool` ← bool; nothing else is a result type -/
def accepted : Kind → KindSet
  | .flt => { int := true, flt := true, bool := true, inf := true }
  | .int => { int := true, bool := true }
  | .bool => { bool := true }
  | _ => .empty

/-- every possible result kind is accepted by the declared type -/
def losslessFor (declared : Kind) (s : KindSet) : Bool := s.subset (accepted declared)

/-- the numpy dtype of a declared result type (`float`, `int`, `bool`; nothing else can be
declared) -/
def Kind.toDT? : Kind → Option VecDtype.DT
  | .flt => some .float
  | .int => some .int
  | .bool => some .bool
  | _ => Option.none

/-- a scalar result as a per-row result of `Core/VecDtype` (the same map as `Simulate.valToR`);
`±inf`, strings, parameter trees and `None` are not representable there -/
def toR? : Val → Option VecDtype.R
  | .int i => some (.i i)
  | .flt q => some (.f q)
  | .bool b => some (.b b)
  | _ => none

/-! ### constructs outside the model -/

mutual
/-- the expression contains a construct that ALWAYS raises in the model (`mcall`, `opaque`, a
call of an unknown builtin): the kind analysis says nothing about such a path -/
def unmodelledE : Expr → Bool
  | .const _ => false
  | .name _ => false
  | .bin _ a b => unmodelledE a || unmodelledE b
  | .neg a => unmodelledE a
  | .cmp first rest => unmodelledE first || unmodelledC rest
  | .boolop _ args => unmodelledL args
  | .not a => unmodelledE a
  | .ifexp c a b => unmodelledE c || unmodelledE a || unmodelledE b
  | .call f args =>
    !(f = "max" || f = "min" || f = "float" || f = "abs" || f = "piecewise_polynomial") ||
      unmodelledL args
  | .mcall _ _ => true
  | .sub e idx => unmodelledE e || unmodelledE idx
  | .isIn e items _ => unmodelledE e || unmodelledL items
  | .opaque _ => true
def unmodelledL : List Expr → Bool
  | [] => false
  | e :: rest => unmodelledE e || unmodelledL rest
def unmodelledC : List (CmpOp × Expr) → Bool
  | [] => false
  | (_, e) :: rest => unmodelledE e || unmodelledC rest
end

mutual
def unmodelledS : Stmt → Bool
  | .assign _ e => unmodelledE e
  | .aug _ _ e => unmodelledE e
  | .ret e => unmodelledE e
  | .ite c body orelse => unmodelledE c || unmodelledB body || unmodelledB orelse
  | .expr _ => false
  | .other _ => true
def unmodelledB : List Stmt → Bool
  | [] => false
  | s :: rest => unmodelledS s || unmodelledB rest
end

/-! ### miniature rules (used for the non-vacuity examples) -/

namespace Mini

/-- `def f(x) -> float: if x > 0: return 0  else: return x * 0.5` (an `int` literal in one
branch of a float rule) -/
def floatRule : FunDef :=
  ⟨"f", ["x"],
    [.ite (.cmp (.name "x") [(.gt, .const (.int 0))])
       [.ret (.const (.int 0))]
       [.ret (.bin .mul (.name "x") (.const (.flt (1 / 2))))]]⟩

/-- `def g(x) -> int: return x / 2` -/
def intRule : FunDef := ⟨"g", ["x"], [.ret (.bin .div (.name "x") (.const (.int 2)))]⟩

/-- `def h(a, b) -> bool: return a and b` -/
def boolRule : FunDef := ⟨"h", ["a", "b"], [.ret (.boolop true [.name "a", .name "b"])]⟩

/-- `def b(x, params) -> float: return params["satz"]["allgemein"]` (a bare parameter) -/
def paramRule : FunDef :=
  ⟨"b", ["x", "params"],
    [.ret (.sub (.sub (.name "params") (.const (.str "satz"))) (.const (.str "allgemein")))]⟩

/-- `def s(n, params) -> float: return params["staffel"][n]` (a component chosen by the data) -/
def staffelRule : FunDef :=
  ⟨"s", ["n", "params"],
    [.ret (.sub (.sub (.name "params") (.const (.str "staffel"))) (.name "n"))]⟩

/-- `def t(j, m, params) -> float: return params["tabelle"][j][m]` (two data-dependent
subscripts) -/
def tabelleRule : FunDef :=
  ⟨"t", ["j", "m", "params"],
    [.ret (.sub (.sub (.sub (.name "params") (.const (.str "tabelle"))) (.name "j")) (.name "m"))]⟩

/-- a parameter tree -/
def params : GV.Yaml.Y :=
  .dict [(.s "tabelle", .dict [(.i 1950, .dict [(.i 1, .num 60), (.i 2, .num (721 / 12))]),
                               (.i 1951, .dict [(.i 1, .num 61)])]),
         (.s "satz", .dict [(.s "allgemein", .num (146 / 1000)), (.s "hinweis", .str "ab 2015")]),
         (.s "staffel", .dict [(.i 1, .num 250), (.i 2, .num 500)]),
         (.s "grenze", .pinf)]

/-- `def k(x, params) -> float: out = max(x - params["frei"], 0)` … falls off the end -/
def fallRule : FunDef :=
  ⟨"k", ["x", "params"],
    [.assign "out" (.call "max" [.bin .sub (.name "x")
      (.sub (.name "params") (.const (.str "frei"))), .const (.int 0)])]⟩

end Mini

end GV.TypeInfer
