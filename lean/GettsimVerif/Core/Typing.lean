import GettsimVerif.Core.Basic
/-
Model of the input-data validation of `_gettsim/interface.py`
(`_process_and_check_data`, `_fail_if_duplicates_in_columns`,
`_fail_if_group_variables_not_constant_within_groups`, `_fail_if_pid_is_non_unique`,
`_fail_if_foreign_keys_are_invalid`, `_convert_data_to_correct_types`,
`_fail_if_root_nodes_are_missing`) and of `_gettsim/gettsim_typing.py`
(`check_series_has_expected_type`, `convert_series_to_internal_type`).

Mathlib-free, executable, total.

Probes of the real behaviour (/venv/bin/python, pandas 3.0.6, numpy 2.5.3), mirrored below.
`has` = check_series_has_expected_type, result = convert_series_to_internal_type.

  source dtype      | -> float               | -> int                          | -> bool                  | -> datetime64
  ------------------+------------------------+---------------------------------+--------------------------+------------------
  int64             | has=F  ok, exact for   | has=T  ok (identity)            | has=F ok iff all in {0,1}| has=F ValueError
                    |  |v|<=2^53; 2^53+1 ->  |                                 |  else ValueError         |
                    |  9007199254740992.0    |                                 |                          |
  float64           | has=T  ok (identity,   | has=F  ok iff all integral and  | has=F ok iff all in      | has=F ValueError
                    |  NaN/inf kept)         |  -2^63 <= v < 2^63              |  {0.0,1.0}; NaN, inf,    |
                    |                        |  1.5 -> ValueError              |  1.5, 2.0 -> ValueError  |
                    |                        |  NaN/inf -> IntCastingNaNError  |  (empty column ok)       |
                    |                        |   (subclass of ValueError)      |                          |
                    |                        |  1e30, 2.0**63 -> ValueError    |                          |
                    |                        |  -2.0**63 -> ok                 |                          |
  bool              | has=F  ValueError      | has=F  ok, True->1 False->0     | has=T ValueError (!)     | has=F ValueError
  str (pandas 3)    | has=F  python float(): | has=F  python int(): "1" " 1"   | has=F ValueError         | has=F ValueError
                    |  "1" " 1" "+.5e+2"     |  "+1" "007" "1_0" ok; "1.0"     |  (also for empty column) |  (also for
                    |  "1_0" "inf" "-nan"    |  "1e3" "" "inf" -> ValueError;  |                          |  "2020-01-01")
                    |  "Infinity" "1e400"=inf|  "9223372036854775808" ->       |                          |
                    |  ok; "" "1,5" "0x10"   |  OverflowError (NOT a           |                          |
                    |  "1e" "- 1" "True" ->  |  ValueError: propagates through |                          |
                    |  ValueError; missing   |  _convert_data_to_correct_types)|                          |
                    |  value (None) -> NaN   |  missing value -> ValueError    |                          |
  object            | has=F  ValueError      | has=F  ValueError               | has=F ValueError         | has=F ValueError
                    |  (also empty / all-int object columns, every target)                                                |
  datetime64[us]    | has=F  TypeError (!)   | has=F  ok: epoch offsets in the | has=F ValueError         | has=T ok (identity)
                    |  (not caught by        |  column's unit (us: 2020-01-01  |                          |
                    |  _convert_data_...)    |  -> 1577836800000000; NaT ->    |                          |
                    |                        |  -2^63 silently; NaT not        |                          |
                    |                        |  modelled)                      |                          |

  _convert_data_to_correct_types: columns visited in dict order; ValueErrors are collected and
  raised at the end as one ValueError; any other exception (TypeError datetime->float,
  OverflowError str->int) propagates immediately, even if a ValueError was collected before.
  Undocumented columns (also object dtype) are left alone.  Non-empty conversion list => UserWarning.
  The input dict is mutated in place.

  _fail_if_group_variables_not_constant_within_groups (ids = [1,1,2]):
    int/float/bool/str/datetime column constant within groups -> ok; varying -> ValueError;
    NaN (NaT, missing str) cell -> ValueError even if the whole group is NaN; +-inf constant -> ok;
    NaN in the id column -> ValueError (row is dropped by groupby, transform gives NaN);
    id column float/str/bool/datetime/object -> ok; object ids [1, 1.0, True] are ONE group;
    object value column: ok when constant, TypeError when a group mixes str and int
      (model: ValueError; only the error class differs);
    "x_wthh" with only hh_id present -> not checked; name "_hh" is checked; name "hh" is not;
    id column shorter than value column -> ValueError; value column shorter -> ok.
  _fail_if_pid_is_non_unique: missing p_id -> ValueError; [1,2,1] -> ValueError;
    [1., nan, nan] -> ValueError (NaN equals NaN here); [1., nan, 2.] ok; object [1, 1.0] and
    [1, True] -> ValueError (value equality); object [1, "1"] ok; empty ok.
  _fail_if_foreign_keys_are_invalid (p_id=[1,2,3]): [2,1,-1] ok; [2,1,7] / [2,1,-2] -> ValueError;
    [2,1,3] -> ValueError (self); float fk [2.,1.,-1.] ok; [2.,1.,nan] / [2.,1.5,-1.] -> ValueError;
    float p_id with NaN and fk NaN -> ok (isin matches NaN, == does not); bool fk [F,T,T] with
    p_id [1,2,0] ok, [T,T,T] -> ValueError (True == 1 in the same row); str fk vs int p_id ->
    ValueError; datetime p_id with int fk -1 ok; p_id [2^53+1,5] with fk [2.0^53,-1.] -> ValueError
    (exact comparison); length mismatch -> ValueError ("Can only compare identically-labeled");
    only the four FOREIGN_KEYS are checked (p_id_kindergeld_empf is not).
  _process_and_check_data: order duplicates -> group constancy -> p_id -> foreign keys; every
    failure is a ValueError.

Deviations / restrictions of the model (all documented here, none silent):
  * no negative zero, no NaT, no non-ASCII digits/whitespace in numeric strings;
  * a missing value in a `str` column is represented by the cell `.fnan`;
  * object-dtype value columns whose groups mix incomparable kinds give `.valueError`
    instead of TypeError in `groupVarsConstant`;
  * a column whose cells do not fit its dtype (never produced by the driver) makes `convert`
    return `.error .other`.

Test harness (JSON-free): see the `#eval` examples in the comment block at the end of the file.
-/
namespace GV.Typing

inductive DType where
  | int64 | float64 | bool | object | datetime | str
  deriving DecidableEq, Repr, Inhabited

inductive Cell where
  | i (v : Int)            -- int64 value
  | f (q : Rat)            -- finite double (exact rational value)
  | fnan                   -- NaN (also: missing value of a str column)
  | finf (neg : Bool)      -- +-inf
  | b (v : Bool)
  | s (v : String)
  | d (ord : Int)          -- datetime64: epoch offset in the unit of the column
  deriving DecidableEq, Repr, Inhabited

structure Col where
  dtype : DType
  cells : List Cell
  deriving DecidableEq, Repr, Inhabited

inductive ITy where
  | float | int | bool | datetime
  deriving DecidableEq, Repr, Inhabited

abbrev Table := List (String × Col)

/-- dtype of a successfully converted column -/
def ITy.dtype : ITy → DType
  | .float => .float64 | .int => .int64 | .bool => .bool | .datetime => .datetime

/-- `check_series_has_expected_type` -/
def hasExpectedType (c : Col) (t : ITy) : Bool :=
  match t, c.dtype with
  | .float, .float64 => true
  | .int, .int64 => true
  | .bool, .bool => true
  | .datetime, .datetime => true
  | _, _ => false

/-! ### IEEE double rounding (round-to-nearest-even of an exact rational) -/

def pow2 (e : Int) : Rat := (2 : Rat) ^ e

/-- round a non-negative rational to the nearest integer, ties to even -/
def rne (q : Rat) : Int :=
  let fl := q.floor
  let r := q - (fl : Rat)
  if r < 1/2 then fl
  else if 1/2 < r then fl + 1
  else if fl % 2 = 0 then fl else fl + 1

/-- nearest double of an exact rational (overflow to +-inf, gradual underflow) -/
def roundQ (q : Rat) : Cell :=
  if q = 0 then .f 0 else
  let neg := decide (q < 0)
  let a : Rat := if neg then -q else q
  let e0 : Int := (Nat.log2 a.num.natAbs : Int) - (Nat.log2 a.den : Int)
  let e : Int := if pow2 e0 ≤ a then e0 else e0 - 1
  let u : Int := if e - 52 < -1074 then -1074 else e - 52
  let m : Int := rne (a / pow2 u)
  let r : Rat := (m : Rat) * pow2 u
  if pow2 1024 ≤ r then .finf neg else .f (if neg then -r else r)

/-- the guard of `convert_lossless`: |v| ≤ 2^53 -/
def exactlyRepresentable (v : Int) : Bool := decide (v.natAbs ≤ 2 ^ 53)

/-- `int64 -> float64` cast: identity up to 2^53 in absolute value, nearest double beyond -/
def roundIntToDouble (v : Int) : Cell :=
  if exactlyRepresentable v then .f (v : Rat) else roundQ (v : Rat)

/-! ### python `float()` / `int()` on strings -/

def isWs (c : Char) : Bool :=
  c = ' ' || c = '\t' || c = '\n' || c = '\r' || c = '\x0b' || c = '\x0c'

def strip (l : List Char) : List Char :=
  ((l.dropWhile isWs).reverse.dropWhile isWs).reverse

/-- digitpart ::= digit (["_"] digit)* ; returns (value, number of digits, rest) -/
def digitsAux (acc n : Nat) : List Char → Nat × Nat × List Char
  | [] => (acc, n, [])
  | c :: cs =>
    if c.isDigit then digitsAux (acc * 10 + (c.toNat - 48)) (n + 1) cs
    else if c = '_' && decide (0 < n) && (match cs with | c' :: _ => c'.isDigit | [] => false) then
      digitsAux acc n cs
    else (acc, n, c :: cs)

/-- optional sign; returns (negative?, rest) -/
def takeSign : List Char → Bool × List Char
  | '-' :: cs => (true, cs)
  | '+' :: cs => (false, cs)
  | cs => (false, cs)

/-- python `float(s)` followed by the cast to double; `none` = ValueError -/
def parseFloat (s : String) : Option Cell :=
  let l := strip s.toList
  let (neg, l) := takeSign l
  let low := String.ofList (l.map Char.toLower)
  if low = "inf" || low = "infinity" then some (.finf neg)
  else if low = "nan" then some .fnan
  else
    let (ip, ni, r1) := digitsAux 0 0 l
    let (fp, nf, r2) :=
      match r1 with
      | '.' :: r => digitsAux 0 0 r
      | r => (0, 0, r)
    if ni + nf = 0 then none else
    let ex? : Option (Int × List Char) :=
      match r2 with
      | [] => some (0, [])
      | c :: r =>
        if c = 'e' || c = 'E' then
          let (eneg, r') := takeSign r
          let (ev, en, r'') := digitsAux 0 0 r'
          if en = 0 then none else some (if eneg then -(ev : Int) else (ev : Int), r'')
        else none
    match ex? with
    | none => none
    | some (_, _ :: _) => none
    | some (ex, []) =>
      let mant : Nat := ip * 10 ^ nf + fp
      let sh : Int := ex - (nf : Int)
      if mant = 0 then some (.f 0)
      else if 310 < sh then some (.finf neg)
      else if sh + ((ni + nf : Nat) : Int) < -330 then some (.f 0)
      else
        let v : Rat := (mant : Rat) * (10 : Rat) ^ sh
        some (roundQ (if neg then -v else v))

/-- python `int(s)` followed by the cast to int64:
`.valueError` = invalid literal, `.other` = OverflowError -/
def parseInt (s : String) : Except Err Int :=
  let l := strip s.toList
  let (neg, l) := takeSign l
  match digitsAux 0 0 l with
  | (v, n, []) =>
    if n = 0 then .error .valueError
    else
      let z : Int := if neg then -(v : Int) else (v : Int)
      if -(2 ^ 63 : Int) ≤ z ∧ z < (2 ^ 63 : Int) then .ok z else .error .other
  | (_, _, _ :: _) => .error .valueError

/-! ### `convert_series_to_internal_type` -/

/-- all-or-nothing map, first error wins -/
def mapE (f : Cell → Except Err Cell) : List Cell → Except Err (List Cell)
  | [] => .ok []
  | c :: cs =>
    match f c with
    | .error e => .error e
    | .ok c' =>
      match mapE f cs with
      | .error e => .error e
      | .ok cs' => .ok (c' :: cs')

def intToFloat : Cell → Except Err Cell
  | .i v => .ok (roundIntToDouble v)
  | _ => .error .other

def floatToFloat : Cell → Except Err Cell := fun c => .ok c

def strToFloat : Cell → Except Err Cell
  | .s v => match parseFloat v with | some c => .ok c | none => .error .valueError
  | .fnan => .ok .fnan
  | _ => .error .other

/-- `array_equal(out, out.astype(int64))` cell-wise, then the cast -/
def floatToInt : Cell → Except Err Cell
  | .f q =>
    if q.den = 1 ∧ -(2 ^ 63 : Int) ≤ q.num ∧ q.num < (2 ^ 63 : Int) then .ok (.i q.num)
    else .error .valueError
  | _ => .error .valueError

def boolToInt : Cell → Except Err Cell
  | .b v => .ok (.i (if v then 1 else 0))
  | _ => .error .other

def dateToInt : Cell → Except Err Cell
  | .d o => .ok (.i o)
  | _ => .error .other

def strToInt : Cell → Except Err Cell
  | .s v => match parseInt v with | .ok z => .ok (.i z) | .error e => .error e
  | .fnan => .error .valueError
  | _ => .error .other

def intToBool : Cell → Except Err Cell
  | .i v => if v = 0 then .ok (.b false) else if v = 1 then .ok (.b true) else .error .valueError
  | _ => .error .valueError

def floatToBool : Cell → Except Err Cell
  | .f q => if q = 0 then .ok (.b false) else if q = 1 then .ok (.b true) else .error .valueError
  | _ => .error .valueError

/-- column-level decision: either an error raised before looking at the data, or the cell map -/
def cellFn (src : DType) (t : ITy) : Except Err (Cell → Except Err Cell) :=
  match src with
  | .object => .error .valueError
  | _ =>
    match t with
    | .float =>
      match src with
      | .bool => .error .valueError
      | .datetime => .error .typeError
      | .int64 => .ok intToFloat
      | .float64 => .ok floatToFloat
      | .str => .ok strToFloat
      | .object => .error .valueError
    | .int =>
      match src with
      | .float64 => .ok floatToInt
      | .int64 => .ok (fun c => .ok c)
      | .bool => .ok boolToInt
      | .datetime => .ok dateToInt
      | .str => .ok strToInt
      | .object => .error .valueError
    | .bool =>
      match src with
      | .int64 => .ok intToBool
      | .float64 => .ok floatToBool
      | _ => .error .valueError
    | .datetime =>
      match src with
      | .datetime => .ok (fun c => .ok c)
      | _ => .error .valueError

/-- `convert_series_to_internal_type` -/
def convert (c : Col) (t : ITy) : Except Err Col :=
  match cellFn c.dtype t with
  | .error e => .error e
  | .ok f =>
    match mapE f c.cells with
    | .error e => .error e
    | .ok cs => .ok { dtype := t.dtype, cells := cs }

/-- numeric value of a cell (bool ↦ 0/1, int, finite float) -/
def numOf : Cell → Option Rat
  | .i v => some (v : Rat)
  | .f q => some q
  | .b v => some (if v then 1 else 0)
  | _ => none

/-! ### value equality of cells (Python `==` / hashing) -/

/-- normal form w.r.t. Python value equality: `1 == 1.0 == True` -/
def Cell.key : Cell → Cell
  | .f q => if q.den = 1 then .i q.num else .f q
  | .b v => .i (if v then 1 else 0)
  | c => c

def Cell.isNaN : Cell → Bool
  | .fnan => true
  | _ => false

/-- hash-table equality (`is_unique`, `isin`, `groupby` keys): NaN matches NaN -/
def Cell.same (a b : Cell) : Bool := decide (a.key = b.key)

/-- elementwise `==`: NaN equals nothing -/
def Cell.eqv (a b : Cell) : Bool := !a.isNaN && a.same b

/-- sort key used only to pick the group maximum: NaN lowest, then -inf, finite, +inf, str, datetime -/
def Cell.ord (c : Cell) : Nat × Rat × String :=
  match c.key with
  | .fnan => (0, 0, "")
  | .finf true => (1, 0, "")
  | .i v => (2, (v : Rat), "")
  | .f q => (2, q, "")
  | .b _ => (2, 0, "")
  | .finf false => (3, 0, "")
  | .s v => (4, 0, v)
  | .d o => (5, (o : Rat), "")

def Cell.le (a b : Cell) : Bool :=
  let (r1, q1, s1) := a.ord
  let (r2, q2, s2) := b.ord
  decide (r1 < r2) || (decide (r1 = r2) && (decide (q1 < q2) || (decide (q1 = q2) && !decide (s2 < s1))))

def cmax (a b : Cell) : Cell := if a.le b then b else a

/-! ### validators -/

def columns (t : Table) : List String := t.map (·.1)

/-- `data[name]` (first match) -/
def lookup (t : Table) (name : String) : Option Col :=
  match t with
  | [] => none
  | (n, c) :: rest => if n = name then some c else lookup rest name

def hasDup : List String → Bool
  | [] => false
  | x :: xs => xs.contains x || hasDup xs

/-- `any(data.columns.duplicated())` -/
def dupColumns (t : Table) : Bool := hasDup (columns t)

/-- `name.endswith(suf)` -/
def hasSuffix (name suf : String) : Bool := suf.toList.isSuffixOf name.toList

/-- `groupby(ids).max()` for the group of `g` (rows with NaN id belong to no group) -/
def groupMax (rows : List (Cell × Cell)) (g : Cell) : Option Cell :=
  rows.foldl (fun acc row =>
    if Cell.eqv g row.1 then
      (match acc with
       | none => some row.2
       | some m => some (cmax m row.2))
    else acc) none

/-- `(col.groupby(ids).transform("max") == col).all()` -/
def colConstant (ids cells : List Cell) : Bool :=
  let rows := ids.zip cells
  decide (cells.length ≤ ids.length) &&
  rows.all (fun row =>
    match groupMax rows row.1 with
    | some m => Cell.eqv m row.2
    | none => false)

/-- `_fail_if_group_variables_not_constant_within_groups`; `levels` = keys of SUPPORTED_GROUPINGS -/
def groupVarsConstant (levels : List String) (t : Table) : Except Err Unit :=
  if t.all (fun nc =>
      levels.all (fun L =>
        match lookup t (L ++ "_id") with
        | none => true
        | some ids => !(hasSuffix nc.1 ("_" ++ L)) || colConstant ids.cells nc.2.cells))
  then .ok () else .error .valueError

def allDistinct : List Cell → Bool
  | [] => true
  | c :: cs => cs.all (fun c' => !(c.same c')) && allDistinct cs

/-- `_fail_if_pid_is_non_unique` -/
def pidUnique (t : Table) : Except Err Unit :=
  match lookup t "p_id" with
  | none => .error .valueError
  | some p => if allDistinct p.cells then .ok () else .error .valueError

/-- both checks on one foreign-key column -/
def fkColValid (pid fk : List Cell) : Bool :=
  fk.all (fun v => v.same (.i (-1)) || pid.any (fun p => v.same p)) &&
  decide (fk.length = pid.length) &&
  (fk.zip pid).all (fun vp => !(Cell.eqv vp.1 vp.2))

/-- `_fail_if_foreign_keys_are_invalid`; `fks` = FOREIGN_KEYS -/
def foreignKeysValid (fks : List String) (t : Table) : Except Err Unit :=
  match lookup t "p_id" with
  | none => .error .keyError
  | some p =>
    if fks.all (fun k =>
        match lookup t k with
        | none => true
        | some c => fkColValid p.cells c.cells)
    then .ok () else .error .valueError

/-- `_process_and_check_data` on a DataFrame -/
def processAndCheck (levels fks : List String) (t : Table) : Except Err Unit :=
  if dupColumns t then .error .valueError
  else
    match groupVarsConstant levels t with
    | .error e => .error e
    | .ok () =>
      match pidUnique t with
      | .error e => .error e
      | .ok () => foreignKeysValid fks t

/-! ### `_convert_data_to_correct_types` (restricted to TYPES_INPUT_VARIABLES) -/

def lookupTy (types : List (String × ITy)) (name : String) : Option ITy :=
  match types with
  | [] => none
  | (n, ty) :: rest => if n = name then some ty else lookupTy rest name

/-- does the loop body try a conversion for this column? -/
def needsConv (types : List (String × ITy)) (nc : String × Col) : Bool :=
  match lookupTy types nc.1 with
  | none => false
  | some ty => !(hasExpectedType nc.2 ty)

/-- one loop iteration: `none` = untouched, `some c'` = converted -/
def colOutcome (types : List (String × ITy)) (nc : String × Col) : Except Err (Option Col) :=
  match lookupTy types nc.1 with
  | none => .ok none
  | some ty =>
    if hasExpectedType nc.2 ty then .ok none
    else
      match convert nc.2 ty with
      | .ok c' => .ok (some c')
      | .error e => .error e

/-- the loop: (new table, converted names, was a ValueError collected?);
a non-ValueError exception propagates at once -/
def convertAllAux (types : List (String × ITy)) : Table → Except Err (Table × List String × Bool)
  | [] => .ok ([], [], false)
  | nc :: rest =>
    match colOutcome types nc with
    | .error e =>
      if e = .valueError then
        match convertAllAux types rest with
        | .error e' => .error e'
        | .ok (t', names, _) => .ok (nc :: t', names, true)
      else .error e
    | .ok none =>
      match convertAllAux types rest with
      | .error e' => .error e'
      | .ok (t', names, bad) => .ok (nc :: t', names, bad)
    | .ok (some c') =>
      match convertAllAux types rest with
      | .error e' => .error e'
      | .ok (t', names, bad) => .ok ((nc.1, c') :: t', nc.1 :: names, bad)

/-- `_convert_data_to_correct_types`: converted table and names listed in the warning
(non-empty list ⇔ a warning is emitted) -/
def convertAll (types : List (String × ITy)) (t : Table) : Except Err (Table × List String) :=
  match convertAllAux types t with
  | .error e => .error e
  | .ok (t', names, bad) => if bad then .error .valueError else .ok (t', names)

/-- `_fail_if_root_nodes_are_missing`: the list `missing_nodes` (non-empty ⇒ ValueError) -/
def missingRoots (roots : List String) (t : Table) (paramOnly : List String) : List String :=
  roots.filter (fun c => !((columns t).contains c) && !(paramOnly.contains c))

/-! ### configuration constants of `config.py` -/

def supportedGroupings : List String := ["hh", "wthh", "fg", "bg", "eg", "ehe", "sn"]

def foreignKeys : List String :=
  ["p_id_ehepartner", "p_id_einstandspartner", "p_id_elternteil_1", "p_id_elternteil_2"]

/-
Test harness (run with `lake env lean` on a scratch file importing this module):

open GV GV.Typing
def intCol (l : List Int) : Col := ⟨.int64, l.map .i⟩
def fltCol (l : List Rat) : Col := ⟨.float64, l.map .f⟩
#eval convert (intCol [0, 1, 2]) .float             -- ok float64 [0,1,2]
#eval convert (intCol [2^53 + 1]) .float            -- ok [9007199254740992]
#eval convert (fltCol [0, 3/2]) .int                -- error ValueError
#eval convert ⟨.float64, [.f 0, .fnan]⟩ .int        -- error ValueError
#eval convert (fltCol [0, 1, 1]) .bool              -- ok [false,true,true]
#eval convert ⟨.bool, [.b true]⟩ .float             -- error ValueError
#eval convert ⟨.bool, [.b true]⟩ .bool              -- error ValueError (never reached via convertAll)
#eval convert ⟨.str, [.s " +.5e+2 ", .s "1_0", .s "0.1"]⟩ .float
   -- ok [50, 10, 3602879701896397/36028797018963968]
#eval convert ⟨.str, [.s "9223372036854775808"]⟩ .int   -- error Error (OverflowError)
#eval convert ⟨.datetime, [.d 1577836800000000]⟩ .float  -- error TypeError
#eval convert ⟨.datetime, [.d 1577836800000000]⟩ .int    -- ok int64
#eval processAndCheck supportedGroupings foreignKeys
  [("p_id", intCol [1,2,3]), ("hh_id", intCol [1,1,2]), ("x_hh", fltCol [5,5,7]),
   ("p_id_ehepartner", intCol [2,1,-1])]             -- ok
#eval processAndCheck supportedGroupings foreignKeys
  [("p_id", intCol [1,2,3]), ("p_id_ehepartner", intCol [2,1,-2])]   -- error ValueError
#eval convertAll [("p_id", .int), ("w", .float)] [("p_id", fltCol [1, 2]), ("w", intCol [3, 4]), ("z", ⟨.object, []⟩)]
   -- ok (table, ["p_id", "w"])
#eval missingRoots ["a", "b", "c"] [("a", intCol [])] ["b"]   -- ["c"]
-/

end GV.Typing
