import GettsimVerif.Core.Lang
import GettsimVerif.Core.Vectorize
/-
ARRAY semantics of the deep embedding (`GV.Lang`): what the rewritten rules compute when
numpy evaluates them on columns of a fixed length `n` (scalars broadcast).

* an element is `PVal = Option Val`; `none` is a POISON element: numpy's `inf`/`nan` produced
  by an array division by zero (or `inf*0`) -- a RuntimeWarning, not an exception -- and
  everything computed from it whose value depends on WHICH of `nan`/`+inf`/`-inf` it was.
  Contract of the abstraction: an element `some v` of a model result means "numpy yields
  `v`"; a poison element means "numpy yields some unspecified value" (compare as wildcard).
  Hence arithmetic, comparisons, `maximum`/`minimum`, `where` with a poison condition and
  `logical_not` propagate poison, while `logical_and`/`logical_or` follow Kleene's
  three-valued tables: `logical_and(False, poison) = False`, `logical_or(True, poison) = True`,
  otherwise poison.  (numpy itself: `nan > 1` is `False`, `inf > 1` is `True`, `nan`/`inf` are
  truthy -- definite values the model deliberately does not predict.)
* an array value is a scalar or a column; all columns produced by the operations have
  length `n` (`runFunA` checks the argument columns);
* anything that needs the truth value of a column (`and`/`or`/`not`/`if`/chained comparison
  /`in` that were NOT rewritten, builtin `max`/`min` on a column) raises `ValueError` unless
  the column has length 1 (`bool` of a one-element poison column: error `.other`, louder
  than numpy).

Modelling abstraction (documented, not checked here): columns are dynamically typed per
element, i.e. numpy's dtype promotion (`where(c, 1, 2.0)` yields `1.0`, `maximum(1, 1.0)`
yields `1.0`) is not modelled; it is value preserving on numbers.

Examples (checked with `#eval`; `x = [1, 0]`):
  `evalA 2 ρ (1 / x)                      = ok (col [some 1.0, none])`
  `evalA 2 ρ (where(x, 1 / x, 0.0))       = ok (col [some 1.0, some 0.0])`
  `evalA 2 ρ (not x)`, `(0 < x < 5)`       `= error valueError`
  `evalA 1 [x ↦ col [1]] (not x)           = ok (scalar false)`

Second part (`namespace GV.VecTy`): the Bool-valued type discipline of the fragment on
which the rewrite is proved sound (`Props/C09.lean`).
-/
namespace GV.ArrSem
open GV.Lang GV.Yaml

abbrev PVal := Option Val

inductive AVal where
  | scalar (v : Val)
  | col (vs : List PVal)
  deriving Repr, Inhabited

abbrev AEnv := List (String × AVal)

def AEnv.get? (env : AEnv) (n : String) : Option AVal :=
  match env with
  | [] => none
  | (k, v) :: rest => if k = n then some v else AEnv.get? rest n

def AEnv.set (env : AEnv) (n : String) (v : AVal) : AEnv :=
  match env with
  | [] => [(n, v)]
  | (k, w) :: rest => if k = n then (n, v) :: rest else (k, w) :: AEnv.set rest n v

/-- element `i` (scalars broadcast; out of range = poison) -/
def AVal.get (a : AVal) (i : Nat) : PVal :=
  match a with
  | .scalar v => some v
  | .col vs => vs.getD i none

def AVal.isScalar : AVal → Bool
  | .scalar _ => true
  | .col _ => false

/-- column length is `n` (scalars always fit) -/
def AVal.fits (n : Nat) : AVal → Bool
  | .scalar _ => true
  | .col vs => vs.length == n

/-- row `i` of an array environment; `none` if some element of the row is poison -/
def rowEnv (ρ : AEnv) (i : Nat) : Option Env :=
  match ρ with
  | [] => some []
  | (k, a) :: rest =>
    match a.get i, rowEnv rest i with
    | some v, some σ => some ((k, v) :: σ)
    | _, _ => none

/-- row `i` of an argument list -/
def rowArgs (args : List AVal) (i : Nat) : Option (List Val) :=
  match args with
  | [] => some []
  | a :: rest =>
    match a.get i, rowArgs rest i with
    | some v, some vs => some (v :: vs)
    | _, _ => none

def mapME {α β : Type} (f : α → Except Err β) : List α → Except Err (List β)
  | [] => .ok []
  | x :: xs => do
    let y ← f x
    let ys ← mapME f xs
    pure (y :: ys)

/-- the column `[f 0, …, f (n-1)]` (first error wins) -/
def tab (n : Nat) (f : Nat → Except Err PVal) : Except Err (List PVal) :=
  mapME f (List.range n)

/-! ### element-wise operations -/

/-- lift a scalar operation to elements: poison in → poison out, errors propagate -/
def elem1 (f : Val → Except Err Val) : PVal → Except Err PVal
  | some x => do let v ← f x; pure (some v)
  | none => .ok none

def elem2 (f : Val → Val → Except Err Val) : PVal → PVal → Except Err PVal
  | some x, some y => do let v ← f x y; pure (some v)
  | _, _ => .ok none

/-- array arithmetic on elements: division by zero (and `inf*0`, the model's `.other`) gives
poison instead of raising -/
def elemBin (op : BinOp) : PVal → PVal → Except Err PVal
  | some x, some y =>
    match evalBin op x y with
    | .ok v => .ok (some v)
    | .error .zeroDiv => .ok none
    | .error .other => .ok none
    | .error e => .error e
  | _, _ => .ok none

/-- unary broadcast -/
def map1 (n : Nat) (fs : Val → Except Err Val) (fe : PVal → Except Err PVal) (a : AVal) :
    Except Err AVal :=
  match a with
  | .scalar x => do let v ← fs x; pure (.scalar v)
  | .col _ => do let vs ← tab n (fun i => fe (a.get i)); pure (.col vs)

/-- binary broadcast: scalar ⊗ scalar uses `fs`; otherwise element-wise `fe` -/
def zip2 (n : Nat) (fs : Val → Val → Except Err Val) (fe : PVal → PVal → Except Err PVal)
    (a b : AVal) : Except Err AVal :=
  match a, b with
  | .scalar x, .scalar y => do let v ← fs x y; pure (.scalar v)
  | _, _ => do let vs ← tab n (fun i => fe (a.get i) (b.get i)); pure (.col vs)

def binA (n : Nat) (op : BinOp) : AVal → AVal → Except Err AVal :=
  zip2 n (evalBin op) (elemBin op)

/-- unary minus on a value (as in `evalExpr`) -/
def negVal (x : Val) : Except Err Val :=
  match x with
  | .inf n => pure (.inf (!n))
  | _ => match num? x with
    | some (q, fl) => pure (mkNum (-q) fl)
    | Option.none => .error .typeError

def negA (n : Nat) : AVal → Except Err AVal := map1 n negVal (elem1 negVal)

def cmpVal (op : CmpOp) (x y : Val) : Except Err Val := do
  let b ← evalCmp op x y
  pure (.bool b)

/-- ONE comparison, element-wise -/
def cmpA (n : Nat) (op : CmpOp) : AVal → AVal → Except Err AVal :=
  zip2 n (cmpVal op) (elem2 (cmpVal op))

def extVal (isMax : Bool) (x y : Val) : Except Err Val := pickExt isMax [x, y]

/-- `numpy.maximum` / `numpy.minimum` -/
def extA (n : Nat) (isMax : Bool) : AVal → AVal → Except Err AVal :=
  zip2 n (extVal isMax) (elem2 (extVal isMax))

/-- truth value of an element; poison = unknown (a poison float `nan`/`inf` is truthy in
numpy, but a comparison with poison, which the model also represents by poison, is a definite
`False`/`True` depending on which of `nan`/`±inf` it was) -/
def pTruth : PVal → Option Bool
  | some v => some (truthy v)
  | none => none

/-- three-valued (Kleene) `and` / `or`: the result is known as soon as one operand is the
absorbing element (`false` for `and`, `true` for `or`) -/
def klop (isAnd : Bool) : Option Bool → Option Bool → Option Bool
  | some x, some y => some (if isAnd then x && y else x || y)
  | some x, none => if x = isAnd then none else some x
  | none, some y => if y = isAnd then none else some y
  | none, none => none

def logicVal (isAnd : Bool) (x y : Val) : Except Err Val :=
  .ok (.bool (if isAnd then truthy x && truthy y else truthy x || truthy y))

def logicElem (isAnd : Bool) (x y : PVal) : Except Err PVal :=
  .ok ((klop isAnd (pTruth x) (pTruth y)).map Val.bool)

/-- `numpy.logical_and` / `numpy.logical_or` -/
def logicA (n : Nat) (isAnd : Bool) : AVal → AVal → Except Err AVal :=
  zip2 n (logicVal isAnd) (logicElem isAnd)

def notVal (x : Val) : Except Err Val := .ok (.bool (!truthy x))

/-- `numpy.logical_not` (poison ↦ poison) -/
def notA (n : Nat) : AVal → Except Err AVal := map1 n notVal (elem1 notVal)

def absVal (v : Val) : Except Err Val := evalCall "abs" [v]

/-- `numpy.where(c, a, b)`: poison condition → poison; otherwise select -/
def whereA (n : Nat) (c a b : AVal) : AVal :=
  match c, a, b with
  | .scalar t, .scalar x, .scalar y => .scalar (if truthy t then x else y)
  | _, _, _ =>
    .col ((List.range n).map fun i =>
      match c.get i with
      | some t => if truthy t then a.get i else b.get i
      | none => none)

/-- Python's `bool(a)`: ambiguous for columns of length ≠ 1 -/
def truthA : AVal → Except Err Bool
  | .scalar v => .ok (truthy v)
  | .col [some v] => .ok (truthy v)
  | .col [none] => .error .other
  | .col _ => .error .valueError

def allScalar? : List AVal → Option (List Val)
  | [] => some []
  | .scalar v :: rest => (allScalar? rest).map (v :: ·)
  | .col _ :: _ => none

/-- untransformed calls (`float`, `abs`, `piecewise_polynomial`, …): scalar arguments →
`evalCall`; `abs` of a column element-wise; builtin `max`/`min` with a column argument need
its truth value (`ValueError`); anything else with a column argument → `TypeError` -/
def callA (n : Nat) (f : String) (args : List AVal) : Except Err AVal :=
  match allScalar? args with
  | some vs => do let v ← evalCall f vs; pure (.scalar v)
  | none =>
    match f, args with
    | "abs", [a] => map1 n absVal (elem1 absVal) a
    | "max", _ :: _ :: _ => .error .valueError
    | "min", _ :: _ :: _ => .error .valueError
    | _, _ => .error .typeError

/-- `<module>.f(...)` -/
def mcallA (n : Nat) (f : String) (args : List AVal) : Except Err AVal :=
  match f, args with
  | "where", [c, a, b] => .ok (whereA n c a b)
  | "logical_and", [a, b] => logicA n true a b
  | "logical_or", [a, b] => logicA n false a b
  | "logical_not", [a] => notA n a
  | "maximum", [a, b] => extA n true a b
  | "minimum", [a, b] => extA n false a b
  | _, _ => .error .notImpl

def subA (c idx : AVal) : Except Err AVal :=
  match c, idx with
  | .scalar c, .scalar i => do let v ← evalSub c i; pure (.scalar v)
  | _, .col _ => .error .typeError     -- unhashable
  | .col _, _ => .error .notImpl

/-- `x in [v₁, v₂, …]`: `bool(x == vₖ)` left to right, stops at the first hit -/
def isInA (n : Nat) (x : AVal) : List AVal → Except Err Bool
  | [] => .ok false
  | v :: rest => do
    let c ← cmpA n .eq x v
    let t ← truthA c
    if t then pure true else isInA n x rest

mutual
def evalA (n : Nat) (ρ : AEnv) : Expr → Except Err AVal
  | .const v => .ok (.scalar v)
  | .name x => match ρ.get? x with
    | some a => .ok a
    | Option.none => .error .nameError
  | .bin op a b => do
    let x ← evalA n ρ a
    let y ← evalA n ρ b
    binA n op x y
  | .neg a => do
    let x ← evalA n ρ a
    negA n x
  | .cmp first rest => do
    let x ← evalA n ρ first
    evalChainA n ρ x rest
  | .boolop isAnd args => evalBoolA n ρ isAnd args
  | .not a => do
    let x ← evalA n ρ a
    let t ← truthA x
    pure (.scalar (.bool (!t)))
  | .ifexp c a b => do
    let t ← evalA n ρ c
    let tb ← truthA t
    if tb then evalA n ρ a else evalA n ρ b
  | .call f args => do
    let vs ← evalArgsA n ρ args
    callA n f vs
  | .mcall f args => do
    let vs ← evalArgsA n ρ args
    mcallA n f vs
  | .sub e idx => do
    let c ← evalA n ρ e
    let i ← evalA n ρ idx
    subA c i
  | .isIn e items neg => do
    let x ← evalA n ρ e
    let vs ← evalArgsA n ρ items
    let hit ← isInA n x vs
    pure (.scalar (.bool (if neg then !hit else hit)))
  | .opaque _ => .error .notImpl
/-- `a < b`: element-wise; `a < b <= c` is `(a < b) and (b <= c)`: needs `bool(a < b)` -/
def evalChainA (n : Nat) (ρ : AEnv) (left : AVal) : List (CmpOp × Expr) → Except Err AVal
  | [] => .ok (.scalar (.bool true))
  | (op, e) :: rest => do
    let r ← evalA n ρ e
    let c ← cmpA n op left r
    match rest with
    | [] => pure c
    | _ :: _ => do
      let t ← truthA c
      if t then evalChainA n ρ r rest else pure c
/-- untransformed `and` / `or` -/
def evalBoolA (n : Nat) (ρ : AEnv) (isAnd : Bool) : List Expr → Except Err AVal
  | [] => .ok (.scalar (.bool isAnd))
  | [e] => evalA n ρ e
  | e :: rest => do
    let v ← evalA n ρ e
    let t ← truthA v
    if t = isAnd then evalBoolA n ρ isAnd rest else pure v
def evalArgsA (n : Nat) (ρ : AEnv) : List Expr → Except Err (List AVal)
  | [] => .ok []
  | e :: rest => do
    let v ← evalA n ρ e
    let vs ← evalArgsA n ρ rest
    pure (v :: vs)
end

mutual
/-- executes statements on arrays; `some a` = a `return` was executed -/
def execStmtA (n : Nat) (ρ : AEnv) : Stmt → Except Err (AEnv × Option AVal)
  | .assign x e => do
    let v ← evalA n ρ e
    pure (ρ.set x v, Option.none)
  | .aug x op e => do
    let old ← match ρ.get? x with | some v => pure v | Option.none => throw Err.nameError
    let v ← evalA n ρ e
    let r ← binA n op old v
    pure (ρ.set x r, Option.none)
  | .ret e => do
    let v ← evalA n ρ e
    pure (ρ, some v)
  | .ite c body orelse => do
    let t ← evalA n ρ c
    let tb ← truthA t
    if tb then execBlockA n ρ body else execBlockA n ρ orelse
  | .expr _ => pure (ρ, Option.none)
  | .other _ => .error .notImpl
def execBlockA (n : Nat) (ρ : AEnv) : List Stmt → Except Err (AEnv × Option AVal)
  | [] => .ok (ρ, Option.none)
  | s :: rest => do
    let (ρ', r) ← execStmtA n ρ s
    match r with
    | some v => pure (ρ', some v)
    | Option.none => execBlockA n ρ' rest
end

/-- call a (rewritten) function on argument arrays of length `n` -/
def runFunA (f : FunDef) (args : List AVal) (n : Nat) : Except Err AVal := do
  if args.length ≠ f.args.length then throw Err.typeError
  if !(args.all (AVal.fits n)) then throw Err.shape
  let (_, r) ← execBlockA n (f.args.zip args) f.body
  pure (r.getD (.scalar .none))

/-! ### decidable equality (for evaluation-style examples) -/

mutual
def yBeq : Y → Y → Bool
  | .num a, .num b => a == b
  | .pinf, .pinf => true
  | .ninf, .ninf => true
  | .str a, .str b => a == b
  | .bool a, .bool b => a == b
  | .null, .null => true
  | .date a, .date b => a == b
  | .list xs, .list ys => yBeqList xs ys
  | .dict xs, .dict ys => yBeqKvs xs ys
  | _, _ => false
def yBeqList : List Y → List Y → Bool
  | [], [] => true
  | x :: xs, y :: ys => yBeq x y && yBeqList xs ys
  | _, _ => false
def yBeqKvs : List (Key × Y) → List (Key × Y) → Bool
  | [], [] => true
  | (k, x) :: xs, (l, y) :: ys => k == l && yBeq x y && yBeqKvs xs ys
  | _, _ => false
end

theorem yBeq_sound_all :
    (∀ a b, yBeq a b = true → a = b) ∧ (∀ a b, yBeqKvs a b = true → a = b) ∧
    (∀ a b, yBeqList a b = true → a = b) := by
  refine yBeq.mutual_induct (motive_1 := fun a b => yBeq a b = true → a = b)
    (motive_3 := fun a b => yBeqList a b = true → a = b)
    (motive_2 := fun a b => yBeqKvs a b = true → a = b) ?_ ?_ ?_ ?_ ?_ ?_ ?_ ?_ ?_ ?_ ?_ ?_ ?_ ?_ ?_ ?_
  · intro a b h; simp [yBeq] at h; rw [h]
  · intro _; rfl
  · intro _; rfl
  · intro a b h; simp [yBeq] at h; rw [h]
  · intro a b h; simp [yBeq] at h; rw [h]
  · intro _; rfl
  · intro a b h; simp [yBeq] at h; rw [h]
  · intro xs ys ih h; simp only [yBeq] at h; rw [ih h]
  · intro xs ys ih h; simp only [yBeq] at h; rw [ih h]
  · intro t x h1 h2 h3 h4 h5 h6 h7 h8 h9 h
    cases t <;> cases x <;> simp_all [yBeq]
  · intro _; rfl
  · intro x xs y ys ih1 ih2 h
    simp only [yBeqList, Bool.and_eq_true] at h
    rw [ih1 h.1, ih2 h.2]
  · intro t x h1 h2 h
    cases t <;> cases x <;> simp_all [yBeqList]
  · intro _; rfl
  · intro k x xs l y ys ih1 ih2 h
    simp only [yBeqKvs, Bool.and_eq_true, beq_iff_eq] at h
    rw [h.1.1, ih1 h.1.2, ih2 h.2]
  · intro t x h1 h2 h
    exfalso
    cases t with
    | nil =>
      cases x with
      | nil => exact h1 rfl rfl
      | cons q qs => simp [yBeqKvs] at h
    | cons p ps =>
      cases x with
      | nil => simp [yBeqKvs] at h
      | cons q qs =>
        obtain ⟨k, a⟩ := p
        obtain ⟨l, b⟩ := q
        exact h2 k a ps l b qs rfl rfl

theorem yBeq_refl (a : Y) : yBeq a a = true := by
  refine Y.rec (motive_1 := fun a => yBeq a a = true)
    (motive_2 := fun xs => yBeqList xs xs = true)
    (motive_3 := fun xs => yBeqKvs xs xs = true) (motive_4 := fun p => yBeq p.2 p.2 = true)
    ?_ ?_ ?_ ?_ ?_ ?_ ?_ ?_ ?_ ?_ ?_ ?_ ?_ ?_ a
  · intro q; simp [yBeq]
  · rfl
  · rfl
  · intro v; simp [yBeq]
  · intro b; simp [yBeq]
  · rfl
  · intro d; simp [yBeq]
  · intro xs ih; simp only [yBeq]; exact ih
  · intro xs ih; simp only [yBeq]; exact ih
  · rfl
  · intro h t ih1 ih2; simp only [yBeqList, ih1, ih2, Bool.and_self]
  · rfl
  · intro h t ih1 ih2
    obtain ⟨k, y⟩ := h
    simp only [yBeqKvs, beq_self_eq_true, ih1, ih2, Bool.and_self]
  · intro k y ih; exact ih

instance : DecidableEq Y := fun a b =>
  if h : yBeq a b = true then isTrue (yBeq_sound_all.1 a b h)
  else isFalse (fun e => h (e ▸ yBeq_refl a))
deriving instance DecidableEq for Val
deriving instance DecidableEq for AVal
deriving instance DecidableEq for Except

/-- Bool equality on values (exact: `int 1 ≠ flt 1`) -/
def Val.beq : Val → Val → Bool
  | .int a, .int b => a == b
  | .flt a, .flt b => a == b
  | .bool a, .bool b => a == b
  | .inf a, .inf b => a == b
  | .str a, .str b => a == b
  | .tree a, .tree b => yBeq a b
  | .none, .none => true
  | _, _ => false

def PVal.beq : PVal → PVal → Bool
  | some a, some b => Val.beq a b
  | none, none => true
  | _, _ => false

def pvalsBeq : List PVal → List PVal → Bool
  | [], [] => true
  | x :: xs, y :: ys => PVal.beq x y && pvalsBeq xs ys
  | _, _ => false

def AVal.beq : AVal → AVal → Bool
  | .scalar a, .scalar b => Val.beq a b
  | .col a, .col b => pvalsBeq a b
  | _, _ => false

/-- all rows `0 … n-1` of an array result -/
def AVal.rows (a : AVal) (n : Nat) : List PVal := (List.range n).map a.get

/-- scalar results of `f` on every row of `args` (poison row = `none`) -/
def scalarRows (f : FunDef) (args : List AVal) (n : Nat) : List (Option (Except Err Val)) :=
  (List.range n).map fun i => (rowArgs args i).map (runFun f)

/-- row-by-row agreement of an array run with the scalar runs (all must succeed) -/
def agreesOnRows (f f' : FunDef) (args : List AVal) (n : Nat) : Bool :=
  match runFunA f' args n with
  | .ok out =>
    (List.range n).all fun i =>
      match rowArgs args i with
      | some vs => match runFun f vs with
        | .ok v => PVal.beq (out.get i) (some v)
        | .error _ => false
      | none => false
  | .error _ => false

end GV.ArrSem

/-! ## type discipline of the sound fragment -/
namespace GV.VecTy
open GV.Lang

/-- `num`: int / float / ±inf; `bool`; `dyn`: statically unknown scalar (parameter trees,
strings, results of subscripts and of opaque calls) -/
inductive Ty where
  | num | bool | dyn
  deriving DecidableEq, Repr, Inhabited

abbrev Ctx := List (String × Ty)

def Ctx.get? (Γ : Ctx) (x : String) : Option Ty :=
  match Γ with
  | [] => none
  | (k, t) :: rest => if k = x then some t else Ctx.get? rest x

/-- least upper bound (`dyn` is the top) -/
def Ty.join (a b : Ty) : Ty := if a = b then a else .dyn

/-- subsumption: `t ≤ t` and `t ≤ dyn` -/
def Ty.le (a b : Ty) : Bool := a == b || b == .dyn

def tyOfVal : Val → Ty
  | .int _ => .num
  | .flt _ => .num
  | .inf _ => .num
  | .bool _ => .bool
  | _ => .dyn

def hasTy (v : Val) : Ty → Bool
  | .dyn => true
  | .num => match v with
    | .int _ => true | .flt _ => true | .inf _ => true | _ => false
  | .bool => match v with
    | .bool _ => true | _ => false

/-- result type of an (untransformed or builtin) call: two-argument `max`/`min` (`num` if
both arguments are), `float`/`abs` (`num`), any non-builtin call (`dyn`); `sum`/`any`/`all`
and one-argument `max`/`min` are outside the fragment -/
def callTy (f : String) (ts : List Ty) : Option Ty :=
  if f = "max" ∨ f = "min" then
    match ts with
    | [a, b] => if a = .num ∧ b = .num then some .num else some .dyn
    | _ => none
  else if f = "sum" ∨ f = "any" ∨ f = "all" then none
  else if f = "float" ∨ f = "abs" then
    match ts with
    | [_] => some .num
    | _ => none
  else some .dyn

mutual
/-- the expression fragment F.  Only `and`/`or` constrain operand types (they must be
`bool`: Python returns an operand, `logical_and` a bool); arithmetic, comparison, `not` and
conditions accept any typed operand -- Python raises `TypeError` on both sides or computes
with truthiness / `bool ⊂ int` on both sides. -/
def typeOf (Γ : Ctx) : Expr → Option Ty
  | .const v => some (tyOfVal v)
  | .name x => Γ.get? x
  | .bin _ a b => do
    let _ ← typeOf Γ a
    let _ ← typeOf Γ b
    some .num
  | .neg a => do
    let _ ← typeOf Γ a
    some .num
  | .cmp a rest => do
    let _ ← typeOf Γ a
    typeCmp Γ rest
  | .boolop _ args => if allBool Γ args then some .bool else none
  | .not a => do
    let _ ← typeOf Γ a
    some .bool
  | .ifexp c a b => do
    let _ ← typeOf Γ c
    let ta ← typeOf Γ a
    let tb ← typeOf Γ b
    some (ta.join tb)
  | .call f args => do
    let ts ← typeArgs Γ args
    callTy f ts
  | .mcall _ _ => none
  | .sub e idx => do
    let _ ← typeOf Γ e
    let _ ← typeOf Γ idx
    some .dyn
  | .isIn _ _ _ => none
  | .opaque _ => none
/-- exactly ONE comparison (chained comparisons are loud on arrays) -/
def typeCmp (Γ : Ctx) : List (CmpOp × Expr) → Option Ty
  | [] => none
  | (_, e) :: rest =>
    match rest with
    | [] => do
      let _ ← typeOf Γ e
      some .bool
    | _ :: _ => none
def allBool (Γ : Ctx) : List Expr → Bool
  | [] => true
  | e :: rest => (typeOf Γ e == some .bool) && allBool Γ rest
def typeArgs (Γ : Ctx) : List Expr → Option (List Ty)
  | [] => some []
  | e :: rest => do
    let t ← typeOf Γ e
    let ts ← typeArgs Γ rest
    some (t :: ts)
end

/-- what an `if`/`elif`/`else` chain does: return, or assign variable `x` of type `t` -/
inductive Kind where
  | ret
  | asg (x : String) (t : Ty)
  deriving DecidableEq, Repr

mutual
/-- the SOUND `if` shapes: every leaf of the `if`/`elif`/`else` tree is a single `return e`
(kind `ret`) or a single `x = e` with `e : t' ≤ t` (kind `asg x t`); a missing `else` is
allowed only for assignments to an `x` that is already bound with a type `≤ t` -/
def chainOK (Γ : Ctx) (k : Kind) : Stmt → Bool
  | .ite c body orelse =>
    (typeOf Γ c).isSome && bodyOK Γ k body && elseOK Γ k orelse
  | .ret e => match k with
    | .ret => (typeOf Γ e).isSome
    | .asg _ _ => false
  | .assign y e => match k with
    | .ret => false
    | .asg x t => (x == y) && (match typeOf Γ e with
      | some t' => t'.le t
      | none => false)
  | .aug _ _ _ => false
  | .expr _ => false
  | .other _ => false
def bodyOK (Γ : Ctx) (k : Kind) : List Stmt → Bool
  | [] => false
  | s :: rest => match rest with
    | [] => chainOK Γ k s
    | _ :: _ => false
def elseOK (Γ : Ctx) (k : Kind) : List Stmt → Bool
  | [] => match k with
    | .ret => false
    | .asg x t => (match Γ.get? x with
      | some t' => t'.le t
      | none => false)
  | s :: rest => match rest with
    | [] => chainOK Γ k s
    | _ :: _ => false
end

mutual
/-- first leaf of an `if` chain (descending through the bodies) -/
def leaf? : Stmt → Option Stmt
  | .ite _ body _ => leafL? body
  | .assign x e => some (.assign x e)
  | .aug x op e => some (.aug x op e)
  | .ret e => some (.ret e)
  | .expr e => some (.expr e)
  | .other w => some (.other w)
def leafL? : List Stmt → Option Stmt
  | [] => none
  | s :: _ => leaf? s
end

def chainKind (Γ : Ctx) (s : Stmt) : Option Kind :=
  match leaf? s with
  | some (.ret _) => some .ret
  | some (.assign x e) => (typeOf Γ e).map (Kind.asg x)
  | _ => none

def Kind.after (Γ : Ctx) : Kind → Ctx
  | .ret => Γ
  | .asg x t => (x, t) :: Γ

/-- the statement fragment F⁻: returns the context after the statement.  For an assignment
chain the type of the target is the type of its first leaf, or `dyn` if the leaves disagree -/
def typeStmt (Γ : Ctx) : Stmt → Option Ctx
  | .assign x e => (typeOf Γ e).map fun t => (x, t) :: Γ
  | .aug x _ e =>
    match Γ.get? x, typeOf Γ e with
    | some _, some _ => some ((x, .num) :: Γ)
    | _, _ => none
  | .ret e => (typeOf Γ e).map fun _ => Γ
  | .expr _ => some Γ
  | .ite c body orelse =>
    match chainKind Γ (.ite c body orelse) with
    | some k =>
      if chainOK Γ k (.ite c body orelse) then some (k.after Γ)
      else match k with
        | .ret => none
        | .asg x _ =>
          if chainOK Γ (.asg x .dyn) (.ite c body orelse) then some ((Kind.asg x .dyn).after Γ)
          else none
    | none => none
  | .other _ => none

def typeBlock (Γ : Ctx) : List Stmt → Option Ctx
  | [] => some Γ
  | s :: rest =>
    match typeStmt Γ s with
    | some Γ' => typeBlock Γ' rest
    | none => none

mutual
/-- names involved in a bare alias assignment `x = y` (at top level or in an `if` branch) -/
def aliasNamesS : Stmt → List String
  | .assign x e => match e with
    | .name y => [x, y]
    | _ => []
  | .ite _ body orelse => aliasNamesL body ++ aliasNamesL orelse
  | .aug _ _ _ => []
  | .ret _ => []
  | .expr _ => []
  | .other _ => []
def aliasNamesL : List Stmt → List String
  | [] => []
  | s :: rest => aliasNamesS s ++ aliasNamesL rest
end

/-- targets of the top-level augmented assignments -/
def augTargets : List Stmt → List String
  | [] => []
  | s :: rest => match s with
    | .aug x _ _ => x :: augTargets rest
    | _ => augTargets rest

/-- numpy's `x += e` on an array is IN PLACE: it also changes every other name bound to the
same array (`out = a; out += b` changes `a`, and the caller's column).  The array semantics
above is purely functional, so F⁻ only allows augmented assignments whose target is neither a
function argument nor involved in a bare alias assignment `x = y` (every other right-hand
side -- arithmetic, `where`, `maximum`, … -- yields a fresh array or a scalar). -/
def noAliasedAug (f : FunDef) : Bool :=
  (augTargets f.body).all fun x =>
    !(f.args.contains x) && !((aliasNamesL f.body).contains x)

/-- `f` is in F⁻ when its arguments have the types `tys` -/
def funOK (tys : List Ty) (f : FunDef) : Bool :=
  (tys.length == f.args.length) && (typeBlock (f.args.zip tys) f.body).isSome &&
    noAliasedAug f

/-- the argument values have the declared types -/
def argsTyped : List Val → List Ty → Bool
  | [], [] => true
  | v :: vs, t :: ts => hasTy v t && argsTyped vs ts
  | _, _ => false

end GV.VecTy
