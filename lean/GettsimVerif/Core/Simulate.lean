import GettsimVerif.Core.Lang
import GettsimVerif.Core.Agg
import GettsimVerif.Core.Groupings
import GettsimVerif.Core.TimeConv
import GettsimVerif.Core.Round
import GettsimVerif.Core.VecDtype
import GettsimVerif.Core.Dag
/-
End-to-end executable model of `interface.compute_taxes_and_transfers` for TOY tax systems
(user rules written in the rule language of `Core/Lang`, a parameter tree, user aggregation
specs, a data table, targets, the `rounding` switch).

The model follows the Python step by step:

* `parse_to_list_of_strings`               → `sortDedup`
* `_process_and_check_data`                → `checkData`
* `load_and_check_functions`               → `prepare`/`buildFunctions` (`ruleFn`, `pidFns`, `timeConvFns`,
                                              `groupAggFns`, `groupingFns`, dict merge = `merge`)
* `_convert_data_to_correct_types`         → `convertData`
* `set_up_dag` / `dags.create_dag`         → `Dag.prune` + `hasCycle`
* `_add_rounding_to_functions`             → `roundingSpecOf` (the `KeyError`s, before evaluation)
* `_partial_parameters_to_functions`       → `freeArgs`
* `_fail_if_root_nodes_are_missing`        → `missingRoots`
* `dags.concatenate_functions` + the call  → `Dag.eval` on the pruned system, the nodes being
                                              visited in networkx' lexicographical topological
                                              order (`topoOrder`) so that the FIRST failing node
                                              decides the error, as in the real execution
* `_prepare_results`                       → broadcast of 0-d results, `reorderColumns`

ASSUMPTIONS (the differential-test harness has to respect them):
* no name (rule, spec, data column, target) collides with a built-in rule or with a key /
  source column of the simulator's internal aggregation dictionaries (these dictionaries are
  always loaded by the real code; the model ignores them);
* no rule / spec / data column name ends in `_params` (only rule ARGUMENTS do);
* data columns are homogeneous (`int64`, `float64` or `bool`), all of the same length ≥ 1, without
  NaN, with distinct names; the value of `params[g]` is a dictionary;
* numeric leaves of the parameter tree are floats (inherited from `Lang.leafVal`);
* rules return `int | float | bool` (anything else is reported as `typeError`);
* floats are exact rationals (no overflow, no NaN; `inf` only inside the dtype probe; a rounding
  base of 0 is reported as `.other`);
* `debug = False`, `check_minimal_specification = "ignore"`, numpy backend.

ERROR MAPPING: ValueError → `valueError`, KeyError → `keyError`, TypeError → `typeError`,
ZeroDivisionError → `zeroDiv`, IndexError → `shape`; dags' `MissingFunctionsError` and
`CyclicDependencyError` as well as `AttributeError` → `other`.

KNOWN APPROXIMATIONS (all concern scalars, i.e. results of rules without column inputs):
* a scalar fed to one of the id constructors of `groupings.py` is reported in signature order
  (the real loops index the arrays in a slightly different order and `fg_id` touches `alter` only
  for rows that have children);
* the group sum of a scalar (an `object` array in reality) gets the dtype of the scalar;
* a `nan` in the dtype probe (0/0 with numpy scalars) falls back to the dtype of the first result.
-/
namespace GV.Simulate
open GV.Lang (Val FunDef)
open GV.VecDtype (R DT numOf)
open GV.TimeConv (TUnit)
open GV.Yaml (Y Key)

/-! ## Input -/

inductive Ty where
  | float | int | bool
  deriving DecidableEq, Repr, Inhabited

def Ty.toDT : Ty → DT
  | .float => .float | .int => .int | .bool => .bool

/-- One user rule. `fn.args` are the Python parameter names (arguments called `<g>_params` receive
`params[g]`), `ret` the return annotation, `roundingKey` = `params_key_for_rounding`. `argTypes`
(the argument annotations) have no influence on the computation; they are carried for the codec. -/
structure Rule where
  name : String
  fn : FunDef
  argTypes : List (String × Ty) := []
  ret : Option Ty := none
  roundingKey : Option String := none
  deriving Repr

inductive Aggr where
  | sum | mean | max | min | any | all | count
  deriving DecidableEq, Repr, Inhabited

/-- `{"aggr": …, "source_col": …}` -/
structure GroupSpec where
  aggr : Aggr
  source : Option String := none
  deriving Repr

/-- `{"p_id_to_aggregate_by": …, "source_col": …, "aggr": "sum"}` -/
structure PidSpec where
  pIdToAggregateBy : String
  source : String
  deriving Repr

abbrev Column := List Val

structure Input where
  rules : List Rule
  params : List (String × Val) := []
  groupSpecs : List (String × GroupSpec) := []
  pidSpecs : List (String × PidSpec) := []
  data : List (String × Column)
  targets : List String
  rounding : Bool := true
  deriving Repr

abbrev Table := List (String × Column)

/-! ## small utilities -/

def find? {β : Type} (l : List (String × β)) (n : String) : Option β := Dag.find? l n

def insertSorted (s : String) : List String → List String
  | [] => [s]
  | x :: xs => if s < x then s :: x :: xs else if s = x then x :: xs else x :: insertSorted s xs

/-- `sorted(set(targets))` -/
def sortDedup (l : List String) : List String := l.foldr insertSorted []

def endsWith (s suf : String) : Bool := (TimeConv.stripSuffix? s.toList suf.toList).isSome

/-- `str.removesuffix` -/
def removeSuffix (s suf : String) : String :=
  match TimeConv.stripSuffix? s.toList suf.toList with
  | some pre => String.ofList pre
  | none => s

/-- `SUPPORTED_GROUPINGS` (as suffixes `_hh`, `_wthh`, …), in the order of `config.py` -/
def groupSuffixes : List String := TimeConv.groupSuffixes

/-- `shared.remove_group_suffix`: the suffixes are removed SUCCESSIVELY in the order
hh, wthh, fg, bg, eg, ehe, sn (`x_sn_hh ↦ x`, but `x_hh_sn ↦ x_hh`). -/
def removeGroupSuffix (col : String) : String :=
  groupSuffixes.foldl removeSuffix col

/-- the group id column of an aggregation column: `<g>_id` for the LAST `g` with `col.endswith("_"+g)` -/
def groupIdOf (col : String) : Option String :=
  groupSuffixes.foldl (fun acc g => if endsWith col g then some ((g.drop 1).toString ++ "_id") else acc) none

def isParamArg (a : String) : Bool := endsWith a "_params"

/-- `i[:-7]` -/
def paramGroup (a : String) : String := String.ofList (a.toList.take (a.length - 7))

/-! ## columns -/

/-- What a node of the DAG may evaluate to. Besides 1-d arrays there are three kinds of scalars
(all with exactly one value), which the real code treats differently:
* `arr0`: a 0-d `numpy.ndarray` (a vectorized rule all of whose inputs are scalars, e.g. a rule
  that depends on parameters only). As input of a vectorized rule it becomes a PYTHON number.
* `npScalar`: a numpy scalar (`np.float64`, …): arithmetic on a 0-d array (time conversion,
  rounding). As input of a vectorized rule it STAYS a numpy scalar.
* `pyScalar`: a Python number (the result of a rule without any argument, which
  `numpy.vectorize` calls directly). It has no `.dtype`. -/
inductive Shape where
  | arr | arr0 | npScalar | pyScalar
  deriving DecidableEq, Repr, Inhabited

/-- a column: dtype, values (all of that dtype) and shape -/
structure Col where
  dt : DT
  vals : List R
  shape : Shape := .arr
  deriving Repr, Inhabited

def Col.scalar (c : Col) : Bool := c.shape != .arr

def valToR : Val → Option R
  | .int i => some (.i i)
  | .flt q => some (.f q)
  | .bool b => some (.b b)
  | _ => none

def rToVal : R → Val
  | .i v => .int v
  | .f q => .flt q
  | .b v => .bool v

/-- dtype of a data column: all `bool` → bool, all `int` → int64, `int`/`float` mixed → float64 -/
def colOfData (c : Column) : Except Err Col :=
  match c.mapM valToR with
  | none => .error .typeError
  | some rs =>
    if rs.all (fun r => VecDtype.dtypeOf r == .bool) && !rs.isEmpty then .ok { dt := .bool, vals := rs }
    else if rs.all (fun r => VecDtype.dtypeOf r == .int) && !rs.isEmpty then .ok { dt := .int, vals := rs }
    else if rs.all (fun r => VecDtype.dtypeOf r != .bool) then
      .ok { dt := .float, vals := rs.map (VecDtype.cast .float) }
    else .error .typeError

def Col.rats (c : Col) : List Rat := c.vals.map numOf

def isIntegral (q : Rat) : Bool := q.den == 1

def ratToInt (q : Rat) : Int := q.floor

def Col.ints (c : Col) : List Int := c.vals.map fun r => ratToInt (numOf r)

def Col.bools (c : Col) : List Bool := c.vals.map fun r => numOf r != 0

def Col.castTo (c : Col) (t : DT) : Col := { c with dt := t, vals := c.vals.map (VecDtype.cast t) }

/-- `gettsim_typing.convert_series_to_internal_type` (failure = `ValueError`) -/
def convertCol (t : Ty) (c : Col) : Except Err Col :=
  if c.dt = t.toDT then .ok c
  else match t, c.dt with
    | .float, .bool => .error .valueError
    | .float, _ => .ok (c.castTo .float)
    | .int, .float => if c.rats.all isIntegral then .ok (c.castTo .int) else .error .valueError
    | .int, _ => .ok (c.castTo .int)
    | .bool, _ => if c.rats.all (fun q => q = 0 || q = 1) then .ok (c.castTo .bool) else .error .valueError

/-- `config.TYPES_INPUT_VARIABLES` -/
def typesInputVariables : List (String × Ty) :=
  [("hh_id", .int), ("p_id", .int), ("p_id_elternteil_1", .int), ("p_id_elternteil_2", .int),
   ("p_id_kindergeld_empf", .int), ("p_id_erziehgeld_empf", .int), ("p_id_ehepartner", .int),
   ("p_id_einstandspartner", .int), ("vermögen_bedürft", .float),
   ("eigenbedarf_gedeckt", .bool), ("gemeinsam_veranlagt", .bool), ("bruttolohn_m", .float),
   ("alter", .int), ("weiblich", .bool), ("selbstständig", .bool), ("wohnort_ost", .bool),
   ("ges_pflegev_hat_kinder", .bool), ("eink_selbst_m", .float), ("in_priv_krankenv", .bool),
   ("priv_rentenv_beitr_m", .float), ("elterngeld_nettoeinkommen_vorjahr_m", .float),
   ("elterngeld_zu_verst_eink_vorjahr_y_sn", .float), ("bruttolohn_vorj_m", .float),
   ("arbeitsstunden_w", .float), ("geburtsjahr", .int), ("geburtstag", .int),
   ("geburtsmonat", .int), ("mietstufe", .int), ("entgeltp_ost", .float),
   ("entgeltp_west", .float), ("kind", .bool), ("rentner", .bool), ("betreuungskost_m", .float),
   ("p_id_betreuungsk_träger", .int), ("kapitaleink_brutto_m", .float),
   ("eink_vermietung_m", .float), ("bruttokaltmiete_m_hh", .float), ("heizkosten_m_hh", .float),
   ("jahr_renteneintr", .int), ("monat_renteneintr", .int), ("behinderungsgrad", .int),
   ("wohnfläche_hh", .float), ("monate_elterngeldbezug", .int), ("elterngeld_claimed", .bool),
   ("in_ausbildung", .bool), ("alleinerz", .bool), ("bewohnt_eigentum_hh", .bool),
   ("immobilie_baujahr_hh", .int), ("sonstig_eink_m", .float), ("grundr_entgeltp", .float),
   ("grundr_zeiten", .int), ("grundr_bew_zeiten", .int), ("priv_rente_m", .float),
   ("schwerbeh_g", .bool), ("m_pflichtbeitrag", .float), ("m_freiw_beitrag", .float),
   ("m_mutterschutz", .float), ("m_arbeitsunfähig", .float), ("m_krank_ab_16_bis_24", .float),
   ("m_arbeitsl", .float), ("m_ausbild_suche", .float), ("m_schul_ausbild", .float),
   ("m_geringf_beschäft", .float), ("m_alg1_übergang", .float), ("m_ersatzzeit", .float),
   ("m_kind_berücks_zeit", .float), ("m_pfleg_berücks_zeit", .float),
   ("y_pflichtbeitr_ab_40", .float), ("pflichtbeitr_8_in_10", .bool),
   ("arbeitsl_1y_past_585", .bool), ("vertra_arbeitsl_1997", .bool),
   ("vertra_arbeitsl_2006", .bool), ("höchster_bruttolohn_letzte_15_jahre_vor_rente_y", .float),
   ("anwartschaftszeit", .bool), ("arbeitssuchend", .bool), ("m_durchg_alg1_bezug", .float),
   ("sozialv_pflicht_5j", .float), ("bürgerg_bezug_vorj", .bool),
   ("kind_unterh_anspr_m", .float), ("kind_unterh_erhalt_m", .float), ("steuerklasse", .int),
   ("budgetsatz_erzieh", .bool), ("voll_erwerbsgemind", .bool), ("teilw_erwerbsgemind", .bool)]

/-! ## the function set -/

inductive Grouping where
  | wthh | fg | bg | eg | ehe | sn
  deriving DecidableEq, Repr, Inhabited

inductive Kind where
  /-- a vectorized user rule; `key` = the rounding key, already `none` when `rounding = False` -/
  | rule (fn : FunDef) (ret : Option Ty) (key : Option String)
  | pidSum (src ptr : String)
  | timeConv (src : String) (u v : TUnit)
  | groupAgg (aggr : Aggr) (src : Option String) (gid : String)
  | grouping (g : Grouping)
  deriving Repr, Inhabited

/-- one entry of the dictionaries of functions: `args` = `inspect.signature(f).parameters`,
`ann` = `f.__annotations__.get("return")` -/
structure Fn where
  name : String
  args : List String
  ann : Option Ty
  kind : Kind
  deriving Repr, Inhabited

/-- Python `d[f.name] = f`: replace in place or append -/
def dictUpdate (d : List Fn) (f : Fn) : List Fn :=
  match d with
  | [] => [f]
  | g :: rest => if g.name = f.name then f :: rest else g :: dictUpdate rest f

/-- `{**a, **b}` -/
def merge (a b : List Fn) : List Fn := b.foldl dictUpdate a

def findFn? (d : List Fn) (n : String) : Option Fn := d.find? (·.name = n)

def hasFn (d : List Fn) (n : String) : Bool := (findFn? d n).isSome

/-- `_vectorize_func(f)`; the rounding key only matters if `rounding` is on -/
def ruleFn (rounding : Bool) (r : Rule) : Fn :=
  { name := r.name, args := r.fn.args, ann := r.ret,
    kind := .rule r.fn r.ret (if rounding then r.roundingKey else none) }

/-- `_select_return_type` -/
def selectReturnType (a : Aggr) (t : Ty) : Ty :=
  match t, a with
  | .int, .any => .bool
  | .int, .all => .bool
  | .bool, .sum => .int
  | t, _ => t

/-- `_annotations_for_aggregation(...).get("return")` -/
def aggAnn (a : Aggr) (src : Option String) (fns : List Fn) : Option Ty :=
  match a with
  | .count => some .int
  | _ =>
    match src with
    | none => none
    | some s =>
      match (findFn? fns s).bind (·.ann) with
      | some t => some (selectReturnType a t)
      | none => (find? typesInputVariables s).map (selectReturnType a)

/-- `_create_aggregate_by_p_id_functions` (user specs only). A spec is kept if its source column is a rule, a data
column, or a column that a time conversion derives from a data column. `rename_arguments` builds an
`inspect.Signature` with the parameters `(source_col, p_id_to_aggregate_by, "p_id")`; two equal
names are a `ValueError` ("duplicate parameter name"). -/
def pidFns (rules : List Fn) (dataCols : List String) (specs : List (String × PidSpec)) :
    Except Err (List Fn) := do
  -- columns that time conversions derive from the data (an input supplied in another time unit); since the commit
  -- "fix: person-pointer aggregations accept source columns supplied in another time unit"
  let derived := (TimeConv.create [] dataCols).map (·.name)
  let fs ← specs.filterMapM fun (n, s) =>
    if hasFn rules s.source || dataCols.contains s.source || derived.contains s.source then
      if s.source = s.pIdToAggregateBy || s.source = "p_id" || s.pIdToAggregateBy = "p_id" then
        throw Err.valueError
      else
        pure (some { name := n, args := [s.source, s.pIdToAggregateBy, "p_id"],
                     ann := aggAnn .sum (some s.source) rules, kind := .pidSum s.source s.pIdToAggregateBy })
    else pure none
  pure (merge [] fs)

/-- `create_time_conversion_functions({**rules, **pid}, data_cols)`; the wrappers created by
`dags.rename_arguments` carry no `return` annotation -/
def timeConvFns (rulesAndPid : List Fn) (dataCols : List String) : List Fn :=
  (TimeConv.create (rulesAndPid.map fun f => (f.name, f.args)) dataCols).map fun d =>
    { name := d.name, args := [d.src], ann := none, kind := .timeConv d.src d.u d.v }

/-- `_check_agg_specs_validity` + `_create_one_aggregate_by_group_func` for one spec -/
def groupAggFn (fns : List Fn) (name : String) (s : GroupSpec) : Except Err Fn :=
  match groupIdOf name with
  | none => .error .valueError
  | some gid =>
    match s.aggr, s.source with
    | .count, _ => .ok { name, args := [gid], ann := aggAnn .count none fns, kind := .groupAgg .count none gid }
    | a, some src =>
      -- `rename_arguments(mapper={"source_col": src, "group_id": gid})`: duplicate parameter name
      if src = gid then .error .valueError
      else .ok { name, args := [src, gid], ann := aggAnn a (some src) fns, kind := .groupAgg a (some src) gid }
    | _, none => .error .keyError

/-- `_create_aggregate_by_group_functions`: `fns` = `{**timeconv, **rules, **pid}`.
Automatic group sums are created for the arguments of `fns`, for the targets AND (since the commit
"fix: automatic group sums are also created for the source columns of aggregation specifications")
for the `source_col` of every aggregation specification (`"source_col" in spec`, so also for a
`count` spec that carries one; the built-in specs are ignored by the model, see ASSUMPTIONS). -/
def groupAggFns (fns : List Fn) (targets dataCols : List String)
    (userSpecs : List (String × GroupSpec)) : Except Err (List Fn) := do
  let sources := fns.map (·.name) ++ dataCols
  let potential := fns.flatMap (·.args) ++ targets ++ userSpecs.filterMap (fun (_, s) => s.source)
  let automated : List (String × GroupSpec) :=
    (potential.filter fun col =>
      !hasFn fns col && (groupIdOf col).isSome && sources.contains (removeGroupSuffix col)).map fun col =>
        (col, { aggr := .sum, source := some (removeGroupSuffix col) })
  -- `{**automated, **user}` as a dictionary name ↦ spec
  let upd (d : List (String × GroupSpec)) (e : String × GroupSpec) : List (String × GroupSpec) :=
    if d.any (·.1 = e.1) then d.map fun x => if x.1 = e.1 then e else x else d ++ [e]
  let specs := (automated ++ userSpecs).foldl upd []
  -- all validity checks (`KeyError`) come before the first function is created (`ValueError`)
  if specs.any fun (_, s) => s.aggr != .count && s.source.isNone then throw Err.keyError
  specs.mapM fun (n, s) => groupAggFn fns n s

/-- `groupings.create_groupings()` with the parameter names of `groupings.py` -/
def groupingFns : List Fn :=
  [ { name := "wthh_id", args := ["hh_id", "wohngeld_vorrang_bg", "wohngeld_kinderzuschl_vorrang_bg"],
      ann := some .int, kind := .grouping .wthh },
    { name := "fg_id", args := ["p_id", "hh_id", "alter", "p_id_einstandspartner", "p_id_elternteil_1",
        "p_id_elternteil_2"], ann := some .int, kind := .grouping .fg },
    { name := "bg_id", args := ["fg_id", "alter", "eigenbedarf_gedeckt"], ann := some .int, kind := .grouping .bg },
    { name := "eg_id", args := ["p_id", "p_id_einstandspartner"], ann := some .int, kind := .grouping .eg },
    { name := "ehe_id", args := ["p_id", "p_id_ehepartner"], ann := some .int, kind := .grouping .ehe },
    { name := "sn_id", args := ["p_id", "p_id_ehepartner", "gemeinsam_veranlagt"], ann := some .int,
      kind := .grouping .sn } ]

/-- `load_and_check_functions` up to `all_functions`
(`{**pid, **time_conversion, **rules, **group_aggregations, **groupings}`) -/
def buildFunctions (ruleFns : List Fn) (groupSpecs : List (String × GroupSpec))
    (pidSpecs : List (String × PidSpec)) (targets dataCols : List String) : Except Err (List Fn) := do
  let rules := merge [] ruleFns
  let pid ← pidFns rules dataCols pidSpecs
  let tc := timeConvFns (merge rules pid) dataCols
  let grp ← groupAggFns (merge (merge tc rules) pid) targets dataCols groupSpecs
  pure (merge (merge (merge (merge pid tc) rules) grp) groupingFns)

/-! ## checks on the data (`_process_and_check_data`) -/

def hasDupStr : List String → Bool
  | [] => false
  | x :: xs => xs.contains x || hasDupStr xs

def hasDupRat : List Rat → Bool
  | [] => false
  | x :: xs => xs.contains x || hasDupRat xs

def foreignKeys : List String :=
  ["p_id_ehepartner", "p_id_einstandspartner", "p_id_elternteil_1", "p_id_elternteil_2"]

/-- `col.groupby(id).transform("max") == col` -/
def constantWithinGroups (gid col : List Rat) : Bool :=
  let rows := gid.zip col
  rows.all fun (g, v) => rows.all fun (g', v') => g' != g || v' ≤ v

def checkData (data : List (String × Col)) : Except Err Unit := do
  if hasDupStr (data.map (·.1)) then throw Err.valueError
  -- `_fail_if_group_variables_not_constant_within_groups`
  for g in groupSuffixes do
    match find? data ((g.drop 1).toString ++ "_id") with
    | none => pure ()
    | some idc =>
      if data.any fun (n, c) => endsWith n g && !constantWithinGroups idc.rats c.rats then
        throw Err.valueError
  -- `_fail_if_pid_is_non_unique`
  match find? data "p_id" with
  | none => throw Err.valueError
  | some pid =>
    if hasDupRat pid.rats then throw Err.valueError
    -- `_fail_if_foreign_keys_are_invalid`
    for fk in foreignKeys do
      match find? data fk with
      | none => pure ()
      | some c =>
        if c.rats.any (fun k => !(k = -1 || pid.rats.contains k)) then throw Err.valueError
        if (c.rats.zip pid.rats).any (fun (k, p) => k = p) then throw Err.valueError

/-- `_convert_data_to_correct_types` (all failures are collected into one `ValueError`) -/
def convertData (data : List (String × Col)) (overridden : List Fn) : Except Err (List (String × Col)) :=
  data.mapM fun (n, c) =>
    let ty : Option Ty := match find? typesInputVariables n with
      | some t => some t
      | none => (findFn? overridden n).bind (·.ann)
    match ty with
    | none => .ok (n, c)
    | some t => do pure (n, ← convertCol t c)

/-! ## rounding specifications -/

/-- `params[key]["rounding"][name]` with both `base` and `direction` present -/
structure RSpec where
  base : Y
  direction : Y
  off : Option Y
  deriving Repr, Inhabited

/-- the lookups of `_add_rounding_to_functions` (every failure is a `KeyError`) -/
def roundingSpecOf (params : List (String × Val)) (key name : String) : Except Err RSpec :=
  match find? params key with
  | some (.tree p) =>
    match (p.get? (.s "rounding")).bind (·.get? (.s name)) with
    | some spec =>
      match spec.get? (.s "base"), spec.get? (.s "direction") with
      | some b, some d => .ok { base := b, direction := d, off := spec.get? (.s "to_add_after_rounding") }
      | _, _ => .error .keyError
    | none => .error .keyError
  | _ => .error .keyError

/-- the checks inside the rounding wrapper (`ValueError`s), then `Round.applyRounding` -/
def roundWith (s : RSpec) (x : Rat) : Except Err Rat :=
  match s.base with
  | .num b =>
    match (match s.off with | none => some (0 : Rat) | some (.num o) => some o | some _ => none) with
    | none => .error .valueError
    | some off =>
      match s.direction with
      | .str d =>
        if b = 0 then (if (Round.parseDir d).isSome then .error .other else .error .valueError)
        else Round.applyRounding true true
          (some { base := some b, direction := some d, off := some off }) x
      | _ => .error .valueError
  | _ => .error .valueError

/-! ## the node operations -/

/-- number of rows numpy broadcasting produces (`none` = all inputs are 0-d) -/
def broadcastLen (cols : List Col) : Except Err (Option Nat) :=
  match cols.filter (!·.scalar) with
  | [] => .ok none
  | c :: rest => if rest.all (·.vals.length = c.vals.length) then .ok (some c.vals.length) else .error .shape

def Col.at (c : Col) (i : Nat) : R := if c.scalar then c.vals.headD default else c.vals.getD i default

/-- the argument values of row `i`: parameter arguments that were partialled get the tree, the
others consume the input columns in order -/
def rowArgs (params : List (String × Val)) (free : List String) (i : Nat) :
    List String → List Col → List Val
  | [], _ => []
  | a :: as, cols =>
    if free.contains a then
      match cols with
      | c :: cs => rToVal (c.at i) :: rowArgs params free i as cs
      | [] => Val.none :: rowArgs params free i as []
    else ((find? params (paramGroup a)).getD Val.none) :: rowArgs params free i as cols

def resultToR (v : Val) : Except Err R :=
  match valToR v with
  | some r => .ok r
  | none => .error .typeError

/-! ### the dtype probe of `numpy.vectorize` without `otypes`

Without a return annotation `numpy.vectorize` first calls the rule ONCE on `arg.flat[0]` of every
input to find the output dtype. In this probe call the column arguments are NUMPY scalars
(`np.bool_`, `np.int64`, `np.float64`), whereas the real loop afterwards passes Python objects
(the inputs are converted to object arrays). Numpy scalars differ from Python numbers exactly
where two Booleans meet (`+` is `or`, `*` is `and`, `-` and unary `-` raise `TypeError`,
`abs` stays Boolean) and in division by zero (`inf`/`nan` with a warning instead of
`ZeroDivisionError`). An error in the probe aborts the call; its result only fixes the dtype. -/

/-- a value of the probe call; `np` = numpy scalar (not a Python object) -/
structure PV where
  v : Val
  np : Bool := false
  deriving Repr, Inhabited

/-- why the probe stopped: a Python exception, or a `nan` (not representable in the model) -/
inductive PStop where
  | err (e : Err)
  | nan
  deriving Repr, Inhabited

abbrev PM := Except PStop

def liftE {α : Type} (x : Except Err α) : PM α :=
  match x with
  | .ok a => .ok a
  | .error e => .error (.err e)

def pBin (op : Lang.BinOp) (x y : PV) : PM PV :=
  if x.np || y.np then
    match x.v, y.v with
    | .bool a, .bool b =>
      match op with
      | .add => .ok { v := .bool (a || b), np := true }
      | .mul => .ok { v := .bool (a && b), np := true }
      | .sub => .error (.err .typeError)
      | .div => if b then .ok { v := .flt (if a then 1 else 0), np := true }
                else if a then .ok { v := .inf false, np := true } else .error .nan
    | _, _ =>
      match op, Lang.num? x.v, Lang.num? y.v with
      | .div, some (a, _), some (b, _) =>
        if b = 0 then
          (if a = 0 then .error .nan else .ok { v := .inf (a < 0), np := true })
        else .ok { v := .flt (a / b), np := true }
      | _, _, _ =>
        match Lang.evalBin op x.v y.v with
        | .ok r => .ok { v := r, np := true }
        | .error .other => .error .nan          -- inf * 0
        | .error e => .error (.err e)
  else do
    let r ← liftE (Lang.evalBin op x.v y.v)
    pure { v := r }

def pNeg (x : PV) : PM PV :=
  match x.v with
  | .inf n => .ok { x with v := .inf (!n) }
  | .bool b => if x.np then .error (.err .typeError) else .ok { v := .int (if b then -1 else 0) }
  | v => match Lang.num? v with
    | some (q, fl) => .ok { x with v := Lang.mkNum (-q) fl }
    | none => .error (.err .typeError)

def pCmp (op : Lang.CmpOp) (x y : PV) : PM PV := do
  let b ← liftE (Lang.evalCmp op x.v y.v)
  pure { v := .bool b, np := x.np || y.np }

/-- builtin `max` / `min` with several arguments: one of the arguments is returned -/
def pPickExt (isMax : Bool) : List PV → PM PV
  | [] => .error (.err .typeError)
  | [v] => .ok v
  | v :: rest => do
    let r ← pPickExt isMax rest
    let better ← liftE (if isMax then Lang.evalCmp .lt v.v r.v else Lang.evalCmp .gt v.v r.v)
    pure (if better then r else v)

def pCall (f : String) (args : List PV) : PM PV :=
  match f, args with
  | "max", _ :: _ :: _ => pPickExt true args
  | "min", _ :: _ :: _ => pPickExt false args
  | "abs", [x] =>
    match x.v with
    | .bool _ => if x.np then .ok x else do pure { v := ← liftE (Lang.evalCall "abs" [x.v]) }
    | .inf _ => .ok { x with v := .inf false }
    | _ => do pure { x with v := ← liftE (Lang.evalCall "abs" [x.v]) }
  | _, _ => do pure { v := ← liftE (Lang.evalCall f (args.map (·.v))) }

abbrev PEnv := List (String × PV)

def PEnv.set (env : PEnv) (n : String) (v : PV) : PEnv :=
  match env with
  | [] => [(n, v)]
  | (k, w) :: rest => if k = n then (n, v) :: rest else (k, w) :: PEnv.set rest n v

mutual
def pEvalExpr (env : PEnv) : Lang.Expr → PM PV
  | .const v => .ok { v }
  | .name n => match find? env n with
    | some v => .ok v
    | none => .error (.err .nameError)
  | .bin op a b => do
    let x ← pEvalExpr env a
    let y ← pEvalExpr env b
    pBin op x y
  | .neg a => do
    let x ← pEvalExpr env a
    pNeg x
  | .cmp first rest => do
    let x ← pEvalExpr env first
    pEvalChain env x rest
  | .boolop isAnd args => pEvalBool env isAnd args
  | .not a => do
    let x ← pEvalExpr env a
    pure { v := .bool (!Lang.truthy x.v) }
  | .ifexp c a b => do
    let t ← pEvalExpr env c
    if Lang.truthy t.v then pEvalExpr env a else pEvalExpr env b
  | .call f args => do
    let vs ← pEvalArgs env args
    pCall f vs
  | .mcall _ _ => .error (.err .notImpl)
  | .sub e idx => do
    let c ← pEvalExpr env e
    let i ← pEvalExpr env idx
    pure { v := ← liftE (Lang.evalSub c.v i.v) }
  | .isIn e items neg => do
    let x ← pEvalExpr env e
    let vs ← pEvalArgs env items
    let hit ← vs.foldlM (fun acc v => do
      let eq ← liftE (Lang.evalCmp .eq x.v v.v)
      pure (acc || eq)) false
    pure { v := .bool (if neg then !hit else hit) }
  | .opaque _ => .error (.err .notImpl)
def pEvalChain (env : PEnv) (left : PV) : List (Lang.CmpOp × Lang.Expr) → PM PV
  | [] => .ok { v := .bool true }
  | (op, e) :: rest => do
    let r ← pEvalExpr env e
    let ok ← pCmp op left r
    match rest with
    | [] => pure ok
    | _ :: _ => if Lang.truthy ok.v then pEvalChain env r rest else pure ok
def pEvalBool (env : PEnv) (isAnd : Bool) : List Lang.Expr → PM PV
  | [] => .ok { v := .bool isAnd }
  | [e] => pEvalExpr env e
  | e :: rest => do
    let v ← pEvalExpr env e
    if Lang.truthy v.v = isAnd then pEvalBool env isAnd rest else pure v
def pEvalArgs (env : PEnv) : List Lang.Expr → PM (List PV)
  | [] => .ok []
  | e :: rest => do
    let v ← pEvalExpr env e
    let vs ← pEvalArgs env rest
    pure (v :: vs)
end

mutual
def pExecStmt (env : PEnv) : Lang.Stmt → PM (PEnv × Option PV)
  | .assign x e => do
    let v ← pEvalExpr env e
    pure (env.set x v, none)
  | .aug x op e => do
    let old ← match find? env x with | some v => pure v | none => throw (PStop.err .nameError)
    let v ← pEvalExpr env e
    let r ← pBin op old v
    pure (env.set x r, none)
  | .ret e => do
    let v ← pEvalExpr env e
    pure (env, some v)
  | .ite c body orelse => do
    let t ← pEvalExpr env c
    if Lang.truthy t.v then pExecBlock env body else pExecBlock env orelse
  | .expr _ => pure (env, none)
  | .other _ => .error (.err .notImpl)
def pExecBlock (env : PEnv) : List Lang.Stmt → PM (PEnv × Option PV)
  | [] => .ok (env, none)
  | s :: rest => do
    let (env', r) ← pExecStmt env s
    match r with
    | some v => pure (env', some v)
    | none => pExecBlock env' rest
end

/-- `Lang.runFun` with numpy scalars among the arguments -/
def runNumpy (f : FunDef) (args : List PV) : PM Val := do
  if args.length ≠ f.args.length then throw (PStop.err .typeError)
  let (_, r) ← pExecBlock (f.args.zip args) f.body
  pure ((r.map (·.v)).getD .none)

/-- the dtype found by the probe call (`asarray(f(*first_row)).dtype`) -/
def probeDtype (f : FunDef) (args : List PV) : PM DT := do
  match ← runNumpy f args with
  | .bool _ => pure .bool
  | .int _ => pure .int
  | .flt _ => pure .float
  | .inf _ => pure .float
  | _ => throw (PStop.err .typeError)

/-- which arguments of the rule are numpy scalars in the loop of `numpy.vectorize` -/
def npFlags (free : List String) : List String → List Col → List Bool
  | [], _ => []
  | a :: as, cols =>
    if free.contains a then
      match cols with
      | c :: cs => (c.shape == .npScalar) :: npFlags free as cs
      | [] => false :: npFlags free as []
    else false :: npFlags free as cols

/-- a vectorized rule (`numpy.vectorize(f, otypes=…)`), followed by the rounding wrapper -/
def ruleOp (params : List (String × Val)) (fn : FunDef) (ret : Option Ty) (spec : Option RSpec)
    (free : List String) (cols : List Col) : Except Err Col := do
  let n? ← broadcastLen cols
  let rows := List.range (n?.getD 1)
  -- without `otypes`: size-0 inputs are rejected, then the probe call on the first elements
  let probed : Option DT ←
    if ret.isSome || fn.args.isEmpty then pure none
    else if rows.isEmpty then throw Err.valueError
    else
      let args0 := (rowArgs params free 0 fn.args cols).zip (fn.args.map free.contains) |>.map
        fun (v, isCol) => ({ v, np := isCol } : PV)
      match probeDtype fn args0 with
      | .ok dt => pure (some dt)
      | .error (.err e) => throw e
      | .error .nan => pure none
  -- the loop proper: Python objects, except for inputs that are numpy scalars
  let npArgs := npFlags free fn.args cols
  let raw ← rows.mapM fun i =>
    let args := rowArgs params free i fn.args cols
    if npArgs.any id then
      match runNumpy fn (args.zip npArgs |>.map fun (v, np) => ({ v, np } : PV)) with
      | .ok v => .ok v
      | .error (.err e) => .error e
      | .error .nan => .error .other
    else Lang.runFun fn args
  let rs ← raw.mapM resultToR
  let out : Col ←
    if fn.args.isEmpty then
      -- `numpy.vectorize.__call__` without arguments returns `f()` itself: no cast at all
      match rs with
      | r :: _ => pure { dt := VecDtype.dtypeOf r, vals := [r], shape := .pyScalar }
      | [] => throw Err.other
    else
      match VecDtype.vectorize ((ret.map Ty.toDT).orElse fun _ => probed) rs with
      | some (dt, vals) => pure { dt, vals, shape := if n?.isNone then .arr0 else .arr }
      | none => throw Err.valueError
  match spec with
  | none => pure out
  | some s =>
    -- a Python float has no `.round()` (direction "nearest" on the result of a zero-argument rule)
    if fn.args.isEmpty && (match s.base, s.off, s.direction with
        | .num _, none, .str "nearest" => true
        | .num _, some (.num _), .str "nearest" => true
        | _, _, _ => false) then throw Err.other
    let vals ← out.vals.mapM fun r => do pure (R.f (← roundWith s (numOf r)))
    -- `base * np.ceil(out / base)` on a 0-d array or a Python number is a numpy scalar
    pure { out with dt := .float, vals, shape := if out.scalar then .npScalar else .arr }

/-- the converters of `time_conversion.py` on a numpy array: `m_to_y` is `value * 12` and keeps
integer dtypes (bool → int64); all others produce float64 -/
def timeConvOp (u v : TUnit) : List Col → Except Err Col
  | [c] =>
    -- arithmetic on a 0-d array gives a numpy scalar
    let shape := if c.shape == .arr0 then Shape.npScalar else c.shape
    if u = .m ∧ v = .y ∧ c.dt ≠ .float then
      .ok { dt := .int, vals := c.vals.map (fun r => .i (ratToInt (numOf r) * 12)), shape }
    else .ok { dt := .float, vals := c.vals.map (fun r => .f (TimeConv.conv u v (numOf r))), shape }
  | _ => .error .typeError

def groupAggOp (a : Aggr) : List Col → Except Err Col
  | [gid] =>
    -- `grouped_count`: `npg.aggregate(group_id, numpy.ones(n))` is a FLOAT array
    if a != .count then .error .typeError
    else if gid.shape == .pyScalar then .error .other      -- AttributeError: no `.dtype`
    else if gid.dt != .int then .error .typeError
    else if gid.scalar then .error .other
    else do
      let r ← Agg.groupedCount gid.ints
      pure { dt := .float, vals := r.map fun (k : Int) => R.f (k : Rat) }
  | [col, gid] =>
    if gid.shape == .pyScalar then .error .other          -- AttributeError: no `.dtype`
    else if gid.dt != .int then .error .typeError
    else if col.shape == .pyScalar then .error .other     -- AttributeError: no `.dtype`
    else
      let dtOk : Bool := match a with
        | .sum => true
        | .mean => col.dt == .float
        | .max | .min => col.dt != .bool
        | .any | .all => col.dt != .float
        | .count => false
      if !dtOk then .error .typeError
      else if gid.scalar then .error .other
      else if col.scalar && a != .sum then .error .valueError
      else
        let col : Col := if col.scalar then { col with vals := gid.vals.map fun _ => col.at 0, shape := .arr } else col
        let ofRat (dt : DT) (q : Rat) : R := match dt with
          | .float => .f q
          | _ => .i (ratToInt q)
        match a with
        | .sum => do
          let dt := if col.dt == .bool then DT.int else col.dt
          let r ← Agg.groupedSum col.rats gid.ints
          pure { dt, vals := r.map (ofRat dt) }
        | .mean => do
          let r ← Agg.groupedMean col.rats gid.ints
          pure { dt := .float, vals := r.map .f }
        | .max => do
          let r ← Agg.groupedMax col.rats gid.ints
          pure { dt := col.dt, vals := r.map (ofRat col.dt) }
        | .min => do
          let r ← Agg.groupedMin col.rats gid.ints
          pure { dt := col.dt, vals := r.map (ofRat col.dt) }
        | .any => do
          let r ← Agg.groupedAny col.bools gid.ints
          pure { dt := .bool, vals := r.map .b }
        | .all => do
          let r ← Agg.groupedAll col.bools gid.ints
          pure { dt := .bool, vals := r.map .b }
        | .count => .error .typeError
  | _ => .error .typeError

/-- `sum_by_p_id(column, p_id_to_aggregate_by, p_id_to_store_by)` -/
def pidSumOp : List Col → Except Err Col
  | [col, ptr, pid] =>
    if ptr.shape == .pyScalar then .error .other           -- AttributeError: no `.dtype`
    else if ptr.dt != .int then .error .typeError
    else if pid.shape == .pyScalar then .error .other
    else if pid.dt != .int then .error .typeError
    else if col.shape == .pyScalar then .error .other
    else if ptr.scalar || pid.scalar then .error .other
    else
      let dt := if col.dt == .bool then DT.int else col.dt
      if col.scalar then
        -- `column[iloc]` on a 0-d array: IndexError at the first valid pointer
        match ptr.ints.find? (· ≥ 0) with
        | none => .ok { dt, vals := pid.vals.map fun _ => VecDtype.cast dt (.i 0) }
        | some r => if (Agg.posMap pid.ints).any (·.1 = r) then .error .shape else .error .keyError
      else do
        let r ← Agg.sumByPid col.rats ptr.ints pid.ints
        pure { dt, vals := r.map fun q => match dt with | .float => R.f q | _ => R.i (ratToInt q) }
  | _ => .error .typeError

/-- the id constructors of `groupings.py` (not vectorized: they loop over the arrays) -/
def groupingOp (g : Grouping) (cols : List Col) : Except Err Col :=
  -- a 0-d array cannot be iterated (first argument: TypeError) nor indexed (others: IndexError)
  match cols with
  | [] => .error .typeError
  | c0 :: rest =>
    if c0.scalar then .error .typeError
    else if rest.any (·.scalar) then
      -- the loop indexes the other arguments in signature order: a Python number is not
      -- subscriptable (TypeError), a 0-d array / numpy scalar cannot be indexed (IndexError)
      if c0.vals.isEmpty then .ok { dt := .float, vals := [] }
      else match rest.find? (·.scalar) with
        | some c => if c.shape == .pyScalar then .error .typeError else .error .shape
        | none => .error .shape
    else if cols.any fun c => c.dt == .float && !c.rats.all isIntegral then .error .other
    else
      let ints (vs : List Int) (dt : DT := .int) : Col :=
        { dt, vals := vs.map fun (v : Int) => if dt == .float then R.f (v : Rat) else R.i v }
      match g, cols with
      | .wthh, [hh, v1, v2] =>
        .ok (ints (Groupings.wthhId hh.ints v1.bools v2.bools) (if hh.dt == .float then .float else .int))
      | .bg, [fg, alter, eigen] =>
        .ok (ints (Groupings.bgId fg.ints alter.ints eigen.bools) (if fg.dt == .float then .float else .int))
      | .eg, [pid, partner] => .ok (ints (Groupings.pairId pid.ints partner.ints))
      | .ehe, [pid, partner] => .ok (ints (Groupings.pairId pid.ints partner.ints))
      | .sn, [pid, partner, gv] => do pure (ints (← Groupings.snId pid.ints partner.ints gv.bools))
      | .fg, [pid, hh, alter, partner, e1, e2] =>
        let zipped := pid.ints.zip (hh.ints.zip (alter.ints.zip (partner.ints.zip (e1.ints.zip e2.ints))))
        let ps : List Groupings.Person := zipped.map fun (p, h, a, pa, x1, x2) =>
          { pid := p, hh := h, alter := a, partner := pa, e1 := x1, e2 := x2 }
        do pure (ints (← Groupings.fgId true ps))
      | _, _ => .error .typeError

/-- `_partial_parameters_to_functions`: arguments `<g>_params` with `g in params` disappear -/
def freeArgs (params : List (String × Val)) (f : Fn) : List String :=
  f.args.filter fun a => !(isParamArg a && (find? params (paramGroup a)).isSome)

def nodeOf (params : List (String × Val)) (specs : List (String × RSpec)) (f : Fn) : Dag.Node Col :=
  let free := freeArgs params f
  { deps := free,
    op := match f.kind with
      | .rule fn ret _ => ruleOp params fn ret (find? specs f.name) free
      | .pidSum _ _ => pidSumOp
      | .timeConv _ u v => timeConvOp u v
      | .groupAgg a _ _ => groupAggOp a
      | .grouping g => groupingOp g }

/-! ## graph utilities -/

/-- the smallest name among `l` -/
def minName : List String → Option String
  | [] => none
  | x :: xs => match minName xs with
    | none => some x
    | some m => some (if x < m then x else m)

def topoLoop (g : List (String × List String)) : Nat → List String → List String
  | 0, done => done.reverse
  | k + 1, done =>
    let ready := (g.filter fun (n, ds) => !done.contains n && ds.all done.contains).map (·.1)
    match minName ready with
    | none => done.reverse
    | some n => topoLoop g k (n :: done)

/-- `networkx.lexicographical_topological_sort` (Kahn's algorithm, always taking the smallest
ready node). `g` lists EVERY node with its predecessors. Nodes on or behind a cycle never appear. -/
def topoOrder (g : List (String × List String)) : List String := topoLoop g g.length []

/-- nodes of the pruned DAG: the functions and all their arguments -/
def graphOf (fns : List (String × List String)) : List (String × List String) :=
  let names := fns.map (·.1)
  let roots := (fns.flatMap (·.2)).filter fun a => !names.contains a
  fns ++ (roots.foldl (fun acc r => if acc.contains r then acc else acc ++ [r]) []).map fun r => (r, [])

def hasCycle (g : List (String × List String)) : Bool := (topoOrder g).length < g.length

/-- prune a name-only view of the function set with `Dag.prune` -/
def pruneNames (fns : List (String × List String)) (dataCols targets : List String) : List String :=
  let S : Dag.Sys Unit := fns.map fun (n, ds) => (n, { deps := ds, op := fun _ => .ok () })
  let D : Dag.Data Unit := dataCols.map fun n => (n, ())
  (Dag.prune S D (S.length + 1) targets).map (·.1)

/-! ## the stages: `prepare` (function set, static checks), `plan` (DAG), `exec` (evaluation) -/

/-- dtype inference for all data columns -/
def typedData (data : List (String × Column)) : Except Err (List (String × Col)) :=
  data.mapM fun (n, c) => do pure (n, ← colOfData c)

/-- result of `_process_and_check_data`, `load_and_check_functions`,
`_convert_data_to_correct_types` and the first check of `dags.create_dag` -/
structure Prep where
  dataCols : List String
  /-- the data after the conversion to the internal types -/
  data : List (String × Col)
  /-- `functions_not_overridden` -/
  fns : List Fn

def prepare (ruleFns : List Fn) (groupSpecs : List (String × GroupSpec)) (pidSpecs : List (String × PidSpec))
    (data : List (String × Column)) (targets : List String) : Except Err Prep := do
  let rawData ← typedData data
  checkData rawData
  let dataCols := rawData.map (·.1)
  let all ← buildFunctions ruleFns groupSpecs pidSpecs targets dataCols
  -- `_fail_if_targets_are_not_among_functions`
  if !targets.all (hasFn all) then throw Err.valueError
  let overridden := all.filter fun f => dataCols.contains f.name
  let fns := all.filter fun f => !dataCols.contains f.name
  let data ← convertData rawData overridden
  -- `dags.create_dag(functions_not_overridden, targets)`: MissingFunctionsError
  if !targets.all (hasFn fns) then throw Err.other
  pure { dataCols, data, fns }

structure Plan where
  data : List (String × Col)
  /-- the necessary functions with partialled parameters and rounding, as a `Dag.Sys` -/
  sys : Dag.Sys Col
  /-- execution order of the function nodes -/
  order : List String
  nRows : Nat

def plan (params : List (String × Val)) (targets : List String) (pr : Prep) : Except Err Plan := do
  let dataCols := pr.dataCols
  let fns := pr.fns
  -- `dags.create_dag(functions_not_overridden, targets)`: pruning, then the cycle check
  let full := fns.map fun f => (f.name, f.args)
  let necessaryNames := pruneNames full dataCols targets
  if hasCycle (graphOf (full.filter fun (n, _) => necessaryNames.contains n)) then throw Err.other
  let necessary := fns.filter fun f => necessaryNames.contains f.name
  -- `_add_rounding_to_functions(necessary_functions, params)`
  let specs ← necessary.filterMapM fun f =>
    match f.kind with
    | .rule _ _ (some key) => do pure (some (f.name, ← roundingSpecOf params key f.name))
    | _ => pure none
  -- second DAG on the processed functions; `_fail_if_root_nodes_are_missing`
  let proc := necessary.map fun f => (f.name, freeArgs params f)
  let procNames := pruneNames proc dataCols targets
  let proc := proc.filter fun (n, _) => procNames.contains n
  let graph := graphOf proc
  let paramsOnly := (necessary.filter fun f => f.args.all isParamArg).map (·.name)
  let missing := graph.filter fun (n, ds) => ds.isEmpty && !dataCols.contains n && !paramsOnly.contains n
  if !missing.isEmpty then throw Err.valueError
  let sys : Dag.Sys Col := (necessary.filter fun f => procNames.contains f.name).map fun f =>
    (f.name, nodeOf params specs f)
  pure { data := pr.data, sys, order := (topoOrder graph).filter procNames.contains,
         nRows := (pr.data.head?.map (·.2.vals.length)).getD 0 }

/-- 0-d results are broadcast by `pd.DataFrame(results, index=RangeIndex(n_rows))` -/
def render (n : Nat) (c : Col) : Column :=
  if c.scalar then List.replicate n (rToVal (c.at 0)) else c.vals.map rToVal

/-- The call of the concatenated function: EVERY node of the pruned DAG is executed, in
topological order, so the first failing node decides the error; then the targets are collected. -/
def exec (p : Plan) (targets : List String) : Except Err Table :=
  let fuel := p.sys.length + 1
  let S := Dag.prune p.sys p.data fuel targets
  match p.order.mapM (fun n => Dag.eval S p.data fuel n) with
  | .error e => .error e
  | .ok _ => targets.mapM fun t => do pure (t, render p.nRows (← Dag.eval S p.data fuel t))

/-- the whole computation on the components of the input (`ruleFns` = the vectorized rules) -/
def run (ruleFns : List Fn) (params : List (String × Val)) (groupSpecs : List (String × GroupSpec))
    (pidSpecs : List (String × PidSpec)) (data : List (String × Column)) (targets : List String) :
    Except Err Table := do
  let targets := sortDedup targets
  let pr ← prepare ruleFns groupSpecs pidSpecs data targets
  let p ← plan params targets pr
  exec p targets

/-- `compute_taxes_and_transfers(data, params, functions, aggregate_by_group_specs,
aggregate_by_p_id_specs, targets, rounding=rounding)`: the result columns in the order of the
sorted targets (see `reorderColumns` for the column order of the returned frame). -/
def simulate (inp : Input) : Except Err Table :=
  run (inp.rules.map (ruleFn inp.rounding)) inp.params inp.groupSpecs inp.pidSpecs inp.data inp.targets

/-- `_reorder_columns`: the id columns first (in the order of `SUPPORTED_GROUPINGS`, then `p_id`) -/
def reorderColumns (t : Table) : Table :=
  let ids := (groupSuffixes.map fun g => (g.drop 1).toString ++ "_id") ++ ["p_id"]
  (ids.filterMap fun i => (find? t i).map fun c => (i, c)) ++ t.filter fun (n, _) => !ids.contains n

/-- the frame as returned to the user -/
def simulateFrame (inp : Input) : Except Err Table := reorderColumns <$> simulate inp


/-! ## Self-test systems

Hand-written toy systems. Each of them was run through the REAL `compute_taxes_and_transfers`
(`/repo`, numpy backend) and through `simulateFrame`; the two outputs agree line by line (floats
printed with six decimals). `#eval GV.Simulate.Examples.selfTest` prints the block "EXPECTED
OUTPUT" at the end of this file. Python sources of the rules are obvious from the terms
(`rule name args expr ret key`), e.g. `a_m(x: float) -> float: return x * 2`.
-/
namespace Examples
open GV.Lang

def nm (s : String) : Expr := .name s
def fl (q : Rat) : Expr := .const (.flt q)
def it (i : Int) : Expr := .const (.int i)
def mul (a b : Expr) : Expr := .bin .mul a b
def add (a b : Expr) : Expr := .bin .add a b
def sub (a b : Expr) : Expr := .bin .sub a b
def dv (a b : Expr) : Expr := .bin .div a b
def gt (a b : Expr) : Expr := .cmp a [(.gt, b)]
def lt (a b : Expr) : Expr := .cmp a [(.lt, b)]
def idx (a : Expr) (k : String) : Expr := .sub a (.const (.str k))

def rule (name : String) (args : List String) (e : Expr) (ret : Option Ty := none)
    (key : Option String := none) : Rule :=
  { name, fn := { name, args, body := [.ret e] }, ret, roundingKey := key }

def I (xs : List Int) : Column := xs.map .int
def F (xs : List Rat) : Column := xs.map .flt
def B (xs : List Bool) : Column := xs.map .bool

def fmtRat (q : Rat) : String :=
  -- six decimals, round half even on the exact value
  let scaled := GV.Round.roundHalfEven (q * 1000000)
  let neg := scaled < 0
  let a := scaled.natAbs
  let ip := a / 1000000
  let fp := a % 1000000
  let fs := toString fp
  (if neg then "-" else "") ++ toString ip ++ "." ++ String.ofList (List.replicate (6 - fs.length) '0') ++ fs

def fmtVal : Val → String
  | .int i => toString i
  | .flt q => fmtRat q
  | .bool b => if b then "True" else "False"
  | _ => "?"

def kindOf (c : Column) : String :=
  match c with
  | .int _ :: _ => "int" | .flt _ :: _ => "float" | .bool _ :: _ => "bool" | _ => "?"

def showRes (name : String) (inp : Input) : IO Unit := do
  IO.println s!"== {name}"
  match simulateFrame inp with
  | .ok t => for (n, c) in t do
      IO.println s!"   {n}: {kindOf c} [{", ".intercalate (c.map fmtVal)}]"
  | .error e => IO.println s!"   ERROR {e}"

def base : List (String × Column) := [("p_id", I [0,1,2,3,4]), ("hh_id", I [0,0,1,1,1])]
def xs : Column := F [1, 5/2, 3, 4, 5]
def dx : List (String × Column) := base ++ [("x", F [1, 5/2, 3, 43/10, 5])]

def a_m := rule "a_m" ["x"] (mul (nm "x") (it 2)) (some .float)
def flag := rule "flag" ["x"] (gt (nm "x") (it 2)) (some .bool)
def cnt := rule "cnt" ["x"] (.ifexp (gt (nm "x") (it 2)) (it 1) (it 0)) (some .int)
def b := rule "b" ["a_m"] (add (nm "a_m") (it 1)) (some .float)
def ci := rule "ci" ["x"] (it 7) (some .int)
def d := rule "d" ["ci"] (mul (nm "ci") (it 2)) (some .int)
def r15 (n : String) (ret : Option Ty := some .float) := rule n ["x"] (mul (nm "x") (fl (3/2))) ret (some "grp")
def r_up := r15 "r_up"
def r_down := r15 "r_down"
def r_near := r15 "r_near"
def r_int := rule "r_int" ["x"] (it 7) (some .int) (some "grp")
def uses := rule "uses" ["r_near"] (add (nm "r_near") (fl (1/4))) (some .float)
def rr_m := r15 "rr_m"

def dict (kvs : List (String × Y)) : Y := .dict (kvs.map fun (k, v) => (Key.s k, v))
def prm : List (String × Val) := [("grp", .tree (dict [("rounding", dict [
  ("r_up", dict [("base", .num (1/2)), ("direction", .str "up")]),
  ("r_down", dict [("base", .num 2), ("direction", .str "down"), ("to_add_after_rounding", .num (1/4))]),
  ("r_near", dict [("base", .num 1), ("direction", .str "nearest")]),
  ("r_int", dict [("base", .num 2), ("direction", .str "nearest")])])]))]
def prmR (kvs : List (String × Y)) : List (String × Val) := [("grp", .tree (dict [("rounding", dict kvs)]))]

def const := rule "const" ["grp_params"] (mul (idx (nm "grp_params") "c") (it 2)) (some .float)
def const_i := rule "const_i" ["grp_params"] (it 3) (some .int)
def const_n := rule "const_n" ["grp_params"] (gt (idx (nm "grp_params") "c") (it 1)) none
def plus := rule "plus" ["x", "const"] (add (nm "x") (nm "const")) (some .float)
def plus2 := rule "plus2" ["const", "const_i"] (add (nm "const") (nm "const_i")) (some .float)
def pm_m := rule "pm_m" ["grp_params"] (idx (nm "grp_params") "c") (some .float)
def p6 : List (String × Val) := [("grp", .tree (dict [("c", .num (3/2))]))]
def zero_args := rule "zero_args" [] (fl (5/2)) (some .int)

def d9 : List (String × Column) :=
  [("p_id", I [0,1,2,3,4,5]), ("hh_id", I [0,0,0,1,1,1]), ("alter", I [40,38,10,50,20,30]),
   ("p_id_einstandspartner", I [1,0,-1,-1,-1,-1]), ("p_id_elternteil_1", I [-1,-1,0,-1,3,-1]),
   ("p_id_elternteil_2", I [-1,-1,1,-1,-1,-1]), ("p_id_ehepartner", I [1,0,-1,-1,-1,-1]),
   ("gemeinsam_veranlagt", B [true,true,false,false,false,false]),
   ("eigenbedarf_gedeckt", B [false,false,true,false,true,false]),
   ("wohngeld_vorrang_bg", B [false,false,false,true,true,true]),
   ("wohngeld_kinderzuschl_vorrang_bg", B [false,false,false,false,false,false]),
   ("x", F [1,2,3,4,5,6])]
def setCol (d : List (String × Column)) (n : String) (c : Column) : List (String × Column) :=
  if d.any (·.1 = n) then d.map fun e => if e.1 = n then (n, c) else e else d ++ [(n, c)]

def t_int := rule "t_int" ["x"] (mul (nm "x") (fl (3/2))) (some .int)
def t_bool := rule "t_bool" ["x"] (sub (nm "x") (it 1)) (some .bool)
def t_float := rule "t_float" ["k"] (nm "k") (some .float)
def t_none := rule "t_none" ["x", "k"] (.ifexp (lt (nm "x") (it 2)) (nm "k") (nm "x")) none
def t_none2 := rule "t_none2" ["x", "k"] (.ifexp (lt (nm "x") (it 2)) (nm "x") (nm "k")) none
def t_neg := rule "t_neg" ["x"] (mul (.neg (nm "x")) (fl (3/2))) (some .int)
def q_m := rule "q_m" ["k"] (nm "k") (some .int)
def qb_m := rule "qb_m" ["k"] (gt (nm "k") (it 2)) (some .bool)
def kcol : Column := I [1,2,3,4,5]
def zd := rule "zd" ["x"] (dv (it 1) (sub (nm "x") (it 3))) (some .float)
def c1 := rule "c1" ["c2"] (nm "c2") (some .float)
def c2 := rule "c2" ["c1"] (nm "c1") (some .float)
def v := rule "v" ["x"] (nm "x") (some .float)
def w := rule "w" ["v_hh_sn", "v_hh"] (add (nm "v_hh_sn") (nm "v_hh")) (some .float)
def z0 := rule "z0" [] (fl (5/2)) (some .float) (some "grp")
def alterR := rule "alter" ["grp_params"] (it 30) (some .int)
def two_errs_a := rule "two_errs_a" ["x"] (dv (it 1) (sub (nm "x") (it 3))) (some .float)
def two_errs_b := rule "two_errs_b" ["grp_params", "x"] (idx (nm "grp_params") "nokey") (some .float)
def aa := rule "aa" ["zz"] (nm "zz") (some .float)
def zz := rule "zz" ["x"] (dv (it 1) (sub (nm "x") (it 3))) (some .float)
def bb := rule "bb" ["x", "grp_params"] (idx (nm "grp_params") "nokey") (some .float)
def recv : Column := I [-1, 0, 0, 4, -1]
def sn5 : Column := I [0,0,0,1,1]

/-- runs all systems and prints the tables in the format of the expected output below -/
def selfTest : IO Unit := do
  showRes "S1 time conv + automatic group sums"
    { rules := [a_m], data := base ++ [("x", xs)], targets := ["a_y", "a_m_hh", "a_y_hh", "a_m", "a_y", "a_w", "a_d"] }
  let gs : List (String × GroupSpec) :=
    [("a_m_hh", ⟨.max, some "a_m"⟩), ("amean_hh", ⟨.mean, some "a_m"⟩), ("n_hh", ⟨.count, none⟩),
     ("fany_hh", ⟨.any, some "flag"⟩), ("fall_hh", ⟨.all, some "flag"⟩), ("xmin_hh", ⟨.min, some "x"⟩),
     ("cany_hh", ⟨.any, some "cnt"⟩)]
  showRes "S2 user group specs (max overrides automatic sum, mean, count, any, all, min, sum of bool)"
    { rules := [a_m, flag, cnt], data := base ++ [("x", xs)], groupSpecs := gs,
      targets := ["a_m_hh", "amean_hh", "n_hh", "fany_hh", "fall_hh", "xmin_hh", "flag_hh", "cnt_hh", "cany_hh"] }
  showRes "S2b mean of int -> TypeError"
    { rules := [cnt], data := base ++ [("x", xs)], groupSpecs := [("cm_hh", ⟨.mean, some "cnt"⟩)], targets := ["cm_hh"] }
  showRes "S2c max of bool -> TypeError"
    { rules := [flag], data := base ++ [("x", xs)], groupSpecs := [("fm_hh", ⟨.max, some "flag"⟩)], targets := ["fm_hh"] }
  showRes "S2d spec name without group suffix"
    { rules := [flag], data := base ++ [("x", xs)], groupSpecs := [("fm", ⟨.max, some "flag"⟩)], targets := ["flag"] }
  showRes "S3 p_id aggregation (rule source and data source, bool source), + time conv + group sum of it"
    { rules := [a_m, flag], data := base ++ [("x", xs), ("p_id_recv", recv), ("k", kcol)],
      pidSpecs := [("got_m", ⟨"p_id_recv", "a_m"⟩), ("gotk", ⟨"p_id_recv", "k"⟩), ("gotf", ⟨"p_id_recv", "flag"⟩),
                   ("unused", ⟨"p_id_recv", "nonexistent"⟩)],
      targets := ["got_m", "gotk", "gotf", "got_y", "got_m_hh"] }
  showRes "S3b p_id aggregation whose source does not exist requested"
    { rules := [], data := base ++ [("p_id_recv", recv)], pidSpecs := [("unused", ⟨"p_id_recv", "nonexistent"⟩)],
      targets := ["unused"] }
  showRes "S4 data column overrides rule (a_m given), int-annotated rule overridden by integral float column"
    { rules := [a_m, b, ci, d], data := base ++ [("a_m", F [10,20,30,40,50]), ("ci", F [1,2,3,4,5])], targets := ["b", "d", "a_y"] }
  showRes "S4b overriding column not convertible"
    { rules := [ci, d], data := base ++ [("ci", F [3/2,2,3,4,5])], targets := ["d"] }
  showRes "S4c target is a data column"
    { rules := [a_m, b], data := base ++ [("a_m", F [10,20,30,40,50])], targets := ["a_m", "b"] }
  let r5 := [r_up, r_down, r_near, r_int, uses]
  let t5 := ["r_up", "r_down", "r_near", "r_int", "uses"]
  showRes "S5 rounding on" { rules := r5, params := prm, data := dx, targets := t5 }
  showRes "S5b rounding off" { rules := r5, params := prm, data := dx, targets := t5, rounding := false }
  showRes "S5c rounding spec missing (needed)" { rules := [r_up, r_near, uses], params := prmR [], data := dx, targets := ["uses"] }
  showRes "S5d rounding spec missing but function pruned"
    { rules := [r_up, r_near, uses], params := prmR [("r_near", dict [("base", .num 1), ("direction", .str "nearest")])],
      data := dx, targets := ["uses"] }
  showRes "S5e rounding spec missing, rounding off"
    { rules := [r_up, r_near, uses], data := dx, targets := ["uses", "r_up"], rounding := false }
  showRes "S5f spec without direction"
    { rules := [r_up], params := prmR [("r_up", dict [("base", .num 1)])], data := dx, targets := ["r_up"] }
  showRes "S5g bad direction"
    { rules := [r_up], params := prmR [("r_up", dict [("base", .num 1), ("direction", .str "sideways")])], data := dx, targets := ["r_up"] }
  showRes "S5h time conversion of rounded rule"
    { rules := [rr_m], params := prmR [("rr_m", dict [("base", .num 1), ("direction", .str "nearest")])], data := dx,
      targets := ["rr_m", "rr_y", "rr_w"] }
  showRes "S6 parameter-only rules only"
    { rules := [const, const_i, const_n], params := p6, data := dx, targets := ["const", "const_i", "const_n"] }
  showRes "S6b parameter-only rule + consumer"
    { rules := [const, const_i, plus, plus2, pm_m], params := p6, data := dx, targets := ["plus", "const", "plus2", "pm_y"] }
  showRes "S6c params group missing" { rules := [const, plus], data := dx, targets := ["plus"] }
  showRes "S6d param key missing (KeyError in rule)"
    { rules := [const, plus], params := [("grp", .tree (dict []))], data := dx, targets := ["plus"] }
  showRes "S6e group sum of a parameter-only rule" { rules := [const], params := p6, data := dx, targets := ["const_hh"] }
  showRes "S6f zero-arg rule" { rules := [zero_args], params := p6, data := dx, targets := ["zero_args"] }
  showRes "S7 missing input column" { rules := [a_m, b], data := base, targets := ["b"] }
  showRes "S8 target does not exist" { rules := [a_m], data := dx, targets := ["a_m", "nope"] }
  showRes "S8b no p_id" { rules := [a_m], data := [("hh_id", I [0,1]), ("x", F [1,2])], targets := ["a_m"] }
  showRes "S8c duplicate p_id" { rules := [a_m], data := [("p_id", I [0,0]), ("hh_id", I [0,1]), ("x", F [1,2])], targets := ["a_m"] }
  showRes "S9 grouping ids + sums over them"
    { rules := [a_m], data := d9,
      targets := ["bg_id", "eg_id", "fg_id", "ehe_id", "sn_id", "wthh_id", "a_m_bg", "a_m_eg", "a_m_sn", "a_m_fg", "a_m_wthh", "a_m_ehe"] }
  showRes "S9b fg_id given as data (float) -> bg_id"
    { rules := [a_m], data := setCol d9 "fg_id" (F [5,5,5,6,6,7]), targets := ["bg_id", "a_m_fg"] }
  showRes "S9c invalid foreign key"
    { rules := [a_m], data := setCol d9 "p_id_ehepartner" (I [1,0,-1,-1,-1,77]), targets := ["ehe_id"] }
  showRes "S9d group var not constant" { rules := [a_m], data := dx ++ [("z_hh", F [1,2,3,3,3])], targets := ["a_m"] }
  showRes "S10 return annotations"
    { rules := [t_int, t_bool, t_float, t_none, t_none2, t_neg], data := dx ++ [("k", kcol)],
      targets := ["t_int", "t_bool", "t_float", "t_none", "t_none2", "t_neg", "t_int_hh"] }
  showRes "S10b m->y keeps ints"
    { rules := [q_m, qb_m], data := dx ++ [("k", kcol)], targets := ["q_y", "q_w", "qb_y", "qb_d", "q_y_hh"] }
  showRes "S11 ZeroDivisionError in one row" { rules := [zd], data := dx, targets := ["zd"] }
  showRes "S11b cycle" { rules := [c1, c2, a_m], data := dx, targets := ["c1"] }
  showRes "S11c cycle not needed" { rules := [c1, c2, a_m], data := dx, targets := ["a_m"] }
  showRes "S11d cycle + missing rounding spec + missing column" { rules := [c1, c2, r_up], data := base, targets := ["c1", "r_up"] }
  showRes "S11e missing rounding spec + missing column" { rules := [r_up], data := base, targets := ["r_up"] }
  showRes "S12 remove_group_suffix: v_sn_hh -> v (sum by hh)"
    { rules := [v], data := dx ++ [("sn_id", sn5)], targets := ["v_sn_hh", "v_hh", "v_sn"] }
  showRes "S12b remove_group_suffix: v_hh_sn -> v_hh, not a source"
    { rules := [v], data := dx ++ [("sn_id", sn5)], targets := ["v_hh_sn"] }
  showRes "S12c v_hh_sn as argument while v_hh is not a function (missing column)"
    { rules := [v, w], data := dx ++ [("sn_id", sn5)], targets := ["w"] }
  showRes "S13 zero-arg rule rounded up"
    { rules := [z0], params := prmR [("z0", dict [("base", .num 2), ("direction", .str "up")])], data := dx, targets := ["z0"] }
  showRes "S13b zero-arg rule rounded nearest"
    { rules := [z0], params := prmR [("z0", dict [("base", .num 2), ("direction", .str "nearest")])], data := dx, targets := ["z0"] }
  showRes "S13c max over a scalar"
    { rules := [const], params := p6, data := dx, groupSpecs := [("const_hh", ⟨.max, some "const"⟩)], targets := ["const_hh"] }
  showRes "S13d p_id sum of a scalar"
    { rules := [const], params := p6, data := dx ++ [("p_id_recv", recv)], pidSpecs := [("gotc", ⟨"p_id_recv", "const"⟩)], targets := ["gotc"] }
  showRes "S13e scalar fed to grouping"
    { rules := [alterR], params := p6, data := d9.filter (·.1 != "alter"), targets := ["bg_id"] }
  showRes "S14 two failing nodes: order"
    { rules := [two_errs_a, two_errs_b], params := p6, data := dx, targets := ["two_errs_b", "two_errs_a"] }
  showRes "S14b two failing nodes: topological lexicographic order (bb before zz)"
    { rules := [aa, zz, bb], params := p6, data := dx, targets := ["aa", "bb"] }
  for (nm, spec) in [("base bool", dict [("base", .bool true), ("direction", .str "up")]),
                     ("base str", dict [("base", .str "1"), ("direction", .str "up")]),
                     ("to_add str", dict [("base", .num 1), ("direction", .str "up"), ("to_add_after_rounding", .str "x")]),
                     ("direction number", dict [("base", .num 1), ("direction", .num 1)]),
                     ("base int", dict [("base", .num 2), ("direction", .str "nearest")])] do
    showRes s!"S15 rounding spec: {nm}" { rules := [r_up], params := prmR [("r_up", spec)], data := dx, targets := ["r_up"] }
  showRes "S15b rounding key group not in params"
    { rules := [r_up], params := [("other", .tree (dict []))], data := dx, targets := ["r_up"] }
  let aplus := rule "aplus" ["alter", "bruttolohn_m"] (add (nm "alter") (nm "bruttolohn_m")) (some .float)
  let aint := rule "aint" ["alter"] (nm "alter") none
  showRes "S16 TYPES_INPUT_VARIABLES conversions (alter float->int, bruttolohn_m int->float)"
    { rules := [aplus, aint], data := base ++ [("alter", F [30,40,50,60,70]), ("bruttolohn_m", I [1,2,3,4,5])],
      targets := ["aplus", "aint", "bruttolohn_y", "alter_hh"] }
  showRes "S16b alter not integral"
    { rules := [aint], data := base ++ [("alter", F [61/2,40,50,60,70])], targets := ["aint"] }
  showRes "S16c bool input given as int 0/1 and as 2"
    { rules := [a_m], data := base ++ [("kind", I [0,1,1,0,2])], targets := ["a_m"] }
  let usen := rule "usen" ["n_hh", "fl_hh"] (add (nm "n_hh") (nm "fl_hh")) none
  showRes "S16d data columns override aggregation functions (count -> int annotation, sum of bool rule -> int)"
    { rules := [usen, flag], data := dx ++ [("n_hh", F [2,2,3,3,3]), ("flag_hh", F [1,1,0,0,0])],
      groupSpecs := [("n_hh", ⟨.count, none⟩), ("fl_hh", ⟨.sum, some "flag_hh"⟩)], targets := ["usen"] }
  let use2 := rule "use2" ["flag_hh"] (nm "flag_hh") none
  showRes "S16e overriding column for the automatic sum of a bool rule is converted to int"
    { rules := [use2, flag], data := dx ++ [("flag_hh", F [1,1,0,0,0])], targets := ["use2"] }
  let fg_idR := rule "fg_id" ["x"] (it 7) (some .int)
  let fg_user := rule "fg_user" ["fg_id"] (nm "fg_id") (some .int)
  showRes "S17 a rule named like a grouping function is ignored"
    { rules := [fg_idR, fg_user], data := d9, targets := ["fg_user", "fg_id"] }
  let dup1 := rule "dup" ["x"] (nm "x") (some .float)
  let dup2 := rule "dup" ["x"] (mul (nm "x") (it 3)) (some .float)
  showRes "S17b duplicate rule name: the later definition wins" { rules := [dup1, dup2], data := dx, targets := ["dup"] }
  let s_m := rule "s_m" ["x"] (nm "x") (some .float)
  let s_y := rule "s_y" ["x"] (mul (nm "x") (it 100)) (some .float)
  showRes "S17c time conversion not created when the function exists; s_w comes from the LAST source (s_y)"
    { rules := [s_m, s_y], data := dx, targets := ["s_m", "s_y", "s_w"] }
  let uu_y := rule "uu_y" ["uu_m"] (mul (nm "uu_m") (it 12)) (some .float)
  showRes "S17d no converse time conversion for an argument (uu_m must be data)" { rules := [uu_y], data := dx, targets := ["uu_y"] }
  showRes "S17e ... given as data" { rules := [uu_y], data := dx ++ [("uu_m", F [1,2,3,4,5])], targets := ["uu_y", "uu_w"] }

/- EXPECTED OUTPUT (= output of the real code; `ERROR Error` stands for dags' MissingFunctionsError /
CyclicDependencyError and for AttributeError, `ShapeError` for IndexError):

== S1 time conv + automatic group sums
   a_d: float [0.065708, 0.164271, 0.197125, 0.262834, 0.328542]
   a_m: float [2.000000, 5.000000, 6.000000, 8.000000, 10.000000]
   a_m_hh: float [7.000000, 7.000000, 24.000000, 24.000000, 24.000000]
   a_w: float [0.459959, 1.149897, 1.379877, 1.839836, 2.299795]
   a_y: float [24.000000, 60.000000, 72.000000, 96.000000, 120.000000]
   a_y_hh: float [84.000000, 84.000000, 288.000000, 288.000000, 288.000000]
== S2 user group specs (max overrides automatic sum, mean, count, any, all, min, sum of bool)
   a_m_hh: float [5.000000, 5.000000, 10.000000, 10.000000, 10.000000]
   amean_hh: float [3.500000, 3.500000, 8.000000, 8.000000, 8.000000]
   cany_hh: bool [True, True, True, True, True]
   cnt_hh: int [1, 1, 3, 3, 3]
   fall_hh: bool [False, False, True, True, True]
   fany_hh: bool [True, True, True, True, True]
   flag_hh: int [1, 1, 3, 3, 3]
   n_hh: float [2.000000, 2.000000, 3.000000, 3.000000, 3.000000]
   xmin_hh: float [1.000000, 1.000000, 3.000000, 3.000000, 3.000000]
== S2b mean of int -> TypeError
   ERROR TypeError
== S2c max of bool -> TypeError
   ERROR TypeError
== S2d spec name without group suffix
   ERROR ValueError
== S3 p_id aggregation (rule source and data source, bool source), + time conv + group sum of it
   got_m: float [11.000000, 0.000000, 0.000000, 0.000000, 8.000000]
   got_m_hh: float [11.000000, 11.000000, 8.000000, 8.000000, 8.000000]
   got_y: float [132.000000, 0.000000, 0.000000, 0.000000, 96.000000]
   gotf: int [2, 0, 0, 0, 1]
   gotk: int [5, 0, 0, 0, 4]
== S3b p_id aggregation whose source does not exist requested
   ERROR ValueError
== S4 data column overrides rule (a_m given), int-annotated rule overridden by integral float column
   a_y: float [120.000000, 240.000000, 360.000000, 480.000000, 600.000000]
   b: float [11.000000, 21.000000, 31.000000, 41.000000, 51.000000]
   d: int [2, 4, 6, 8, 10]
== S4b overriding column not convertible
   ERROR ValueError
== S4c target is a data column
   ERROR Error
== S5 rounding on
   r_down: float [0.250000, 2.250000, 4.250000, 6.250000, 6.250000]
   r_int: float [8.000000, 8.000000, 8.000000, 8.000000, 8.000000]
   r_near: float [2.000000, 4.000000, 4.000000, 6.000000, 8.000000]
   r_up: float [1.500000, 4.000000, 4.500000, 6.500000, 7.500000]
   uses: float [2.250000, 4.250000, 4.250000, 6.250000, 8.250000]
== S5b rounding off
   r_down: float [1.500000, 3.750000, 4.500000, 6.450000, 7.500000]
   r_int: int [7, 7, 7, 7, 7]
   r_near: float [1.500000, 3.750000, 4.500000, 6.450000, 7.500000]
   r_up: float [1.500000, 3.750000, 4.500000, 6.450000, 7.500000]
   uses: float [1.750000, 4.000000, 4.750000, 6.700000, 7.750000]
== S5c rounding spec missing (needed)
   ERROR KeyError
== S5d rounding spec missing but function pruned
   uses: float [2.250000, 4.250000, 4.250000, 6.250000, 8.250000]
== S5e rounding spec missing, rounding off
   r_up: float [1.500000, 3.750000, 4.500000, 6.450000, 7.500000]
   uses: float [1.750000, 4.000000, 4.750000, 6.700000, 7.750000]
== S5f spec without direction
   ERROR KeyError
== S5g bad direction
   ERROR ValueError
== S5h time conversion of rounded rule
   rr_m: float [2.000000, 4.000000, 4.000000, 6.000000, 8.000000]
   rr_w: float [0.459959, 0.919918, 0.919918, 1.379877, 1.839836]
   rr_y: float [24.000000, 48.000000, 48.000000, 72.000000, 96.000000]
== S6 parameter-only rules only
   const: float [3.000000, 3.000000, 3.000000, 3.000000, 3.000000]
   const_i: int [3, 3, 3, 3, 3]
   const_n: bool [True, True, True, True, True]
== S6b parameter-only rule + consumer
   const: float [3.000000, 3.000000, 3.000000, 3.000000, 3.000000]
   plus: float [4.000000, 5.500000, 6.000000, 7.300000, 8.000000]
   plus2: float [6.000000, 6.000000, 6.000000, 6.000000, 6.000000]
   pm_y: float [18.000000, 18.000000, 18.000000, 18.000000, 18.000000]
== S6c params group missing
   ERROR ValueError
== S6d param key missing (KeyError in rule)
   ERROR KeyError
== S6e group sum of a parameter-only rule
   const_hh: float [6.000000, 6.000000, 9.000000, 9.000000, 9.000000]
== S6f zero-arg rule
   zero_args: float [2.500000, 2.500000, 2.500000, 2.500000, 2.500000]
== S7 missing input column
   ERROR ValueError
== S8 target does not exist
   ERROR ValueError
== S8b no p_id
   ERROR ValueError
== S8c duplicate p_id
   ERROR ValueError
== S9 grouping ids + sums over them
   wthh_id: int [0, 0, 0, 101, 101, 101]
   fg_id: int [0, 0, 0, 1, 1, 2]
   bg_id: int [0, 0, 1, 100, 101, 200]
   eg_id: int [0, 0, 1, 2, 3, 4]
   ehe_id: int [0, 0, 1, 2, 3, 4]
   sn_id: int [0, 0, 1, 2, 3, 4]
   a_m_bg: float [6.000000, 6.000000, 6.000000, 8.000000, 10.000000, 12.000000]
   a_m_eg: float [6.000000, 6.000000, 6.000000, 8.000000, 10.000000, 12.000000]
   a_m_ehe: float [6.000000, 6.000000, 6.000000, 8.000000, 10.000000, 12.000000]
   a_m_fg: float [12.000000, 12.000000, 12.000000, 18.000000, 18.000000, 12.000000]
   a_m_sn: float [6.000000, 6.000000, 6.000000, 8.000000, 10.000000, 12.000000]
   a_m_wthh: float [12.000000, 12.000000, 12.000000, 30.000000, 30.000000, 30.000000]
== S9b fg_id given as data (float) -> bg_id
   bg_id: int [500, 500, 501, 600, 601, 700]
   a_m_fg: float [12.000000, 12.000000, 12.000000, 18.000000, 18.000000, 12.000000]
== S9c invalid foreign key
   ERROR ValueError
== S9d group var not constant
   ERROR ValueError
== S10 return annotations
   t_bool: bool [False, True, True, True, True]
   t_float: float [1.000000, 2.000000, 3.000000, 4.000000, 5.000000]
   t_int: int [1, 3, 4, 6, 7]
   t_int_hh: int [4, 4, 17, 17, 17]
   t_neg: int [-1, -3, -4, -6, -7]
   t_none: int [1, 2, 3, 4, 5]
   t_none2: float [1.000000, 2.000000, 3.000000, 4.000000, 5.000000]
== S10b m->y keeps ints
   q_w: float [0.229979, 0.459959, 0.689938, 0.919918, 1.149897]
   q_y: int [12, 24, 36, 48, 60]
   q_y_hh: int [36, 36, 144, 144, 144]
   qb_d: float [0.000000, 0.000000, 0.032854, 0.032854, 0.032854]
   qb_y: int [0, 0, 12, 12, 12]
== S11 ZeroDivisionError in one row
   ERROR ZeroDivisionError
== S11b cycle
   ERROR Error
== S11c cycle not needed
   a_m: float [2.000000, 5.000000, 6.000000, 8.600000, 10.000000]
== S11d cycle + missing rounding spec + missing column
   ERROR Error
== S11e missing rounding spec + missing column
   ERROR KeyError
== S12 remove_group_suffix: v_sn_hh -> v (sum by hh)
   v_hh: float [3.500000, 3.500000, 12.300000, 12.300000, 12.300000]
   v_sn: float [6.500000, 6.500000, 6.500000, 9.300000, 9.300000]
   v_sn_hh: float [3.500000, 3.500000, 12.300000, 12.300000, 12.300000]
== S12b remove_group_suffix: v_hh_sn -> v_hh, not a source
   ERROR ValueError
== S12c v_hh_sn as argument while v_hh is not a function (missing column)
   ERROR ValueError
== S13 zero-arg rule rounded up
   z0: float [4.000000, 4.000000, 4.000000, 4.000000, 4.000000]
== S13b zero-arg rule rounded nearest
   ERROR Error
== S13c max over a scalar
   ERROR ValueError
== S13d p_id sum of a scalar
   ERROR ShapeError
== S13e scalar fed to grouping
   ERROR ShapeError
== S14 two failing nodes: order
   ERROR ZeroDivisionError
== S14b two failing nodes: topological lexicographic order (bb before zz)
   ERROR KeyError
== S15 rounding spec: base bool
   ERROR ValueError
== S15 rounding spec: base str
   ERROR ValueError
== S15 rounding spec: to_add str
   ERROR ValueError
== S15 rounding spec: direction number
   ERROR ValueError
== S15 rounding spec: base int
   r_up: float [2.000000, 4.000000, 4.000000, 6.000000, 8.000000]
== S15b rounding key group not in params
   ERROR KeyError
== S16 TYPES_INPUT_VARIABLES conversions (alter float->int, bruttolohn_m int->float)
   aint: int [30, 40, 50, 60, 70]
   alter_hh: int [70, 70, 180, 180, 180]
   aplus: float [31.000000, 42.000000, 53.000000, 64.000000, 75.000000]
   bruttolohn_y: float [12.000000, 24.000000, 36.000000, 48.000000, 60.000000]
== S16b alter not integral
   ERROR ValueError
== S16c bool input given as int 0/1 and as 2
   ERROR ValueError
== S16d data columns override aggregation functions (count -> int annotation, sum of bool rule -> int)
   usen: int [4, 4, 3, 3, 3]
== S16e overriding column for the automatic sum of a bool rule is converted to int
   use2: int [1, 1, 0, 0, 0]
== S17 a rule named like a grouping function is ignored
   fg_id: int [0, 0, 0, 1, 1, 2]
   fg_user: int [0, 0, 0, 1, 1, 2]
== S17b duplicate rule name: the later definition wins
   dup: float [3.000000, 7.500000, 9.000000, 12.900000, 15.000000]
== S17c time conversion not created when the function exists; s_w comes from the LAST source (s_y)
   s_m: float [1.000000, 2.500000, 3.000000, 4.300000, 5.000000]
   s_w: float [1.916496, 4.791239, 5.749487, 8.240931, 9.582478]
   s_y: float [100.000000, 250.000000, 300.000000, 430.000000, 500.000000]
== S17d no converse time conversion for an argument (uu_m must be data)
   ERROR ValueError
== S17e ... given as data
   uu_w: float [0.229979, 0.459959, 0.689938, 0.919918, 1.149897]
   uu_y: float [12.000000, 24.000000, 36.000000, 48.000000, 60.000000]
-/
-- #eval selfTest
end Examples

end GV.Simulate
