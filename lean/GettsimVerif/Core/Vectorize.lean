import GettsimVerif.Core.Lang
/-
Model of `_gettsim/vectorization.py`: the AST rewrite (`Transformer`), mirrored node
kind by node kind *including its quirks* (children first; operands of `not` / unary
minus are not descended into; the first statement of the `if` body decides between
`return` and assignment and supplies target and operator).
-/
namespace GV.Vectorize
open GV.Lang

inductive TErr where
  | tooManyOperations      -- more than one statement in body or orelse
  | returnWithoutElse      -- `if c: return x` without else
  | unallowedOperation     -- orelse[0] is neither return / if / assignment
  | tooManyArguments       -- sum/any/all/max/min with an unsupported number of arguments
  | crash                  -- the rewriter itself raises (AttributeError / UnboundLocalError)
  deriving DecidableEq, Repr

def reduceBool (isAnd : Bool) : List Expr → Expr
  | [] => .const (.bool isAnd)          -- cannot occur (BoolOp has ≥ 2 values)
  | [e] => e
  | a :: b :: rest =>
    -- functools.reduce: ((a ∘ b) ∘ c) ∘ …
    (rest.foldl (fun acc e => Expr.mcall (if isAnd then "logical_and" else "logical_or") [acc, e])
      (Expr.mcall (if isAnd then "logical_and" else "logical_or") [a, b]))

def builtinsToModule : List String := ["sum", "any", "all", "max", "min"]

/-- `_call_to_call_from_module` -/
def callToModule (f : String) (args : List Expr) : Except TErr Expr :=
  if builtinsToModule.contains f then
    if args.length = 1 then .ok (.mcall f args)
    else if (f = "max" ∨ f = "min") ∧ args.length = 2 then .ok (.mcall (f ++ "imum") args)
    else .error .tooManyArguments
  else .ok (.call f args)

mutual
def tExpr : Expr → Except TErr Expr
  | .const v => .ok (.const v)
  | .name n => .ok (.name n)
  | .bin op a b => do pure (.bin op (← tExpr a) (← tExpr b))
  | .neg a => .ok (.neg a)                                  -- visit_UnaryOp: not descended
  | .cmp first rest => do pure (.cmp (← tExpr first) (← tPairs rest))
  | .boolop isAnd args => do pure (reduceBool isAnd (← tList args))
  | .not a => .ok (.mcall "logical_not" [a])                -- operand not descended
  | .ifexp c a b => do pure (.mcall "where" [← tExpr c, ← tExpr a, ← tExpr b])
  | .call f args => do callToModule f (← tList args)
  | .mcall f args => do pure (.mcall f (← tList args))
  | .sub e idx => do pure (.sub (← tExpr e) (← tExpr idx))
  | .isIn e items neg => do pure (.isIn (← tExpr e) (← tList items) neg)
  | .opaque w => .ok (.opaque w)
def tList : List Expr → Except TErr (List Expr)
  | [] => .ok []
  | e :: rest => do pure ((← tExpr e) :: (← tList rest))
def tPairs : List (CmpOp × Expr) → Except TErr (List (CmpOp × Expr))
  | [] => .ok []
  | (op, e) :: rest => do pure ((op, ← tExpr e) :: (← tPairs rest))
end

/-- the `.value` of a statement as the rewriter reads it (`node.body[0].value`) -/
def stmtValue? : Stmt → Option Expr
  | .assign _ e => some e
  | .aug _ _ e => some e
  | .ret e => some e
  | .expr e => some e
  | _ => none

/-- `_if_to_call` + the tail of `visit_If`, applied to an `if` whose children have
already been rewritten -/
def ifToStmt (c : Expr) (body orelse : List Stmt) : Except TErr Stmt := do
  let b0 ← match body with | b :: _ => pure b | [] => throw TErr.crash
  let v0 ← match stmtValue? b0 with | some v => pure v | none => throw TErr.crash
  if orelse.length > 1 ∨ body.length > 1 then throw TErr.tooManyOperations
  let third ← match orelse with
    | [] =>
      match b0 with
      | .ret _ => throw TErr.returnWithoutElse
      | .assign x _ => pure (Expr.name x)
      | .aug x _ _ => pure (Expr.name x)
      | _ => throw TErr.crash
    | o :: _ =>
      match o with
      | .ret e => pure e
      | .ite _ _ _ => throw TErr.crash        -- cannot occur: children are rewritten first
      | .assign _ e => pure e
      | .aug _ _ e => pure e
      | _ => throw TErr.unallowedOperation
  let call := Expr.mcall "where" [c, v0, third]
  match b0 with
  | .ret _ => pure (.ret call)
  | .assign x _ => pure (.assign x call)
  | .aug x op _ => pure (.aug x op call)
  | _ => throw TErr.crash

mutual
def tStmt : Stmt → Except TErr Stmt
  | .assign x e => do pure (.assign x (← tExpr e))
  | .aug x op e => do pure (.aug x op (← tExpr e))
  | .ret e => do pure (.ret (← tExpr e))
  | .ite c body orelse => do
    let c' ← tExpr c
    let body' ← tBlock body
    let orelse' ← tBlock orelse
    ifToStmt c' body' orelse'
  | .expr e => do pure (.expr (← tExpr e))
  | .other w => .ok (.other w)
def tBlock : List Stmt → Except TErr (List Stmt)
  | [] => .ok []
  | s :: rest => do pure ((← tStmt s) :: (← tBlock rest))
end

def transform (f : FunDef) : Except TErr FunDef := do
  pure { f with body := ← tBlock f.body }

end GV.Vectorize
