import GettsimVerif.Core.Basic
/-
Model of the Python PROCESS as a state machine (property C14: purity / history independence).

State = everything a call of the public API could change behind the caller's back:
* `modules`   : rule name ↦ version of the function object bound under that name in its module;
* `injected`  : extra names injected into module namespaces;
* `registry`  : length of the append-only registry of time-dependent functions (filled at
                import, never afterwards);
* `callerData`: the caller's `dict` of columns, name ↦ version of the `Series` object;
* `callerParams`, `callerFunctions`: versions of the caller's params / functions objects.

`stepImpl false` = the ORIGINAL code: `make_vectorizable` does `exec(code, func.__globals__)`
(rebinds the rule in its module and injects `numpy` there); `compute_taxes_and_transfers`
writes the type-converted columns into the caller's dict.
`stepImpl true` = the REPAIRED code: `exec` in a copy of the globals; `data = dict(data)`.
-/
namespace GV.Process

structure PState where
  modules : List (String × Nat)
  injected : List String
  registry : Nat
  callerData : List (String × Nat)
  callerParams : Nat
  callerFunctions : Nat
  deriving DecidableEq, Repr, Inhabited

inductive Op where
  | setup (date : Int)                                   -- set_up_policy_environment(date)
  | simulate (dataIsDict : Bool) (convertedCols : List String)  -- compute_taxes_and_transfers
  | reform                                               -- caller builds modified params/functions
  | vectorize (rule : String)                            -- make_vectorizable(rule)
  deriving DecidableEq, Repr, Inhabited

/-- a new object is bound under `k` (version + 1); other bindings untouched -/
def bump (l : List (String × Nat)) (k : String) : List (String × Nat) :=
  l.map fun nv => if nv.1 = k then (nv.1, nv.2 + 1) else nv

def bumpAll (l : List (String × Nat)) (ks : List String) : List (String × Nat) :=
  ks.foldl bump l

def inject (l : List String) (k : String) : List String :=
  if l.contains k then l else l ++ [k]

/-- one API call; `fixed = false`: original code, `fixed = true`: repaired code -/
def stepImpl (fixed : Bool) (s : PState) : Op → PState
  | .setup _ => s
  | .reform => s
  | .simulate isDict cols =>
    if fixed || !isDict then s
    else { s with callerData := bumpAll s.callerData cols }
  | .vectorize r =>
    if fixed then s
    else { s with modules := bump s.modules r, injected := inject s.injected "numpy" }

def tag (p : String) (l : List (String × Nat)) : List (String × Nat) :=
  l.map fun nv => (p ++ nv.1, nv.2)

/-- what an operation reads from the process state (its result is a function of the operation
and of these object versions) -/
def observe (s : PState) : Op → List (String × Nat)
  | .setup _ => tag "module:" s.modules ++ [("registry", s.registry)]
  | .reform => [("params", s.callerParams), ("functions", s.callerFunctions)]
  | .simulate _ _ =>
    tag "module:" s.modules ++ s.injected.map (fun n => ("injected:" ++ n, 0)) ++
      tag "data:" s.callerData ++ [("params", s.callerParams), ("functions", s.callerFunctions)]
  | .vectorize r =>
    tag "module:" (s.modules.filter fun nv => nv.1 = r) ++
      s.injected.map (fun n => ("injected:" ++ n, 0))

/-- state after a history of calls -/
def runHist (fixed : Bool) (s₀ : PState) (h : List Op) : PState := h.foldl (stepImpl fixed) s₀

/-- what each call of a history observes -/
def trace (fixed : Bool) : PState → List Op → List (List (String × Nat))
  | _, [] => []
  | s, op :: rest => observe s op :: trace fixed (stepImpl fixed s op) rest

end GV.Process
