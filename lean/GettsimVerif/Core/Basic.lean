/-
Shared basics of the hand-written models (Mathlib-free).
-/
namespace GV

/-- Error kinds of the real code, mapped to a small enum. -/
inductive Err where
  | typeError      -- TypeError (dtype guards)
  | valueError     -- ValueError
  | keyError       -- KeyError
  | nameError      -- NameError / UnboundLocalError
  | zeroDiv        -- ZeroDivisionError
  | notImpl        -- NotImplementedError
  | shape          -- length mismatch (numpy broadcasting error / IndexError)
  | other
  deriving DecidableEq, Repr, Inhabited

def Err.toString : Err → String
  | .typeError => "TypeError" | .valueError => "ValueError" | .keyError => "KeyError"
  | .nameError => "NameError" | .zeroDiv => "ZeroDivisionError" | .notImpl => "NotImplementedError"
  | .shape => "ShapeError" | .other => "Error"

instance : ToString Err := ⟨Err.toString⟩

/-- Association-list dictionary with Python `dict` semantics: insertion replaces. -/
def dictGet? {α : Type} (d : List (Int × α)) (k : Int) : Option α :=
  match d with
  | [] => none
  | (k', v) :: rest => if k' = k then some v else dictGet? rest k

def dictSet {α : Type} (d : List (Int × α)) (k : Int) (v : α) : List (Int × α) :=
  match d with
  | [] => [(k, v)]
  | (k', v') :: rest => if k' = k then (k, v) :: rest else (k', v') :: dictSet rest k v

def dictHas {α : Type} (d : List (Int × α)) (k : Int) : Bool := (dictGet? d k).isSome

end GV
