import GettsimVerif.Core.Basic
/-
Proleptic Gregorian calendar on day ordinals (`datetime.date.toordinal`: 0001-01-01 ↦ 1),
with the three date operations the parameter loader uses.
-/
namespace GV.Dates

def isLeap (y : Int) : Bool := (y % 4 = 0 && y % 100 ≠ 0) || y % 400 = 0

def daysBeforeYear (y : Int) : Int :=
  let p := y - 1
  p * 365 + p / 4 - p / 100 + p / 400

def daysInMonth (y : Int) (m : Int) : Int :=
  if m = 2 then (if isLeap y then 29 else 28)
  else if m = 4 ∨ m = 6 ∨ m = 9 ∨ m = 11 then 30 else 31

def daysBeforeMonth (y : Int) (m : Int) : Int :=
  ((List.range (m - 1).toNat).map fun (i : Nat) => daysInMonth y ((i : Int) + 1)).foldl (· + ·) 0

def validYMD (y m d : Int) : Bool := 1 ≤ y && 1 ≤ m && m ≤ 12 && 1 ≤ d && d ≤ daysInMonth y m

/-- `date(y, m, d).toordinal()` -/
def ofYMD (y m d : Int) : Int := daysBeforeYear y + daysBeforeMonth y m + d

def yearOf (o : Int) : Int :=
  let y0 := (o * 400) / 146097 + 1
  let y1 := if daysBeforeYear y0 ≥ o then y0 - 1 else y0
  let y2 := if daysBeforeYear y1 ≥ o then y1 - 1 else y1
  let y3 := if daysBeforeYear (y2 + 1) < o then y2 + 1 else y2
  if daysBeforeYear (y3 + 1) < o then y3 + 1 else y3

def monthOf (y : Int) (dayOfYear : Int) : Int :=
  ([1, 2, 3, 4, 5, 6, 7, 8, 9, 10, 11, 12] : List Int).foldl
    (fun acc m => if daysBeforeMonth y m < dayOfYear then m else acc) 1

/-- `date.fromordinal(o)` as `(y, m, d)` -/
def toYMD (o : Int) : Int × Int × Int :=
  let y := yearOf o
  let doy := o - daysBeforeYear y
  let m := monthOf y doy
  (y, m, doy - daysBeforeMonth y m)

def year (o : Int) : Int := (toYMD o).1

/-- `dt.replace(month=1, day=1)` -/
def jan1 (o : Int) : Int := ofYMD (year o) 1 1

/-- `subtract_years_from_date(dt, 1)`: same month/day one year earlier; 29 Feb ↦ 28 Feb. -/
def subYear (o : Int) : Int :=
  let (y, m, d) := toYMD o
  if validYMD (y - 1) m d then ofYMD (y - 1) m d else ofYMD (y - 1) m (d - 1)

/-- `dt - timedelta(days=1)` -/
def pred (o : Int) : Int := o - 1

end GV.Dates
