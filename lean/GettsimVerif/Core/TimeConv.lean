import GettsimVerif.Core.Basic
/-
Model of `_gettsim/time_conversion.py`: the twelve converters (as exact rational
factors), the name pattern `<base>_<unit>[_<group>]` and the rules that decide which
derived nodes are created.
-/
namespace GV.TimeConv

inductive TUnit where
  | y | m | w | d
  deriving DecidableEq, Repr

def TUnit.ofChar? : Char → Option TUnit
  | 'y' => some .y | 'm' => some .m | 'w' => some .w | 'd' => some .d | _ => none

def TUnit.toString : TUnit → String
  | .y => "y" | .m => "m" | .w => "w" | .d => "d"

def allUnits : List TUnit := [.y, .m, .w, .d]

/-- number of units per year: `_M_PER_Y = 12`, `_W_PER_Y = 365.25/7`, `_D_PER_Y = 365.25` -/
def perYear : TUnit → Rat
  | .y => 1 | .m => 12 | .w => (36525 : Rat) / 700 | .d => (36525 : Rat) / 100

/-- The converters as written in the source (`y_to_m x = x / 12`, `m_to_w x = x * 12 / W`, …). -/
def conv (u v : TUnit) (x : Rat) : Rat :=
  match u, v with
  | .y, .y => x | .m, .m => x | .w, .w => x | .d, .d => x
  | .y, t => x / perYear t
  | s, .y => x * perYear s
  | s, t => x * perYear s / perYear t

def groupSuffixes : List String := ["_hh", "_wthh", "_fg", "_bg", "_eg", "_ehe", "_sn"]

structure Parsed where
  base : String      -- includes the trailing underscore, as the regex group does
  unit : TUnit
  agg : String       -- "" or "_hh", …
  deriving Repr, DecidableEq

/-- `(?P<base_name>.*_)(?P<time_unit>[ymwd])(?P<aggregation>_hh|_wthh|…)?` with `fullmatch`. -/
def parseNoAgg (name : String) : Option Parsed :=
  let cs := name.toList
  match cs.reverse with
  | u :: '_' :: rest =>
    match TUnit.ofChar? u with
    | some t => some { base := String.ofList (rest.reverse ++ ['_']), unit := t, agg := "" }
    | none => none
  | _ => none

/-- `cs` ends with `suf`: returns the part before the suffix -/
def stripSuffix? (cs suf : List Char) : Option (List Char) :=
  if suf.length ≤ cs.length ∧ cs.drop (cs.length - suf.length) = suf
  then some (cs.take (cs.length - suf.length)) else none

def parseName (name : String) : Option Parsed :=
  let withAgg := groupSuffixes.findSome? fun g =>
    match stripSuffix? name.toList g.toList with
    | some pre =>
      match parseNoAgg (String.ofList pre) with
      | some p => some { p with agg := g }
      | none => none
    | none => none
  match withAgg with
  | some p => some p
  | none => parseNoAgg name

/-- one derived node: name, source node, source unit, target unit -/
structure Derived where
  name : String
  src : String
  u : TUnit
  v : TUnit
  deriving Repr, DecidableEq

/-- `_create_time_conversion_functions(name, func)`; `deps` = parameter names of `func`. -/
def derivedOf (name : String) (deps : List String) : List Derived :=
  match parseName name with
  | none => []
  | some p =>
    (allUnits.filter (· ≠ p.unit)).filterMap fun t =>
      let n := p.base ++ t.toString ++ p.agg
      if deps.contains n then none else some { name := n, src := name, u := p.unit, v := t }

def upd (res : List Derived) (d : Derived) : List Derived :=
  if res.any (·.name = d.name) then res.map fun e => if e.name = d.name then d else e
  else res ++ [d]

/-- `create_time_conversion_functions(functions, data_cols)`: dict semantics (`update`). -/
def create (functions : List (String × List String)) (dataCols : List String) : List Derived :=
  let fnames := functions.map (·.1)
  let r1 := functions.foldl (fun res (n, deps) =>
    ((derivedOf n deps).filter fun d => !fnames.contains d.name && !dataCols.contains d.name).foldl upd res) []
  dataCols.foldl (fun res n =>
    ((derivedOf n []).filter fun d => !dataCols.contains d.name).foldl upd res) r1

end GV.TimeConv
