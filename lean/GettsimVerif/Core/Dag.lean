import GettsimVerif.Core.Basic
/-
Abstract model of the evaluation of the tax-transfer graph (`interface.compute_taxes_and_transfers`
after the function set has been built): nodes with named dependencies, data columns that
override functions of the same name, evaluation by need (fuel = depth bound).

`α` is the type of a column.
-/
namespace GV.Dag

abbrev Name := String

structure Node (α : Type) where
  deps : List Name
  op : List α → Except Err α

abbrev Sys (α : Type) := List (Name × Node α)
abbrev Data (α : Type) := List (Name × α)

def find? {β : Type} (l : List (Name × β)) (n : Name) : Option β :=
  match l with
  | [] => none
  | (k, v) :: rest => if k = n then some v else find? rest n

/-- evaluate all of `ns` with `ev`, left to right, stopping at the first error -/
def evalAll {α : Type} (ev : Name → Except Err α) : List Name → Except Err (List α)
  | [] => .ok []
  | n :: rest => do
    let v ← ev n
    let vs ← evalAll ev rest
    pure (v :: vs)

/-- value of node `n`: a data column wins over a function of the same name; a name that is
neither is a missing root (`ValueError` in the code, `keyError` here); `fuel` bounds the depth. -/
def eval {α : Type} (S : Sys α) (D : Data α) : Nat → Name → Except Err α
  | 0, _ => .error .other
  | k + 1, n =>
    match find? D n with
    | some c => .ok c
    | none =>
      match find? S n with
      | none => .error .keyError
      | some node => do
        let args ← evalAll (eval S D k) node.deps
        node.op args

/-- names reachable from `n` through dependencies (data columns are leaves), depth ≤ fuel -/
def reach {α : Type} (S : Sys α) (D : Data α) : Nat → Name → List Name
  | 0, n => [n]
  | k + 1, n =>
    match find? D n with
    | some _ => [n]
    | none =>
      match find? S n with
      | none => [n]
      | some node => n :: node.deps.flatMap (reach S D k)

/-- `dags.create_dag(functions, targets)`: keep only the ancestors of the targets -/
def prune {α : Type} (S : Sys α) (D : Data α) (fuel : Nat) (targets : List Name) : Sys α :=
  let keep := targets.flatMap (reach S D fuel)
  S.filter fun (n, _) => keep.contains n

/-- results for the requested targets, in the given order -/
def run {α : Type} (S : Sys α) (D : Data α) (fuel : Nat) (targets : List Name) :
    Except Err (List (Name × α)) :=
  targets.mapM fun t => do pure (t, ← eval (prune S D fuel targets) D fuel t)

/-- a data column named like a function overrides it (`functions_overridden`) -/
def overridden {α : Type} (S : Sys α) (D : Data α) : List Name :=
  (S.map (·.1)).filter fun n => (find? D n).isSome

end GV.Dag
