import GettsimVerif.Core.ParamsByDate
/-
Shapes of the tables the translator regenerates from /repo on every run.
-/
namespace GV.Reg

structure RuleInfo where
  module : String
  fname : String
  dagName : String
  timeDependent : Bool
  start : Int
  stop : Int
  roundingKey : Option String
  skipVectorization : Bool
  args : List String
  ret : String
  deriving Repr, DecidableEq

def RuleInfo.entry (r : RuleInfo) : Params.FnEntry :=
  { module := r.module, fname := r.fname, dagName := r.dagName,
    timeDependent := r.timeDependent, start := r.start, stop := r.stop }

/-- one dated entry of a `rounding:` block of a parameter file -/
structure RoundingEntry where
  group : String
  fn : String
  date : Int
  base : Option Rat
  direction : Option String
  off : Option Rat
  deriving Repr, DecidableEq

end GV.Reg
