import GettsimVerif.Core.Sign
/-
Partial evaluation of rules of the language `GV.Lang` w.r.t. KNOWN argument values (the parameter
trees `<group>_params` handed to a rule): constant propagation + constant folding.  It is a
PRE-PASS of the sign analysis (`Core/Sign.lean`, which is left untouched): a static parameter
path `p["a"]["b"]` is narrowed to the leaf / sub-tree actually read before the analysis looks at
the rule, so a negative leaf (or a `-inf` schedule threshold) ELSEWHERE in the group no longer
spoils the classification of the rule.

  * `peExpr ρ e`: names bound in `ρ` become constants; then, bottom-up, every node whose
    evaluation in the EMPTY environment succeeds is replaced by the resulting constant
    (`tryFold`; evaluation in the empty environment succeeds only if no free name is reached, and
    then every environment gives the same value: `Lemmas/PEval.lean: evalExpr_mono`); a
    conditional expression with a constant test is replaced by the selected branch (`mkIf`).
    Nothing is folded when the concrete evaluation raises, so errors are preserved exactly.
  * `peBlock ρ b`: statements in order; a name assigned by a statement (in either branch of an
    `if`) is removed from `ρ` for the rest of the block.
  * `peFun ρ f`: same name and argument list, transformed body.
  * `peGraph consts nodes`: every rule node is specialised to the constant nodes among its
    arguments.

Soundness (exact equality of the `Except` results) is proved in `Lemmas/PEval.lean`, the
property theorems are in `Props/C16PE.lean`.
-/
namespace GV.PEval
open GV.Lang GV.Sign

/-- remove all bindings of the names `xs` -/
def eraseAll (ρ : Env) (xs : List String) : Env := ρ.filter fun p => !(xs.contains p.1)

/-- replace `e` by its value if it can be evaluated without looking at any name -/
def tryFold (e : Expr) : Expr :=
  match evalExpr [] e with
  | .ok w => .const w
  | .error _ => e

/-- `a if c else b` with a constant test is the selected branch -/
def mkIf (c a b : Expr) : Expr :=
  match c with
  | .const v => if truthy v then a else b
  | _ => .ifexp c a b

/-! ### schedules that are non-negative everywhere -/

/-- the finite thresholds -/
def finThr : List Piecewise.Ext → List Rat
  | [] => []
  | .fin q :: r => q :: finThr r
  | _ :: r => finThr r

/-- strictly increasing -/
def increasing : List Rat → Bool
  | [] => true
  | [_] => true
  | a :: b :: r => decide (a < b) && increasing (b :: r)

/-- a sufficient condition for `piecewise_polynomial(x, …) ≥ 0` for EVERY `x`: the schedule is in
normal form (`thresholds = -inf, t₀ < … < t_{n-2}, +inf`, `n` intercepts, rows of `n` rates) and
all intercepts and all rates are non-negative (on piece `k ≥ 1` the polynomial is evaluated at
`x - t_{k-1} ≥ 0`, piece `0` is constant) -/
def pwNonnegChk (s : Piecewise.Schedule) : Bool :=
  decide (s.thresholds = .negInf :: (finThr s.thresholds).map .fin ++ [.posInf]) &&
  increasing (finThr s.thresholds) &&
  decide (s.intercepts.length = (finThr s.thresholds).length + 1) &&
  s.rates.all (fun row => decide (row.length = (finThr s.thresholds).length + 1)) &&
  s.intercepts.all (fun q => decide (0 ≤ q)) &&
  s.rates.all (fun row => row.all fun q => decide (0 ≤ q))

/-- `piecewise_polynomial(x, T, R, C)` with constant `T, R, C` forming a schedule that passes
`pwNonnegChk` -/
def pwWrap? (f : String) (args : List Expr) : Bool :=
  if f = "piecewise_polynomial" then
    match args with
    | [_, .const t, .const r, .const c] =>
      match scheduleOfVal t r c with
      | .ok s => pwNonnegChk s
      | .error _ => false
    | _ => false
  else false

/-- a call: folded if it can be evaluated; a `piecewise_polynomial` over a constant schedule that is
non-negative everywhere is rewritten to the equal `max(piecewise_polynomial(…), 0.0)`, which
tells the sign analysis (that knows `max` but not schedules) that the value is non-negative -/
def mkCall (f : String) (args : List Expr) : Expr :=
  match evalExpr [] (.call f args) with
  | .ok w => .const w
  | .error _ =>
    if pwWrap? f args then .call "max" [.call f args, .const (.flt 0)] else .call f args

mutual
def peExpr (ρ : Env) : Expr → Expr
  | .const v => .const v
  | .name n => match ρ.get? n with
    | some v => .const v
    | Option.none => .name n
  | .bin op a b => tryFold (.bin op (peExpr ρ a) (peExpr ρ b))
  | .neg a => tryFold (.neg (peExpr ρ a))
  | .cmp first rest => tryFold (.cmp (peExpr ρ first) (peChain ρ rest))
  | .boolop isAnd args => tryFold (.boolop isAnd (peArgs ρ args))
  | .not a => tryFold (.not (peExpr ρ a))
  | .ifexp c a b => mkIf (peExpr ρ c) (peExpr ρ a) (peExpr ρ b)
  | .call f args => mkCall f (peArgs ρ args)
  | .mcall f args => .mcall f args
  | .sub e idx => tryFold (.sub (peExpr ρ e) (peExpr ρ idx))
  | .isIn e items neg => tryFold (.isIn (peExpr ρ e) (peArgs ρ items) neg)
  | .opaque w => .opaque w
def peChain (ρ : Env) : List (CmpOp × Expr) → List (CmpOp × Expr)
  | [] => []
  | (op, e) :: rest => (op, peExpr ρ e) :: peChain ρ rest
def peArgs (ρ : Env) : List Expr → List Expr
  | [] => []
  | e :: rest => peExpr ρ e :: peArgs ρ rest
end

mutual
/-- the names a statement may assign -/
def assignedStmt : Stmt → List String
  | .assign x _ => [x]
  | .aug x _ _ => [x]
  | .ite _ body orelse => assignedIn body ++ assignedIn orelse
  | .ret _ => []
  | .expr _ => []
  | .other _ => []
/-- the names a block may assign -/
def assignedIn : List Stmt → List String
  | [] => []
  | s :: rest => assignedStmt s ++ assignedIn rest
end

mutual
def peStmt (ρ : Env) : Stmt → Stmt
  | .assign x e => .assign x (peExpr ρ e)
  | .aug x op e => .aug x op (peExpr ρ e)
  | .ret e => .ret (peExpr ρ e)
  | .ite c body orelse => .ite (peExpr ρ c) (peBlock ρ body) (peBlock ρ orelse)
  | .expr e => .expr e
  | .other w => .other w
def peBlock (ρ : Env) : List Stmt → List Stmt
  | [] => []
  | s :: rest => peStmt ρ s :: peBlock (eraseAll ρ (assignedStmt s)) rest
end

/-- the rule specialised to the known argument values `ρ` (formal parameter ↦ value) -/
def peFun (ρ : Env) (f : FunDef) : FunDef := { f with body := peBlock ρ f.body }

/-- the formal parameters whose actual argument is a constant node, with its value (a formal
parameter name occurring twice is bound as the FIRST occurrence is, like in `runFun`) -/
def bindConsts (consts : Env) : List String → List String → Env
  | f :: fs, a :: as =>
    match consts.get? a with
    | some v => (f, v) :: bindConsts consts fs as
    | Option.none => eraseAll (bindConsts consts fs as) [f]
  | _, _ => []

def peNode (consts : Env) (n : GNode) : GNode :=
  match n.kind with
  | .rule fn argNames => ⟨n.name, .rule (peFun (bindConsts consts fn.args argNames) fn) argNames⟩
  | _ => n

/-- every rule node specialised to the constant nodes `consts` (node name ↦ value) among its
arguments; all other nodes unchanged -/
def peGraph (consts : Env) (nodes : List GNode) : List GNode := nodes.map (peNode consts)

/-! ### miniature example (used for the non-vacuity examples) -/

namespace Demo

/-- a parameter group with a negative leaf and a `-inf` threshold NEXT TO the rate that is read -/
def group : GV.Yaml.Y :=
  .dict [(.s "beitr_satz", .dict [(.s "ges_rentenv", .num (93 / 1000)), (.s "zusatz", .num (9 / 1000))]),
         (.s "korrektur", .num (-5)),
         (.s "tarif", .dict [(.s "thresholds", .list [.ninf, .num 0, .pinf])]),
         (.s "aktiv", .bool true)]

/-- `def beitrag(lohn, p): return p["beitr_satz"]["ges_rentenv"] * lohn` -/
def beitrag : FunDef :=
  ⟨"beitrag", ["lohn", "p"],
    [.ret (.bin .mul (.sub (.sub (.name "p") (.const (.str "beitr_satz"))) (.const (.str "ges_rentenv")))
      (.name "lohn"))]⟩

/-- `def summe(lohn, p): satz = p["beitr_satz"]["ges_rentenv"] + p["beitr_satz"]["zusatz"];
return (satz * lohn if p["aktiv"] else 0.0)` -/
def summe : FunDef :=
  ⟨"summe", ["lohn", "p"],
    [.assign "satz" (.bin .add
        (.sub (.sub (.name "p") (.const (.str "beitr_satz"))) (.const (.str "ges_rentenv")))
        (.sub (.sub (.name "p") (.const (.str "beitr_satz"))) (.const (.str "zusatz")))),
     .ret (.ifexp (.sub (.name "p") (.const (.str "aktiv")))
        (.bin .mul (.name "satz") (.name "lohn")) (.const (.flt 0)))]⟩

/-- `def shadow(lohn, p): p = lohn; return p` (the parameter argument is reassigned) -/
def shadow : FunDef := ⟨"shadow", ["lohn", "p"], [.assign "p" (.name "lohn"), .ret (.name "p")]⟩

def graph : List GNode :=
  [⟨"lohn_m", .input .nonneg⟩,
   ⟨"sozialv_params", .input (absConst (.tree group))⟩,
   ⟨"beitrag_m", .rule beitrag ["lohn_m", "sozialv_params"]⟩,
   ⟨"summe_m", .rule summe ["lohn_m", "sozialv_params"]⟩,
   ⟨"beitrag_m_hh", .sumAgg "beitrag_m"⟩]

def consts : Env := [("sozialv_params", .tree group)]

/-- a two-row data set for `graph` (one household) -/
def val (r : Bool) (n : String) : Val :=
  if n = "lohn_m" then .flt (if r then 2000 else 1000)
  else if n = "sozialv_params" then .tree group
  else if n = "beitrag_m" then .flt (if r then 186 else 93)
  else if n = "summe_m" then .flt (if r then 204 else 102)
  else if n = "beitrag_m_hh" then .flt 279
  else .none

end Demo

end GV.PEval
