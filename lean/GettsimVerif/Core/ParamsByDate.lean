import GettsimVerif.Core.Yaml
import GettsimVerif.Core.Dates
import GettsimVerif.Core.Piecewise
/-
Model of `_gettsim/policy_environment.py`: `_load_parameter_group_from_yaml`,
`_load_rounding_parameters`, `_parse_piecewise_parameters`, the three year-derived
values and `load_functions_for_date`.
-/
namespace GV.Params
open GV.Yaml GV.Dates

/-- raw YAML files: group name ↦ top-level mapping -/
abbrev Raw := List (String × Y)

def Raw.group? (raw : Raw) (g : String) : Option Y :=
  match raw with
  | [] => none
  | (n, y) :: rest => if n = g then some y else Raw.group? rest g

/-- Python subscript `y[k]` -/
def sub (y : Y) (k : Key) : Except Err Y :=
  match y with
  | .dict kvs => match kvGet? kvs k with
    | some v => .ok v
    | none => .error .keyError
  | _ => .error .typeError

/-- Python item assignment `y[k] = v` -/
def setItem (y : Y) (k : Key) (v : Y) : Except Err Y :=
  match y with
  | .dict kvs => .ok (.dict (kvSet kvs k v))
  | _ => .error .typeError

def policyDates (p : Y) : List Int :=
  p.keys.filterMap fun k => match k with | .d o => some o | _ => none

def maxOf (l : List Int) : Option Int := l.foldl (fun a x => match a with | none => some x | some m => some (max m x)) none
def minOf (l : List Int) : Option Int := l.foldl (fun a x => match a with | none => some x | some m => some (min m x)) none

/-- the entry in force: the greatest entry date `≤ date` -/
def latest (dates : List Int) (date : Int) : Option Int := maxOf (dates.filter (· ≤ date))

def notTransKeys : List Key :=
  [.s "note", .s "reference", .s "deviation_from", .s "access_different_date"]

/-- `"a.b".split(".")` → first two components if there is a dot -/
def splitDev (dev : String) : Option (String × String) :=
  match dev.splitOn "." with
  | a :: b :: _ => some (a, b)
  | _ => none

/-- one iteration of the loop of `_load_rounding_parameters` over `(function_name, spec)` -/
def roundingStep (copied : List String) (date : Int) (out : List (Key × Y)) (kv : Key × Y) :
    Except Err (List (Key × Y)) :=
  match latest (policyDates kv.2) date with
  | none => pure out
  | some l => do
    let pol ← sub kv.2 (.d l)
    let kept := match pol with
      | .dict pkvs => pkvs.filter fun (k, _) => match k with
        | .s name => copied.contains name
        | _ => false
      | _ => []
    pure (kvSet out kv.1 (.dict kept))

/-- `_load_rounding_parameters(date, rounding_spec)`; `copied` is the list
`rounding_parameters` of the source. -/
def loadRounding (copied : List String) (date : Int) (spec : Y) : Except Err Y :=
  match spec with
  | .dict kvs => do
    let out ← kvs.foldlM (roundingStep copied date) []
    pure (.dict out)
  | _ => .error .typeError

/-! ### `_load_parameter_group_from_yaml`

The body of the Python function is split into named pieces; every piece receives the
recursive call as an argument `look date group param`, which stands for
`_load_parameter_group_from_yaml(date, group, parameters=[param])[param]` (with `none` for the
`if param in tmp_parameters` tests). -/

/-- the recursive call restricted to one parameter, and the lookup of that parameter -/
abbrev Look := Int → String → String → Except Err (Option Y)

/-- no entry is in force yet (`latest = none`): only a cross-file `deviation_from` of the
earliest entry yields a value -/
def futureStep (look : Look) (p : Y) (date : Int) (out : List (Key × Y)) (pk : Key) :
    Except Err (List (Key × Y)) :=
  match minOf (policyDates p) with
  | none => throw Err.valueError
  | some e => do
    let future ← sub p (.d e)
    match future.get? (.s "deviation_from") with
    | some (.str dev) =>
      match splitDev dev with
      | some (g2, p2) => do
        match ← look date g2 p2 with
        | some v => pure (kvSet out pk v)
        | none => pure out
      | none => pure out
    | some _ => throw Err.typeError
    | none => pure out

/-- the base value of a `deviation_from` entry -/
def devBase (look : Look) (base0 devY : Y) (l date : Int) (group param : String) : Except Err Y :=
  match devY with
  | .str dev =>
    if dev = "previous" then do
      match ← look (l - 1) group param with | some v => pure v | none => throw Err.keyError
    else match splitDev dev with
      | some (g2, p2) => do
        match ← look date g2 p2 with | some v => pure v | none => throw Err.keyError
      | none => pure base0
  | _ => throw Err.typeError

/-- the value of parameter `p` given the entry `pol` (dated `l`) in force -/
def entryValue (look : Look) (p pol : Y) (l date : Int) (group param : String) : Except Err Y :=
  match pol.get? (.s "scalar") with
  | some sc =>
    pure (match sc with
      | .str "inf" => Y.pinf
      | other => other)
  | none => do
    let base0 : Y := .dict ([Key.s "type", Key.s "progressionsfaktor"].filterMap fun k =>
      (p.get? k).map fun v => (k, v))
    let valueKeys := pol.keys.filter fun k => !notTransKeys.contains k
    match pol.get? (.s "deviation_from") with
    | some devY => do
      let base1 ← devBase look base0 devY l date group param
      valueKeys.foldlM (fun (cur : Y) k => do
        let old ← sub cur k
        let v ← sub pol k
        let new ← transfer v old []
        setItem cur k new) base1
    | none =>
      valueKeys.foldlM (fun (cur : Y) k => do
        let v ← sub pol k
        setItem cur k v) base0

/-- `access_different_date` -/
def accessStep (look : Look) (p : Y) (date : Int) (group param : String) (pk : Key)
    (out : List (Key × Y)) : Except Err (List (Key × Y)) :=
  match p.get? (.s "access_different_date") with
  | none => pure out
  | some (.str "vorjahr") => do
    match ← look (subYear date) group param with
    | some v => pure (kvSet out (.s (param ++ "_vorjahr")) v)
    | none => pure out
  | some (.str "jahresanfang") =>
    if jan1 date = date then
      match kvGet? out pk with
      | some v => pure (kvSet out (.s (param ++ "_jahresanfang")) v)
      | none => throw Err.keyError
    else do
      match ← look (jan1 date) group param with
      | some v => pure (kvSet out (.s (param ++ "_jahresanfang")) v)
      | none => pure out
  | some _ => throw Err.valueError

/-- the body of the loop over parameters, for the parameter `p = g[pk]` named `param` -/
def paramBody (look : Look) (p : Y) (date : Int) (group param : String) (pk : Key)
    (out : List (Key × Y)) : Except Err (List (Key × Y)) :=
  match latest (policyDates p) date with
  | none => futureStep look p date out pk
  | some l => do
    let pol ← sub p (.d l)
    let v ← entryValue look p pol l date group param
    accessStep look p date group param pk (kvSet out pk v)

/-- one iteration of the loop over parameters -/
def paramStep (look : Look) (g : Y) (date : Int) (group : String) (out : List (Key × Y))
    (pk : Key) : Except Err (List (Key × Y)) := do
  let param ← match pk with | .s n => pure n | _ => throw Err.typeError
  let p ← sub g pk
  paramBody look p date group param pk out

/-- after the loop: `datum` and the rounding parameters -/
def finishGroup (copied : List String) (g : Y) (date : Int) (out : List (Key × Y)) :
    Except Err (List (Key × Y)) :=
  let out := kvSet out (.s "datum") (.date date)
  match g.get? (.s "rounding") with
  | some r => do
    let rr ← loadRounding copied date r
    pure (kvSet out (.s "rounding") rr)
  | none => pure out

/-- `_load_parameter_group_from_yaml(date, group, parameters)`; `fuel` bounds the depth of
the recursive calls (`previous`, cross-file deviation, `vorjahr`, `jahresanfang`). -/
def loadGroup (copied : List String) (raw : Raw) :
    Nat → Int → String → Option (List String) → Except Err (List (Key × Y))
  | 0, _, _, _ => .error .other
  | fuel + 1, date, group, parameters => do
    let g ← match raw.group? group with | some g => pure g | none => throw Err.other
    let params : List Key := match parameters with
      | some ps => ps.map Key.s
      | none => g.keys.filter (· ≠ .s "rounding")
    let look : Look := fun date' group' param' => do
      let tmp ← loadGroup copied raw fuel date' group' (some [param'])
      pure (kvGet? tmp (.s param'))
    let out ← params.foldlM (paramStep look g date group) []
    finishGroup copied g date out

/-! ### piecewise parsing inside the environment -/

open GV.Piecewise in
def extOf (y : Y) : Option Ext :=
  match y with
  | .num q => some (.fin q) | .pinf => some .posInf | .ninf => some .negInf
  | .str "inf" => some .posInf | .str "-inf" => some .negInf   -- numpy parses the strings
  | _ => none

def ratOf (y : Y) : Option Rat :=
  match y with
  | .num q => some q | .bool b => some (if b then 1 else 0) | _ => none

open GV.Piecewise in
def rawPieceOf (y : Y) : RawPiece :=
  { lower := (y.get? (.s "lower_threshold")).bind extOf
    upper := (y.get? (.s "upper_threshold")).bind extOf
    rate := (y.get? (.s "rate")).bind ratOf
    rateLinear := (y.get? (.s "rate_linear")).bind ratOf
    rateQuadratic := (y.get? (.s "rate_quadratic")).bind ratOf
    rateCubic := (y.get? (.s "rate_cubic")).bind ratOf
    intercept := (y.get? (.s "intercept_at_lower_threshold")).bind ratOf }

open GV.Piecewise in
def yOfExt : Ext → Y
  | .negInf => .ninf | .posInf => .pinf | .fin q => .num q

/-- the integer-keyed pieces of a piecewise parameter, which must be keyed `0..n-1` -/
def piecesOf (p : Y) : Except Err (List Y) := do
  let ks := p.keys.filterMap fun k => match k with | .i n => some n | _ => none
  let n := ks.length
  if (List.range n).all (fun (i : Nat) => ks.contains (i : Int)) then
    (List.range n).mapM fun (i : Nat) => sub p (.i (i : Int))
  else throw Err.valueError

open GV.Piecewise in
def degreeOf (typ : String) : Except Err Nat :=
  match (typ.splitOn "_")[1]? with
  | some "linear" => pure 1 | some "quadratic" => pure 2 | some "cubic" => pure 3
  | _ => throw Err.valueError

def truthy : Y → Bool
  | .bool b => b | .num q => q ≠ 0 | .null => false | .str s => s ≠ "" | _ => true

open GV.Piecewise in
/-- `_parse_piecewise_parameters` for one parameter value -/
def parseOne (v : Y) : Except Err Y :=
  match v with
  | .dict kvs =>
    let stripped := kvs.filter fun (k, _) => k ≠ .s "type" && k ≠ .s "progressionsfaktor"
    match kvGet? kvs (.s "type") with
    | some (.str typ) =>
      if typ.startsWith "piecewise" then do
        let pieces ← piecesOf v
        let raws := pieces.map rawPieceOf
        let raws ← if ((kvGet? kvs (.s "progressionsfaktor")).map truthy).getD false
                    then addProgressionsfaktor raws else pure raws
        let s ← parse raws (← degreeOf typ)
        pure (.dict [(.s "thresholds", .list (s.thresholds.map yOfExt)),
                     (.s "rates", .list (s.rates.map fun row => .list (row.map Y.num))),
                     (.s "intercepts_at_lower_thresholds", .list (s.intercepts.map Y.num))])
      else pure (.dict stripped)
    | _ => pure (.dict stripped)
  | other => pure other

def parseGroup (kvs : List (Key × Y)) : Except Err (List (Key × Y)) :=
  kvs.mapM fun (k, v) => do pure (k, ← parseOne v)

open GV.Piecewise in
def scheduleOf (y : Y) : Except Err Schedule := do
  let thr ← match ← sub y (.s "thresholds") with
    | .list xs => xs.mapM fun x => match extOf x with | some e => pure e | none => throw Err.typeError
    | _ => throw Err.typeError
  let rates ← match ← sub y (.s "rates") with
    | .list rows => rows.mapM fun r => match r with
      | .list xs => xs.mapM fun x => match ratOf x with | some q => pure q | none => throw Err.typeError
      | _ => throw Err.typeError
    | _ => throw Err.typeError
  let ic ← match ← sub y (.s "intercepts_at_lower_thresholds") with
    | .list xs => xs.mapM fun x => match ratOf x with | some q => pure q | none => throw Err.typeError
    | _ => throw Err.typeError
  pure { thresholds := thr, rates := rates, intercepts := ic }

def getPath (y : Y) (path : List Key) : Except Err Y := path.foldlM sub y

def numOf (y : Y) : Except Err Rat :=
  match ratOf y with | some q => pure q | none => throw Err.typeError

/-- `set_up_policy_environment(date)`, first stage: load and parse every group -/
def envLoad (copied : List String) (groups : List String) (raw : Raw) (fuel : Nat) (date : Int) :
    Except Err (List (Key × Y)) :=
  groups.mapM fun g => do
    let kvs ← loadGroup copied raw fuel date g none
    pure (Key.s g, Y.dict (← parseGroup kvs))

/-- `_parse_kinderzuschl_max` -/
def deriveKinderzuschl (yr : Int) (params : Y) : Except Err Y :=
  if yr < 2023 ∧ 2021 ≤ yr then do
    let kz ← sub params (.s "kinderzuschl")
    let ex ← sub kz (.s "existenzminimum")
    let a ← numOf (← getPath ex [.s "regelsatz", .s "kinder"])
    let b ← numOf (← getPath ex [.s "kosten_der_unterkunft", .s "kinder"])
    let c ← numOf (← getPath ex [.s "heizkosten", .s "kinder"])
    let kg ← numOf (← getPath params [.s "kindergeld", .s "kindergeld", .i 1])
    let kz' ← setItem kz (.s "maximum") (.num ((a + b + c) / 12 - kg))
    setItem params (.s "kinderzuschl") kz'
  else pure params

/-- `_parse_einführungsfaktor_vorsorgeaufw_alter_ab_2005`, `_parse_vorsorgepauschale_rentenv_anteil` -/
def deriveEinkSt (yr : Int) (params : Y) : Except Err Y :=
  if 2005 ≤ yr then do
    let ab ← sub params (.s "eink_st_abzuege")
    let s1 ← scheduleOf (← sub ab (.s "einführungsfaktor"))
    let ab ← setItem ab (.s "einführungsfaktor_vorsorgeaufw_alter_ab_2005")
      (.num (Piecewise.eval s1 (yr : Rat)))
    let s2 ← scheduleOf (← sub ab (.s "vorsorgepauschale_rentenv_anteil"))
    let ab ← setItem ab (.s "vorsorgepauschale_rentenv_anteil") (.num (Piecewise.eval s2 (yr : Rat)))
    setItem params (.s "eink_st_abzuege") ab
  else pure params

/-- `set_up_policy_environment(date)`, second stage: the three year-derived values -/
def envDerive (yr : Int) (loaded : List (Key × Y)) : Except Err Y := do
  let params ← deriveKinderzuschl yr (.dict loaded)
  deriveEinkSt yr params

/-- `set_up_policy_environment(date)`: parameters part. `groups` = `INTERNAL_PARAMS_GROUPS`. -/
def env (copied : List String) (groups : List String) (raw : Raw) (fuel : Nat) (date : Int) :
    Except Err Y := do
  let loaded ← envLoad copied groups raw fuel date
  envDerive (year date) loaded

/-! ### time-dependent functions -/

structure FnEntry where
  module : String
  fname : String        -- `__name__`
  dagName : String      -- `name_in_dag`
  timeDependent : Bool  -- has `@policy_info` (hence `name_in_dag`)
  start : Int
  stop : Int
  deriving Repr, DecidableEq

/-- `is_active_at_date` -/
def activeAt (e : FnEntry) (date : Int) : Bool := e.start ≤ date && date ≤ e.stop

/-- `load_functions_for_date`: dict semantics, later entries overwrite earlier ones -/
def functionsFor (reg : List FnEntry) (date : Int) : List (String × FnEntry) :=
  reg.foldl (fun acc e =>
    if !e.timeDependent || activeAt e date then
      let name := if e.timeDependent then e.dagName else e.fname
      if acc.any (·.1 = name) then acc.map fun (n, x) => if n = name then (n, e) else (n, x)
      else acc ++ [(name, e)]
    else acc) []

/-- the registration-time conflict test of `_check_for_conflicts_in_time_dependent_functions` -/
def conflictTest (s e fs fe : Int) : Bool := (s ≤ fs && fs ≤ e) || (fs ≤ s && s ≤ fe)

end GV.Params
