import GettsimVerif.Core.Basic
/-
Model of the dtype behaviour of `functions_loader._vectorize_func`:
every scalar rule `f` is wrapped by `numpy.vectorize(f, otypes=_otypes_from_return_annotation(f))`.

* WITH `otypes=[T]` (return annotation `float` / `int` / `bool`) every per-row result is cast
  to `T` and the column dtype is `T` whatever the data are (also for 0 rows).
* WITHOUT `otypes` (annotation missing or anything else) numpy calls `f` on row 0, takes the
  dtype of that result (`bool` → bool, `int` → int64, `float` → float64) and casts ALL results
  to it; for 0 rows it raises `ValueError` ("cannot call `vectorize` on size 0 inputs unless
  `otypes` is set").

Casts (numpy `astype` on the object array of results): float←int/bool exact; int←float
truncation toward zero; int←bool 0/1; bool←number "≠ 0".
Out of scope: NaN/±inf results and int64 overflow (values are exact ℚ / ℤ here).
-/
namespace GV.VecDtype

/-- a per-row result of a scalar rule (a Python `bool`, `int` or `float`) -/
inductive R where
  | b (v : Bool)
  | i (v : Int)
  | f (q : Rat)
  deriving DecidableEq, Repr, Inhabited

/-- column dtypes (numpy `bool`, `int64`, `float64`) -/
inductive DT where
  | bool | int | float
  deriving DecidableEq, Repr, Inhabited

def dtypeOf : R → DT
  | .b _ => .bool
  | .i _ => .int
  | .f _ => .float

/-- numeric value (`True` = 1, `False` = 0) -/
def numOf : R → Rat
  | .b v => if v then 1 else 0
  | .i v => (v : Rat)
  | .f q => q

/-- truncation toward zero ℚ → ℤ (C cast `(int64) double`) -/
def truncRat (q : Rat) : Int := Int.tdiv q.num q.den

/-- numpy cast of one result to dtype `t` -/
def cast : DT → R → R
  | .float, .b v => .f (if v then 1 else 0)
  | .float, .i v => .f (v : Rat)
  | .float, .f q => .f q
  | .int, .b v => .i (if v then 1 else 0)
  | .int, .i v => .i v
  | .int, .f q => .i (truncRat q)
  | .bool, .b v => .b v
  | .bool, .i v => .b (v != 0)
  | .bool, .f q => .b (q != 0)

/-- `numpy.vectorize(f, otypes=[t])` applied to the per-row results `rs` -/
def vecDeclared (t : DT) (rs : List R) : DT × List R := (t, rs.map (cast t))

/-- `numpy.vectorize(f)` (no otypes): dtype of the first result, everything cast to it;
`none` = the `ValueError` for size-0 input -/
def vecInferred (rs : List R) : Option (DT × List R) :=
  match rs with
  | [] => none
  | r :: _ => some (dtypeOf r, rs.map (cast (dtypeOf r)))

/-- `_vectorize_func`: `decl` = `_otypes_from_return_annotation(f)` -/
def vectorize (decl : Option DT) (rs : List R) : Option (DT × List R) :=
  match decl with
  | some t => some (vecDeclared t rs)
  | none => vecInferred rs

/-- the cast to `t` does not change the numeric value of `r` -/
def losslessFor (t : DT) (r : R) : Bool := numOf (cast t r) == numOf r

end GV.VecDtype
