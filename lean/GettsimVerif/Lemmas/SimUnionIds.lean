import GettsimVerif.Lemmas.SimPermIds
import GettsimVerif.Lemmas.SimUnion
/-
Helper lemmas for property C02 (separability) on the id constructors of `groupings.py` inside the
concrete model `Core/Simulate.lean`: the group ids COMPUTED on a joint table `A ++ B` (`nA + nB`
rows), restricted to the `A`-rows, induce the same partition as the ids computed on `A` alone, and
no id of an `A`-row is the id of a `B`-row.
-/
namespace GV.Simulate
open GV.VecDtype (R DT numOf)
open GV.Lang (Val FunDef)
open GV.Groupings

/-! ## lists -/

theorem ui_take_zip {α β : Type} (a : List α) (b : List β) (n : Nat) :
    (a.zip b).take n = (a.take n).zip (b.take n) := by
  simp only [List.zip, List.take_zipWith]

theorem ui_nodup_disj {α β : Type} {f : α → β} {A B : List α} (hn : ((A ++ B).map f).Nodup)
    {a b : α} (ha : a ∈ A) (hb : b ∈ B) : f a ≠ f b := by
  rw [List.map_append, List.nodup_append] at hn
  exact hn.2.2 (f a) (List.mem_map_of_mem ha) (f b) (List.mem_map_of_mem hb)

/-- index form of `un_IdsSep` -/
theorem ui_idsSep_of_ne {nA : Nat} {res : List Int}
    (h : ∀ i j (_ : i < nA) (_ : nA ≤ j) (hj' : j < res.length), res[i]'(by omega) ≠ res[j]) :
    un_IdsSep nA res := by
  intro g hg hg'
  obtain ⟨i, hi, rfl⟩ := List.getElem_of_mem hg
  obtain ⟨k, hk, e⟩ := List.getElem_of_mem hg'
  simp only [List.length_take, List.length_drop] at hi hk
  simp only [List.getElem_take, List.getElem_drop] at e
  exact h i (nA + k) (by omega) (by omega) (by omega) e.symm

theorem ui_idsSep_index {nA : Nat} {res : List Int} (h : un_IdsSep nA res) {i j : Nat}
    (hi : i < nA) (hj : nA ≤ j) (hj' : j < res.length) : res[i]'(by omega) ≠ res[j] := by
  intro e
  refine h (res[i]'(by omega)) ?_ ?_
  · exact List.mem_take_iff_getElem.mpr ⟨i, by omega, rfl⟩
  · rw [e]
    exact List.mem_drop_iff_getElem.mpr ⟨j - nA, by omega, by simp [Nat.add_sub_cancel' hj]⟩

/-- the generic step: an id list that is characterised, as a partition, by a relation on the rows -/
theorem ui_of_spec {ρ : Type} {A B : List ρ} {res resA : List Int} (Rel RelA : ρ → ρ → Prop)
    (hl : res.length = (A ++ B).length) (hlA : resA.length = A.length)
    (hs : ∀ i (hi : i < (A ++ B).length) j (hj : j < (A ++ B).length),
      res[i] = res[j] ↔ Rel (A ++ B)[i] (A ++ B)[j])
    (hsA : ∀ i (hi : i < A.length) j (hj : j < A.length), resA[i] = resA[j] ↔ RelA A[i] A[j])
    (hRA : ∀ a ∈ A, ∀ a' ∈ A, (Rel a a' ↔ RelA a a'))
    (hRB : ∀ a ∈ A, ∀ b ∈ B, ¬ Rel a b) :
    SamePartition (res.take A.length) resA ∧ un_IdsSep A.length res := by
  have hlen : (A ++ B).length = A.length + B.length := List.length_append
  constructor
  · apply SamePartition.of_getElem (by rw [List.length_take, hl, hlA, hlen]; omega)
    intro i j hi hj
    have hi' : i < A.length := by rw [List.length_take] at hi; omega
    have hj' : j < A.length := by rw [List.length_take] at hj; omega
    rw [List.getElem_take, List.getElem_take, hs i (by omega) j (by omega), hsA i hi' j hj',
      List.getElem_append_left hi', List.getElem_append_left hj']
    exact hRA _ (List.getElem_mem _) _ (List.getElem_mem _)
  · apply ui_idsSep_of_ne
    intro i j hi hj hj' e
    rw [hs i (by omega) j (by omega), List.getElem_append_left hi, List.getElem_append_right hj] at e
    exact hRB _ (List.getElem_mem _) _ (List.getElem_mem _) e

/-! ## the constructors on row lists `A ++ B` -/

theorem ui_pair_notSame {A B : List (Int × Int)} (hv : ValidRows (A ++ B)) (hc : PairClosed A B) :
    ∀ a ∈ A, ∀ b ∈ B, ¬ PairSame a b := by
  intro a ha b hb h
  rcases h with h | h
  · exact ui_nodup_disj hv.nodup ha hb h
  · exact hc a ha b hb h

theorem ui_pairIdRows_union {A B : List (Int × Int)} (hv : ValidRows (A ++ B))
    (hc : PairClosed A B) :
    SamePartition ((pairIdRows (A ++ B)).take A.length) (pairIdRows A) ∧
      un_IdsSep A.length (pairIdRows (A ++ B)) :=
  ui_of_spec PairSame PairSame (pairIdRows_length _) (pairIdRows_length _)
    (fun _ hi _ hj => pairIdRows_spec hv hi hj)
    (fun _ hi _ hj => pairIdRows_spec (hv.of_append_left hc) hi hj)
    (fun _ _ _ _ => Iff.rfl) (ui_pair_notSame hv hc)

theorem ui_sn_notSame {A B : List (Int × Int × Bool)} (hv : ValidRows3 (A ++ B))
    (hc : SnClosed A B) : ∀ a ∈ A, ∀ b ∈ B, ¬ SnSame a b := by
  intro a ha b hb h
  rcases h with h | h
  · exact ui_nodup_disj hv.nodup ha hb h
  · exact hc a ha b hb h.1

theorem ui_snIdRows_union {A B : List (Int × Int × Bool)} (hv : ValidRows3 (A ++ B))
    (hc : SnClosed A B) {res : List Int} (h : snIdRows (A ++ B) = .ok res) :
    ∃ resA, snIdRows A = .ok resA ∧ SamePartition (res.take A.length) resA ∧
      un_IdsSep A.length res := by
  have hag : SnAgree (A ++ B) := by
    by_contra hna
    rw [(snIdRows_error_iff hv).2 hna] at h
    cases h
  obtain ⟨res', hres, hl, hs⟩ := snIdRows_spec hv hag
  rw [h] at hres
  cases hres
  obtain ⟨resA, hresA, hlA, hsA⟩ := snIdRows_spec (hv.of_append_left hc) hag.of_append_left
  exact ⟨resA, hresA, ui_of_spec SnSame SnSame hl hlA hs hsA (fun _ _ _ _ => Iff.rfl)
    (ui_sn_notSame hv hc)⟩

theorem ui_not_coupled {A B : List Person} (hs : FgSeparated A B)
    (hn : ((A ++ B).map (·.pid)).Nodup) {a b : Person} (ha : a ∈ A) (hb : b ∈ B) :
    ¬ Coupled a b := by
  rintro (h | h)
  · exact ui_nodup_disj hn ha hb (by rw [h])
  · exact hs.partner a ha b hb h

theorem ui_fg_notSame {A B : List Person} (hs : FgSeparated A B) (hv : ValidPersons (A ++ B)) :
    ∀ a ∈ A, ∀ b ∈ B, ¬ FgSame (A ++ B) a b := by
  intro a ha b hb h
  have inA : ∀ {p : Person}, p ∈ A ++ B → IsParentPtr a p.pid → p ∈ A := by
    intro p hp h'
    rcases List.mem_append.mp hp with h1 | h1
    · exact h1
    · exact absurd h' (hs.parentAB a ha p h1)
  have inB : ∀ {p : Person}, p ∈ A ++ B → IsParentPtr b p.pid → p ∈ B := by
    intro p hp h'
    rcases List.mem_append.mp hp with h1 | h1
    · exact absurd h' (hs.parentBA p h1 b hb)
    · exact h1
  rcases h with h | ⟨p, hp, h1, h2⟩ | ⟨p, hp, h1, h2⟩ | ⟨p, hp, q, hq, h1, h2, h3⟩
  · exact ui_not_coupled hs hv.nodup ha hb h
  · exact ui_not_coupled hs hv.nodup (inA hp h1.2.1) hb h2
  · exact ui_not_coupled hs hv.nodup ha (inB hp h1.2.1)
      (coupled_symm hv hp (List.mem_append_left _ ha) h2)
  · exact ui_not_coupled hs hv.nodup (inA hp h1.2.1) (inB hq h2.2.1) h3

theorem ui_fgId_union {A B : List Person} (hsep : FgSeparated A B) (hv : ValidPersons (A ++ B))
    (h7 : ValidDependents (A ++ B)) {res : List Int} (h : fgId true (A ++ B) = .ok res) :
    ∃ resA, fgId true A = .ok resA ∧ SamePartition (res.take A.length) resA ∧
      un_IdsSep A.length res := by
  obtain ⟨res', hres, hl, hs⟩ := fg_spec hv h7
  rw [h] at hres
  cases hres
  obtain ⟨resA, hresA, hlA, hsA⟩ := fg_spec (hv.of_append_left hsep) (h7.of_append_left hsep)
  exact ⟨resA, hresA, ui_of_spec (FgSame (A ++ B)) (FgSame A) hl hlA hs hsA
    (fun _ ha _ ha' => fgSame_append_left hsep ha ha') (ui_fg_notSame hsep hv)⟩

theorem ui_bgSmall_left {A B : List (Int × Int × Bool)} (hs : BgSmall (A ++ B)) : BgSmall A := by
  intro r hr
  have := hs r (List.mem_append_left _ hr)
  rw [List.countP_append] at this
  omega

theorem ui_bgIdRows_union (A B : List (Int × Int × Bool)) (hs : BgSmall (A ++ B))
    (hd : ∀ a ∈ A, ∀ b ∈ B, b.1 ≠ a.1) :
    (bgIdRows (A ++ B)).take A.length = bgIdRows A ∧ un_IdsSep A.length (bgIdRows (A ++ B)) := by
  have hlen : (A ++ B).length = A.length + B.length := List.length_append
  constructor
  · apply List.ext_getElem
    · rw [List.length_take, bgIdRows_length, bgIdRows_length, hlen]; omega
    · intro i h1 h2
      rw [bgIdRows_length] at h2
      rw [List.getElem_take]
      exact bgIdRows_append_left A B h2
  · apply ui_idsSep_of_ne
    intro i j hi hj hj' e
    rw [bgIdRows_length] at hj'
    rw [bgIdRows_spec hs (by omega) hj', List.getElem_append_left hi,
      List.getElem_append_right hj] at e
    exact hd _ (List.getElem_mem _) _ (List.getElem_mem _) e.1.symm

theorem ui_wthhIdRows_union (A B : List (Int × Bool × Bool)) (hd : ∀ a ∈ A, ∀ b ∈ B, b.1 ≠ a.1) :
    (wthhIdRows (A ++ B)).take A.length = wthhIdRows A ∧
      un_IdsSep A.length (wthhIdRows (A ++ B)) := by
  have hlen : (A ++ B).length = A.length + B.length := List.length_append
  constructor
  · rw [wthhIdRows_eq_map, wthhIdRows_eq_map, List.map_append]
    exact List.take_left' (by simp)
  · apply ui_idsSep_of_ne
    intro i j hi hj hj' e
    rw [wthhIdRows_length] at hj'
    rw [wthhIdRows_spec (by omega) hj', List.getElem_append_left hi,
      List.getElem_append_right hj] at e
    exact hd _ (List.getElem_mem _) _ (List.getElem_mem _) e.1.symm

/-- first components: "no value of the first `nA` rows occurs among the remaining rows" -/
theorem ui_fst_disj {β : Type} {nA : Nat} {rows : List (Int × β)}
    (h : un_IdsSep nA (rows.map (·.1))) : ∀ a ∈ rows.take nA, ∀ b ∈ rows.drop nA, b.1 ≠ a.1 := by
  intro a ha b hb e
  refine h a.1 ?_ ?_
  · rw [← List.map_take]; exact List.mem_map_of_mem ha
  · rw [← List.map_drop, ← e]; exact List.mem_map_of_mem hb

/-! ## columns: restriction to the first `nA` rows -/

theorem ui_scalar_takeRows (n : Nat) (c : Col) : (c.takeRows n).scalar = c.scalar := by
  unfold Col.takeRows; split <;> rfl

theorem ui_dt_takeRows (n : Nat) (c : Col) : (c.takeRows n).dt = c.dt := by
  unfold Col.takeRows; split <;> rfl

theorem ui_shape_takeRows (n : Nat) (c : Col) : (c.takeRows n).shape = c.shape := by
  unfold Col.takeRows; split <;> rfl

theorem ui_bools_takeRows {n : Nat} {c : Col} (hs : c.scalar = false) :
    (c.takeRows n).bools = c.bools.take n := by
  simp [Col.takeRows, hs, Col.bools, List.map_take]

theorem ui_ints_take (vs : List Int) (dt : DT) (n : Nat) :
    (pi_ints vs dt).takeRows n = pi_ints (vs.take n) dt := by
  unfold Col.takeRows
  rw [pi_ints_scalar]
  simp [pi_ints, List.map_take]

theorem ui_colOK_take {nA nB : Nat} {c : Col} (hc : ColOK (nA + nB) c) : ColOK nA (c.takeRows nA) := by
  intro hs
  rw [ui_scalar_takeRows] at hs
  simp [Col.takeRows, hs, hc hs]

theorem ui_colsOK_take {nA nB : Nat} {cols : List Col} (hc : ColsOK (nA + nB) cols) :
    ColsOK nA (cols.map (Col.takeRows nA)) := by
  intro c hcm
  obtain ⟨c0, h0, rfl⟩ := List.mem_map.mp hcm
  exact ui_colOK_take (hc c0 h0)

theorem ui_colChk_take (n : Nat) {c : Col} (h : pi_colChk c = false) :
    pi_colChk (c.takeRows n) = false := by
  cases hs : c.scalar with
  | true => rw [Col.takeRows_of_scalar hs]; exact h
  | false =>
    simp only [pi_colChk, ui_dt_takeRows, Bool.and_eq_false_iff, Bool.not_eq_false',
      List.all_eq_true] at h ⊢
    rcases h with h | h
    · exact Or.inl h
    · right
      intro q hq
      have : (c.takeRows n).rats = c.rats.take n := by
        simp [Col.takeRows, hs, Col.rats, List.map_take]
      rw [this] at hq
      exact h q (List.mem_of_mem_take hq)

theorem ui_intChk_take (n : Nat) {cols : List Col} (h : pi_intChk cols = false) :
    pi_intChk (cols.map (Col.takeRows n)) = false := by
  simp only [pi_intChk, List.any_eq_false, List.mem_map, forall_exists_index, and_imp,
    forall_apply_eq_imp_iff₂] at h ⊢
  intro c hcm
  have := ui_colChk_take n (c := c) (by simpa using h c hcm)
  simp [this]

theorem ui_nonneg_takeRows {n : Nat} {c : Col} (h : ∀ x ∈ c.ints, 0 ≤ x) :
    ∀ x ∈ (c.takeRows n).ints, 0 ≤ x := by
  cases hs : c.scalar with
  | true => rw [Col.takeRows_of_scalar hs]; exact h
  | false =>
    rw [un_ints_takeRows hs]
    exact fun x hx => h x (List.mem_of_mem_take hx)

theorem ui_wthhId_rows (a : List Int) (b c : List Bool) (h : a.length = b.length)
    (h' : a.length = c.length) : wthhId a b c = wthhIdRows (a.zip (b.zip c)) := by
  obtain ⟨h1, h2, h3⟩ := pi_unzip3 a b c h h'
  unfold wthhIdRows
  rw [h1, h2, h3]

theorem ui_length_take_of {α : Type} {nA nB : Nat} {l : List α} (h : l.length = nA + nB) :
    (l.take nA).length = nA := by
  rw [List.length_take, h]; omega

/-! ## the separation hypotheses on the input columns -/

/-- `eg_id` / `ehe_id`: no pointer of one of the first `nA` rows is the p_id of a later row
(`PairClosed` of `pairId_union`) -/
def ui_SepPair (nA : Nat) : List Col → Prop
  | [pid, partner] =>
    PairClosed ((pid.ints.zip partner.ints).take nA) ((pid.ints.zip partner.ints).drop nA)
  | _ => False

/-- `sn_id`: `SnClosed` of `snId_union` -/
def ui_SepSn (nA : Nat) : List Col → Prop
  | [pid, partner, gv] =>
    SnClosed ((pid.ints.zip (partner.ints.zip gv.bools)).take nA)
      ((pid.ints.zip (partner.ints.zip gv.bools)).drop nA)
  | _ => False

/-- `fg_id`: `FgSeparated` of `fg_union` -/
def ui_SepFg (nA : Nat) : List Col → Prop
  | [pid, hh, alter, partner, e1, e2] =>
    FgSeparated ((pi_persons pid hh alter partner e1 e2).take nA)
      ((pi_persons pid hh alter partner e1 e2).drop nA)
  | _ => False

/-- `bg_id` / `wthh_id`: no value of the first column (`fg_id` resp. `hh_id`) of the first `nA` rows
occurs among the remaining rows -/
def ui_SepFst (nA : Nat) : List Col → Prop
  | [c0, _, _] => un_IdsSep nA c0.ints
  | _ => False

/-- the separation hypothesis of the C12Cor union theorem of the constructor `g`, on the columns -/
def ui_Sep (g : Grouping) (nA : Nat) (cols : List Col) : Prop :=
  match g with
  | .eg => ui_SepPair nA cols
  | .ehe => ui_SepPair nA cols
  | .sn => ui_SepSn nA cols
  | .fg => ui_SepFg nA cols
  | .bg => ui_SepFst nA cols
  | .wthh => ui_SepFst nA cols

/-! ## the constructors on columns -/

theorem ui_pair_union {nA nB : Nat} (g : Grouping) (hg : g = .eg ∨ g = .ehe) {cols : List Col}
    {out : Col} (hcols : ColsOK (nA + nB) cols) (hv : pi_ValidPair cols)
    (hsep : ui_SepPair nA cols) (h : groupingOp g cols = .ok out) :
    ∃ outA, groupingOp g (cols.map (Col.takeRows nA)) = .ok outA ∧
      Col.SamePart (out.takeRows nA) outA ∧ un_IdsSep nA out.ints ∧
      pi_ValidPair (cols.map (Col.takeRows nA)) := by
  match cols, hcols, hv, hsep, h with
  | [pid, partner], hcols, ⟨h0, h1, hval⟩, hsep, h =>
    have hpi : pid.ints.length = nA + nB := un_ints_length (hcols pid (by simp)) h0
    have hqi : partner.ints.length = nA + nB := un_ints_length (hcols partner (by simp)) h1
    rw [pi_groupingOp_eq g pid [partner] h0 (by simp [h1])] at h
    cases hchk : pi_intChk [pid, partner] with
    | true => rw [hchk] at h; simp at h
    | false =>
      have hchk' := ui_intChk_take nA hchk
      simp only [List.map_cons, List.map_nil] at hchk' ⊢
      rw [pi_groupingOp_eq g _ [partner.takeRows nA] (by rw [ui_scalar_takeRows]; exact h0)
        (by simp [ui_scalar_takeRows, h1]), hchk']
      rw [hchk] at h
      simp only [Bool.false_eq_true, if_false] at h ⊢
      have hb : ∀ a b : Col, pi_body g [a, b] = .ok (pi_ints (pairId a.ints b.ints)) := by
        rcases hg with rfl | rfl <;> intro a b <;> rfl
      rw [hb] at h ⊢
      cases h
      obtain ⟨rows, hrows⟩ : ∃ rows, rows = pid.ints.zip partner.ints := ⟨_, rfl⟩
      have hrl : rows.length = nA + nB := by rw [hrows]; simp [hpi, hqi]
      have hAl : (rows.take nA).length = nA := ui_length_take_of hrl
      have hz : (pid.takeRows nA).ints.zip (partner.takeRows nA).ints = rows.take nA := by
        rw [un_ints_takeRows h0, un_ints_takeRows h1, hrows, ui_take_zip]
      have hvAB : ValidRows (rows.take nA ++ rows.drop nA) := by
        rw [List.take_append_drop, hrows]; exact hval
      have hc : PairClosed (rows.take nA) (rows.drop nA) := by rw [hrows]; exact hsep
      have key := ui_pairIdRows_union hvAB hc
      rw [List.take_append_drop, hAl] at key
      have e1 : pairId pid.ints partner.ints = pairIdRows rows := by
        rw [hrows]; exact pi_pairId_rows _ _ (by rw [hpi, hqi])
      have e2 : pairId (pid.takeRows nA).ints (partner.takeRows nA).ints = pairIdRows (rows.take nA) := by
        rw [← hz]
        exact pi_pairId_rows _ _ (by rw [un_ints_takeRows h0, un_ints_takeRows h1]; simp [hpi, hqi])
      refine ⟨_, rfl, ?_, ?_, ⟨by rw [ui_scalar_takeRows]; exact h0,
        by rw [ui_scalar_takeRows]; exact h1, ?_⟩⟩
      · rw [ui_ints_take, e1, e2]
        exact pi_ints_samePart key.1 _
      · rw [pi_ints_ints, e1]; exact key.2
      · rw [hz]; exact hvAB.of_append_left hc

theorem ui_sn_union {nA nB : Nat} {cols : List Col} {out : Col}
    (hcols : ColsOK (nA + nB) cols) (hv : pi_ValidSn cols) (hsep : ui_SepSn nA cols)
    (h : groupingOp .sn cols = .ok out) :
    ∃ outA, groupingOp .sn (cols.map (Col.takeRows nA)) = .ok outA ∧
      Col.SamePart (out.takeRows nA) outA ∧ un_IdsSep nA out.ints ∧
      pi_ValidSn (cols.map (Col.takeRows nA)) := by
  match cols, hcols, hv, hsep, h with
  | [pid, partner, gv], hcols, ⟨h0, h1, h2, hval⟩, hsep, h =>
    have hpi : pid.ints.length = nA + nB := un_ints_length (hcols pid (by simp)) h0
    have hqi : partner.ints.length = nA + nB := un_ints_length (hcols partner (by simp)) h1
    have hgi : gv.bools.length = nA + nB := by
      rw [pi_bools_length, hcols gv (by simp) h2]
    rw [pi_groupingOp_eq .sn pid [partner, gv] h0 (by simp [h1, h2])] at h
    cases hchk : pi_intChk [pid, partner, gv] with
    | true => rw [hchk] at h; simp at h
    | false =>
      have hchk' := ui_intChk_take nA hchk
      simp only [List.map_cons, List.map_nil] at hchk' ⊢
      rw [pi_groupingOp_eq .sn _ [partner.takeRows nA, gv.takeRows nA]
        (by rw [ui_scalar_takeRows]; exact h0) (by simp [ui_scalar_takeRows, h1, h2]), hchk']
      rw [hchk] at h
      simp only [Bool.false_eq_true, if_false] at h ⊢
      rw [pi_body_sn] at h ⊢
      obtain ⟨res, hres, rfl⟩ := pi_bind_pure_ok h
      obtain ⟨rows, hrows⟩ : ∃ rows, rows = pid.ints.zip (partner.ints.zip gv.bools) := ⟨_, rfl⟩
      have hrl : rows.length = nA + nB := by rw [hrows]; simp [hpi, hqi, hgi]
      have hAl : (rows.take nA).length = nA := ui_length_take_of hrl
      have hz : (pid.takeRows nA).ints.zip ((partner.takeRows nA).ints.zip (gv.takeRows nA).bools) =
          rows.take nA := by
        rw [un_ints_takeRows h0, un_ints_takeRows h1, ui_bools_takeRows h2, hrows, ui_take_zip,
          ui_take_zip]
      have hvAB : ValidRows3 (rows.take nA ++ rows.drop nA) := by
        rw [List.take_append_drop, hrows]; exact hval
      have hc : SnClosed (rows.take nA) (rows.drop nA) := by rw [hrows]; exact hsep
      rw [pi_snId_rows _ _ _ (by rw [hpi, hqi]) (by rw [hpi, hgi]), ← hrows] at hres
      have hres' : snIdRows (rows.take nA ++ rows.drop nA) = .ok res := by
        rw [List.take_append_drop]; exact hres
      obtain ⟨resA, hresA, hsp, hids⟩ := ui_snIdRows_union hvAB hc hres'
      rw [hAl] at hsp hids
      have e2 : snId (pid.takeRows nA).ints (partner.takeRows nA).ints (gv.takeRows nA).bools =
          .ok resA := by
        rw [pi_snId_rows _ _ _
          (by rw [un_ints_takeRows h0, un_ints_takeRows h1]; simp [hpi, hqi])
          (by rw [un_ints_takeRows h0, ui_bools_takeRows h2]; simp [hpi, hgi]), hz]
        exact hresA
      rw [e2]
      refine ⟨_, rfl, ?_, ?_, ⟨by rw [ui_scalar_takeRows]; exact h0,
        by rw [ui_scalar_takeRows]; exact h1, by rw [ui_scalar_takeRows]; exact h2, ?_⟩⟩
      · rw [ui_ints_take]
        exact pi_ints_samePart hsp _
      · rw [pi_ints_ints]; exact hids
      · rw [hz]; exact hvAB.of_append_left hc

theorem ui_persons_take {n : Nat} {pid hh alter partner e1 e2 : Col}
    (h0 : pid.scalar = false) (h1 : hh.scalar = false) (h2 : alter.scalar = false)
    (h3 : partner.scalar = false) (h4 : e1.scalar = false) (h5 : e2.scalar = false) :
    pi_persons (pid.takeRows n) (hh.takeRows n) (alter.takeRows n) (partner.takeRows n)
      (e1.takeRows n) (e2.takeRows n) = (pi_persons pid hh alter partner e1 e2).take n := by
  simp only [pi_persons]
  rw [un_ints_takeRows h0, un_ints_takeRows h1, un_ints_takeRows h2, un_ints_takeRows h3,
    un_ints_takeRows h4, un_ints_takeRows h5, ← ui_take_zip, ← ui_take_zip, ← ui_take_zip,
    ← ui_take_zip, ← ui_take_zip, List.map_take]

theorem ui_fg_union {nA nB : Nat} {cols : List Col} {out : Col}
    (hcols : ColsOK (nA + nB) cols) (hv : pi_ValidFg cols) (hsep : ui_SepFg nA cols)
    (h : groupingOp .fg cols = .ok out) :
    ∃ outA, groupingOp .fg (cols.map (Col.takeRows nA)) = .ok outA ∧
      Col.SamePart (out.takeRows nA) outA ∧ un_IdsSep nA out.ints ∧
      pi_ValidFg (cols.map (Col.takeRows nA)) := by
  match cols, hcols, hv, hsep, h with
  | [pid, hh, alter, partner, e1, e2], hcols, ⟨h0, h1, h2, h3, h4, h5, hval, hdep⟩, hsep, h =>
    have l0 := hcols pid (by simp) h0
    have l1 := hcols hh (by simp) h1
    have l2 := hcols alter (by simp) h2
    have l3 := hcols partner (by simp) h3
    have l4 := hcols e1 (by simp) h4
    have l5 := hcols e2 (by simp) h5
    rw [pi_groupingOp_eq .fg pid _ h0 (by simp [h1, h2, h3, h4, h5])] at h
    cases hchk : pi_intChk [pid, hh, alter, partner, e1, e2] with
    | true => rw [hchk] at h; simp at h
    | false =>
      have hchk' := ui_intChk_take nA hchk
      simp only [List.map_cons, List.map_nil] at hchk' ⊢
      rw [pi_groupingOp_eq .fg _ _ (by rw [ui_scalar_takeRows]; exact h0)
        (by simp [ui_scalar_takeRows, h1, h2, h3, h4, h5]), hchk']
      rw [hchk] at h
      simp only [Bool.false_eq_true, if_false] at h ⊢
      rw [pi_body_fg] at h ⊢
      obtain ⟨res, hres, rfl⟩ := pi_bind_pure_ok h
      have hz := ui_persons_take (n := nA) h0 h1 h2 h3 h4 h5
      obtain ⟨ps, hps⟩ : ∃ ps, ps = pi_persons pid hh alter partner e1 e2 := ⟨_, rfl⟩
      have hpl : ps.length = nA + nB := by
        rw [hps]
        simp only [pi_persons, List.length_map, List.length_zip, pi_ints_length, l0, l1, l2, l3,
          l4, l5]
        omega
      have hAl : (ps.take nA).length = nA := ui_length_take_of hpl
      rw [← hps] at hz hres
      have hvAB : ValidPersons (ps.take nA ++ ps.drop nA) := by
        rw [List.take_append_drop, hps]; exact hval
      have hdAB : ValidDependents (ps.take nA ++ ps.drop nA) := by
        rw [List.take_append_drop, hps]; exact hdep
      have hc : FgSeparated (ps.take nA) (ps.drop nA) := by rw [hps]; exact hsep
      have hres' : fgId true (ps.take nA ++ ps.drop nA) = .ok res := by
        rw [List.take_append_drop]; exact hres
      obtain ⟨resA, hresA, hsp, hids⟩ := ui_fgId_union hc hvAB hdAB hres'
      rw [hAl] at hsp hids
      rw [hz, hresA]
      refine ⟨_, rfl, ?_, ?_, ⟨by rw [ui_scalar_takeRows]; exact h0,
        by rw [ui_scalar_takeRows]; exact h1, by rw [ui_scalar_takeRows]; exact h2,
        by rw [ui_scalar_takeRows]; exact h3, by rw [ui_scalar_takeRows]; exact h4,
        by rw [ui_scalar_takeRows]; exact h5, ?_, ?_⟩⟩
      · rw [ui_ints_take]
        exact pi_ints_samePart hsp _
      · rw [pi_ints_ints]; exact hids
      · rw [hz]; exact hvAB.of_append_left hc
      · rw [hz]; exact hdAB.of_append_left hc

theorem ui_bg_union {nA nB : Nat} {cols : List Col} {out : Col}
    (hcols : ColsOK (nA + nB) cols) (hv : pi_ValidBg cols) (hsep : ui_SepFst nA cols)
    (h : groupingOp .bg cols = .ok out) :
    groupingOp .bg (cols.map (Col.takeRows nA)) = .ok (out.takeRows nA) ∧
      un_IdsSep nA out.ints ∧ pi_ValidBg (cols.map (Col.takeRows nA)) := by
  match cols, hcols, hv, hsep, h with
  | [fg, alter, eigen], hcols, ⟨h0, h1, h2, hval⟩, hsep, h =>
    have hpi : fg.ints.length = nA + nB := un_ints_length (hcols fg (by simp)) h0
    have hqi : alter.ints.length = nA + nB := un_ints_length (hcols alter (by simp)) h1
    have hgi : eigen.bools.length = nA + nB := by
      rw [pi_bools_length, hcols eigen (by simp) h2]
    rw [pi_groupingOp_eq .bg fg [alter, eigen] h0 (by simp [h1, h2])] at h
    cases hchk : pi_intChk [fg, alter, eigen] with
    | true => rw [hchk] at h; simp at h
    | false =>
      have hchk' := ui_intChk_take nA hchk
      simp only [List.map_cons, List.map_nil] at hchk' ⊢
      rw [pi_groupingOp_eq .bg _ [alter.takeRows nA, eigen.takeRows nA]
        (by rw [ui_scalar_takeRows]; exact h0) (by simp [ui_scalar_takeRows, h1, h2]), hchk']
      rw [hchk] at h
      simp only [Bool.false_eq_true, if_false] at h ⊢
      rw [pi_body_bg] at h ⊢
      cases h
      obtain ⟨rows, hrows⟩ : ∃ rows, rows = fg.ints.zip (alter.ints.zip eigen.bools) := ⟨_, rfl⟩
      have hrl : rows.length = nA + nB := by rw [hrows]; simp [hpi, hqi, hgi]
      have hAl : (rows.take nA).length = nA := ui_length_take_of hrl
      have hz : (fg.takeRows nA).ints.zip ((alter.takeRows nA).ints.zip (eigen.takeRows nA).bools) =
          rows.take nA := by
        rw [un_ints_takeRows h0, un_ints_takeRows h1, ui_bools_takeRows h2, hrows, ui_take_zip,
          ui_take_zip]
      have hsAB : BgSmall (rows.take nA ++ rows.drop nA) := by
        rw [List.take_append_drop, hrows]; exact hval
      have hfst : rows.map (·.1) = fg.ints := by
        rw [hrows]; exact (pi_unzip3 _ _ _ (by rw [hpi, hqi]) (by rw [hpi, hgi])).1
      have hd : ∀ a ∈ rows.take nA, ∀ b ∈ rows.drop nA, b.1 ≠ a.1 :=
        ui_fst_disj (by rw [hfst]; exact hsep)
      have key := ui_bgIdRows_union _ _ hsAB hd
      rw [List.take_append_drop, hAl] at key
      have e1 : bgId fg.ints alter.ints eigen.bools = bgIdRows rows := by
        rw [hrows]; exact pi_bgId_rows _ _ _ (by rw [hpi, hqi]) (by rw [hpi, hgi])
      have e2 : bgId (fg.takeRows nA).ints (alter.takeRows nA).ints (eigen.takeRows nA).bools =
          bgIdRows (rows.take nA) := by
        rw [← hz]
        exact pi_bgId_rows _ _ _
          (by rw [un_ints_takeRows h0, un_ints_takeRows h1]; simp [hpi, hqi])
          (by rw [un_ints_takeRows h0, ui_bools_takeRows h2]; simp [hpi, hgi])
      refine ⟨?_, ?_, ⟨by rw [ui_scalar_takeRows]; exact h0,
        by rw [ui_scalar_takeRows]; exact h1, by rw [ui_scalar_takeRows]; exact h2, ?_⟩⟩
      · rw [ui_ints_take, e1, e2, key.1, ui_dt_takeRows]
      · rw [pi_ints_ints, e1]; exact key.2
      · rw [hz]; exact ui_bgSmall_left hsAB

theorem ui_wthh_union {nA nB : Nat} {cols : List Col} {out : Col}
    (hcols : ColsOK (nA + nB) cols) (hv : pi_ValidWthh cols) (hsep : ui_SepFst nA cols)
    (h : groupingOp .wthh cols = .ok out) :
    groupingOp .wthh (cols.map (Col.takeRows nA)) = .ok (out.takeRows nA) ∧
      un_IdsSep nA out.ints ∧ pi_ValidWthh (cols.map (Col.takeRows nA)) := by
  match cols, hcols, hv, hsep, h with
  | [hh, v1, v2], hcols, ⟨h0, h1, h2⟩, hsep, h =>
    have hpi : hh.ints.length = nA + nB := un_ints_length (hcols hh (by simp)) h0
    have hqi : v1.bools.length = nA + nB := by rw [pi_bools_length, hcols v1 (by simp) h1]
    have hgi : v2.bools.length = nA + nB := by rw [pi_bools_length, hcols v2 (by simp) h2]
    rw [pi_groupingOp_eq .wthh hh [v1, v2] h0 (by simp [h1, h2])] at h
    cases hchk : pi_intChk [hh, v1, v2] with
    | true => rw [hchk] at h; simp at h
    | false =>
      have hchk' := ui_intChk_take nA hchk
      simp only [List.map_cons, List.map_nil] at hchk' ⊢
      rw [pi_groupingOp_eq .wthh _ [v1.takeRows nA, v2.takeRows nA]
        (by rw [ui_scalar_takeRows]; exact h0) (by simp [ui_scalar_takeRows, h1, h2]), hchk']
      rw [hchk] at h
      simp only [Bool.false_eq_true, if_false] at h ⊢
      rw [pi_body_wthh] at h ⊢
      cases h
      obtain ⟨rows, hrows⟩ : ∃ rows, rows = hh.ints.zip (v1.bools.zip v2.bools) := ⟨_, rfl⟩
      have hrl : rows.length = nA + nB := by rw [hrows]; simp [hpi, hqi, hgi]
      have hAl : (rows.take nA).length = nA := ui_length_take_of hrl
      have hz : (hh.takeRows nA).ints.zip ((v1.takeRows nA).bools.zip (v2.takeRows nA).bools) =
          rows.take nA := by
        rw [un_ints_takeRows h0, ui_bools_takeRows h1, ui_bools_takeRows h2, hrows, ui_take_zip,
          ui_take_zip]
      have hfst : rows.map (·.1) = hh.ints := by
        rw [hrows]; exact (pi_unzip3 _ _ _ (by rw [hpi, hqi]) (by rw [hpi, hgi])).1
      have hd : ∀ a ∈ rows.take nA, ∀ b ∈ rows.drop nA, b.1 ≠ a.1 :=
        ui_fst_disj (by rw [hfst]; exact hsep)
      have key := ui_wthhIdRows_union _ _ hd
      rw [List.take_append_drop, hAl] at key
      have e1 : wthhId hh.ints v1.bools v2.bools = wthhIdRows rows := by
        rw [hrows]; exact ui_wthhId_rows _ _ _ (by rw [hpi, hqi]) (by rw [hpi, hgi])
      have e2 : wthhId (hh.takeRows nA).ints (v1.takeRows nA).bools (v2.takeRows nA).bools =
          wthhIdRows (rows.take nA) := by
        rw [← hz]
        exact ui_wthhId_rows _ _ _
          (by rw [un_ints_takeRows h0, ui_bools_takeRows h1]; simp [hpi, hqi])
          (by rw [un_ints_takeRows h0, ui_bools_takeRows h2]; simp [hpi, hgi])
      refine ⟨?_, ?_, ⟨by rw [ui_scalar_takeRows]; exact h0,
        by rw [ui_scalar_takeRows]; exact h1, by rw [ui_scalar_takeRows]; exact h2⟩⟩
      · rw [ui_ints_take, e1, e2, key.1, ui_dt_takeRows]
      · rw [pi_ints_ints, e1]; exact key.2

/-- all constructors together -/
theorem ui_groupingOp_union {nA nB : Nat} (g : Grouping) {cols : List Col} {out : Col}
    (hcols : ColsOK (nA + nB) cols) (hv : pi_Valid g cols) (hsep : ui_Sep g nA cols)
    (h : groupingOp g cols = .ok out) :
    ∃ outA, groupingOp g (cols.map (Col.takeRows nA)) = .ok outA ∧
      Col.SamePart (out.takeRows nA) outA ∧ un_IdsSep nA out.ints ∧
      pi_Valid g (cols.map (Col.takeRows nA)) ∧
      ((g = .bg ∨ g = .wthh) → outA = out.takeRows nA) := by
  cases g with
  | eg =>
    obtain ⟨o, a, b, c, d⟩ := ui_pair_union (nB := nB) .eg (Or.inl rfl) hcols hv hsep h
    exact ⟨o, a, b, c, d, fun hg => by rcases hg with hg | hg <;> cases hg⟩
  | ehe =>
    obtain ⟨o, a, b, c, d⟩ := ui_pair_union (nB := nB) .ehe (Or.inr rfl) hcols hv hsep h
    exact ⟨o, a, b, c, d, fun hg => by rcases hg with hg | hg <;> cases hg⟩
  | sn =>
    obtain ⟨o, a, b, c, d⟩ := ui_sn_union (nB := nB) hcols hv hsep h
    exact ⟨o, a, b, c, d, fun hg => by rcases hg with hg | hg <;> cases hg⟩
  | fg =>
    obtain ⟨o, a, b, c, d⟩ := ui_fg_union (nB := nB) hcols hv hsep h
    exact ⟨o, a, b, c, d, fun hg => by rcases hg with hg | hg <;> cases hg⟩
  | bg =>
    obtain ⟨a, c, d⟩ := ui_bg_union (nB := nB) hcols hv hsep h
    exact ⟨_, a, Col.SamePart.refl _, c, d, fun _ => rfl⟩
  | wthh =>
    obtain ⟨a, c, d⟩ := ui_wthh_union (nB := nB) hcols hv hsep h
    exact ⟨_, a, Col.SamePart.refl _, c, d, fun _ => rfl⟩

/-! ## the lift through the evaluation of the DAG -/

/-- the Python function of a vectorized rule has at least one argument (a rule without any argument
is called once and returns a Python number; the lift covers it only if it has no input node at all) -/
def Kind.ui_ruleArgs : Kind → Prop
  | .rule fn _ _ => fn.args ≠ []
  | _ => True

/-- a rule all of whose inputs are scalars (in particular a rule without any input) does not see
the rows at all: gathering rows changes neither the call nor the (scalar) result -/
theorem ui_ruleOp_gather_scalar {n : Nat} (σ : List Nat)
    {params : List (String × Val)} {fn : FunDef} {ty : Ty} {spec : Option RSpec}
    {free : List String} {cols : List Col} {out : Col} (hcols : ColsOK n cols)
    (hall : ∀ c ∈ cols, c.scalar = true)
    (h : ruleOp params fn (some ty) spec free cols = .ok out) :
    ruleOp params fn (some ty) spec free (cols.map (Col.permute σ)) = .ok (out.permute σ) := by
  rw [map_permute_of_all_scalar σ cols hall, h]
  rw [ruleOp_declared] at h
  obtain ⟨n?, hb, h⟩ := bind_ok h
  obtain ⟨raw, hraw, h⟩ := bind_ok h
  obtain ⟨rs, hrs, h⟩ := bind_ok h
  obtain ⟨o, ho, hfin⟩ := bind_ok h
  have hbo := broadcastLen_ok hcols
  rw [hb] at hbo
  have hf : cols.filter (!·.scalar) = [] := by
    rw [List.filter_eq_nil_iff]
    intro c hc
    simp [hall c hc]
  rw [if_pos hf] at hbo
  cases hbo
  rw [Col.permute_of_scalar (finish_scalar hfin (mkOut_scalar ho (Or.inr rfl)))]

/-- the relation between the value `c` of the node / data column `name` in the run on the joint
table and its value `c'` in the run on the first `nA` rows alone: nodes marked by `isId` (derived
group ids) induce the same partition on the first `nA` rows, all others are restricted exactly -/
def UnionIdRel (nA : Nat) (isId : String → Bool) (name : String) (c c' : Col) : Prop :=
  if isId name then Col.SamePart (c.takeRows nA) c' else c' = c.takeRows nA

/-- the invariant of the lift -/
def ui_Inv (nA nB : Nat) (isId : String → Bool) (name : String) (c c' : Col) : Prop :=
  ColOK (nA + nB) c ∧
    if isId name then
      Col.SamePart (c.takeRows nA) c' ∧ (∀ x ∈ c.ints, 0 ≤ x) ∧ (∀ x ∈ c'.ints, 0 ≤ x) ∧
        pi_colChk c' = false ∧ un_IdsSep nA c.ints
    else c' = c.takeRows nA

theorem ui_Inv.rel {nA nB : Nat} {isId : String → Bool} {name : String} {c c' : Col}
    (h : ui_Inv nA nB isId name c c') : UnionIdRel nA isId name c c' := by
  unfold UnionIdRel
  have := h.2
  split at this
  · rename_i hi; rw [if_pos hi]; exact this.1
  · rename_i hi; rw [if_neg hi]; exact this

theorem ui_Inv.unmarked {nA nB : Nat} {isId : String → Bool} {name : String} {c c' : Col}
    (h : ui_Inv nA nB isId name c c') (hi : isId name = false) : c' = c.takeRows nA := by
  have := h.2
  rw [if_neg (by simp [hi])] at this
  exact this

theorem ui_Inv.marked {nA nB : Nat} {isId : String → Bool} {name : String} {c c' : Col}
    (h : ui_Inv nA nB isId name c c') (hi : isId name = true) :
    Col.SamePart (c.takeRows nA) c' ∧ (∀ x ∈ c.ints, 0 ≤ x) ∧ (∀ x ∈ c'.ints, 0 ≤ x) ∧
      pi_colChk c' = false ∧ un_IdsSep nA c.ints := by
  have := h.2
  rw [if_pos hi] at this
  exact this

theorem ui_argsRel_colsOK {nA nB : Nat} {isId : String → Bool} {ds : List String}
    {as as' : List Col} (h : Dag.ArgsRel (ui_Inv nA nB isId) ds as as') : ColsOK (nA + nB) as := by
  induction h with
  | nil => intro c hc; cases hc
  | cons h _ ih =>
    intro c hc
    rcases List.mem_cons.1 hc with rfl | hc
    · exact h.1
    · exact ih c hc

theorem ui_argsRel_unmarked {nA nB : Nat} {isId : String → Bool} {ds : List String}
    {as as' : List Col} (h : Dag.ArgsRel (ui_Inv nA nB isId) ds as as')
    (hu : ∀ d ∈ ds, isId d = false) : as' = as.map (Col.takeRows nA) := by
  induction h with
  | nil => rfl
  | cons h _ ih =>
    rw [List.map_cons, h.unmarked (hu _ List.mem_cons_self),
      ih fun d hd => hu d (List.mem_cons_of_mem _ hd)]

/-- rules with declared type, time conversions and `sum_by_p_id` commute with the restriction to the
first `nA` rows (success direction) -/
theorem ui_nodeOf_take {nA nB : Nat} (params : List (String × Val)) (specs : List (String × RSpec))
    (f : Fn) (hk : f.kind.permOK = true) {args : List Col}
    (hr : f.kind.ui_ruleArgs ∨ ∀ c ∈ args, c.scalar = true)
    (hga : f.kind.un_isGroupAgg = false) {out : Col}
    (hargs : ColsOK (nA + nB) args)
    (hnd : f.kind.isPidSum = true → ∀ pid, args[2]? = some pid → pid.ints.Nodup)
    (hcl : f.kind.isPidSum = true → ∀ ptr pid, args[1]? = some ptr → args[2]? = some pid →
      ptr.scalar = false → pid.scalar = false → un_PtrClosed 0 nA ptr.ints pid.ints)
    (h : (nodeOf params specs f).op args = .ok out) :
    (nodeOf params specs f).op (args.map (Col.takeRows nA)) = .ok (out.takeRows nA) ∧
      ColOK (nA + nB) out := by
  have ham : 0 + nA ≤ nA + nB := by omega
  have hok : ColOK (nA + nB) out :=
    (nodeOf_perm (List.Perm.refl (List.range (nA + nB))) params specs f hk hargs hnd h).2
  refine ⟨?_, hok⟩
  rw [← un_map_permute_take hargs (Nat.le_add_right nA nB),
    ← un_permute_take hok (Nat.le_add_right nA nB)]
  obtain ⟨name, fargs, ann, kind⟩ := f
  cases kind with
  | rule fn ret key =>
    cases ret with
    | none => cases hk
    | some ty =>
      rcases hr with hr | hr
      · exact un_ruleOp_gather (un_win_valid ham) hr hargs h
      · exact ui_ruleOp_gather_scalar _ hargs hr h
  | pidSum src ptr => exact (un_pidSumOp_win_list ham hargs (hnd rfl) (hcl rfl) h).1
  | timeConv src u v =>
    have h' : timeConvOp u v args = .ok out := h
    show timeConvOp u v (args.map (Col.permute (un_win 0 nA))) = _
    rw [timeConvOp_perm_list (un_win_valid ham) u v args hargs, h']
    rfl
  | groupAgg ag src gid => cases hga
  | grouping g => cases hk

theorem ui_groupAggOp_two_take {nA nB : Nat} (a : Aggr) {col gid out : Col}
    (hcols : ColsOK (nA + nB) [col, gid]) (hsep : un_IdsSep nA gid.ints)
    (h : groupAggOp a [col, gid] = .ok out) :
    groupAggOp a [col.takeRows nA, gid.takeRows nA] = .ok (out.takeRows nA) ∧
      ColOK (nA + nB) out := by
  have hA := un_groupAggOp_two_win (a := 0) (m := nA) (by omega) a hcols
    (fun _ => un_Sep_take hsep) h
  rw [← un_permute_take (hcols col (by simp)) (Nat.le_add_right nA nB),
    ← un_permute_take (hcols gid (by simp)) (Nat.le_add_right nA nB),
    ← un_permute_take hA.2 (Nat.le_add_right nA nB)]
  exact hA

theorem ui_groupAggOp_one_take {nA nB : Nat} (a : Aggr) {gid out : Col}
    (hcols : ColsOK (nA + nB) [gid]) (hsep : un_IdsSep nA gid.ints)
    (h : groupAggOp a [gid] = .ok out) :
    groupAggOp a [gid.takeRows nA] = .ok (out.takeRows nA) ∧ ColOK (nA + nB) out := by
  have hA := un_groupAggOp_one_win (a := 0) (m := nA) (by omega) a hcols
    (fun _ => un_Sep_take hsep) h
  rw [← un_permute_take (hcols gid (by simp)) (Nat.le_add_right nA nB),
    ← un_permute_take hA.2 (Nat.le_add_right nA nB)]
  exact hA

/-- the ids produced by `eg_id`, `ehe_id`, `sn_id`, `fg_id` are non-negative -/
theorem ui_grouping_nonneg {n : Nat} (g : Grouping) (hg : g ≠ .bg ∧ g ≠ .wthh) {cols : List Col}
    {out : Col} (hcols : ColsOK n cols) (hv : pi_Valid g cols) (h : groupingOp g cols = .ok out) :
    ∀ x ∈ out.ints, 0 ≤ x := by
  have hσ : (List.range n).Perm (List.range n) := List.Perm.refl _
  cases g with
  | eg => obtain ⟨_, _, _, _, h4, _⟩ := pi_pair_perm hσ .eg (Or.inl rfl) hcols hv h; exact h4
  | ehe => obtain ⟨_, _, _, _, h4, _⟩ := pi_pair_perm hσ .ehe (Or.inr rfl) hcols hv h; exact h4
  | sn => obtain ⟨_, _, _, _, h4, _⟩ := pi_sn_perm hσ hcols hv h; exact h4
  | fg => obtain ⟨_, _, _, _, h4, _⟩ := pi_fg_perm hσ hcols hv h; exact h4
  | bg => exact absurd rfl hg.1
  | wthh => exact absurd rfl hg.2

/-- what the lift needs to know about a function `f` of the system `S` evaluated on the JOINT data
`D` (first `nA` rows = A):
* an id constructor other than `wthh_id` is marked; the only marked argument an id constructor may
  consume is the first argument of `bg_id`; on the evaluated arguments the validity hypothesis
  `pi_Valid` and the separation hypothesis `ui_Sep` of the constructor hold (for `bg_id` moreover
  the fg ids are non-negative);
* a grouped aggregation is not marked and consumes a marked node at most as LAST argument; if its
  last argument is NOT marked (a data column, `wthh_id`, …) it never evaluates to a column in which
  an id of the first `nA` rows occurs among the remaining rows;
* every other function is a rule with declared return type (whose Python function has at least one
  argument, or which has no input node at all), a time conversion or `sum_by_p_id`, is not marked and
  consumes no marked node; for `sum_by_p_id` the
  third argument never evaluates to a column with duplicates and both parts are closed under the
  pointer column (second argument). -/
def ui_GoodFn (params : List (String × Val)) (isId : String → Bool) (S : Dag.Sys Col)
    (D : Dag.Data Col) (nA : Nat) (f : Fn) : Prop :=
  match f.kind with
  | .grouping g =>
    isId f.name = (g != .wthh) ∧
    (∀ i d, (freeArgs params f)[i]? = some d → isId d = true → g = .bg ∧ i = 0) ∧
    (∀ k args, Dag.evalAll (Dag.eval S D k) (freeArgs params f) = .ok args →
      pi_Valid g args ∧ ui_Sep g nA args ∧
        (g = .bg → ∀ c, args[0]? = some c → ∀ x ∈ c.ints, 0 ≤ x))
  | .groupAgg _ _ _ =>
    isId f.name = false ∧
    (∀ i d, (freeArgs params f)[i]? = some d → isId d = true →
      i + 1 = (freeArgs params f).length) ∧
    (∀ d, (freeArgs params f).getLast? = some d → isId d = false →
      ∀ k v, Dag.eval S D k d = .ok v → un_IdsSep nA v.ints)
  | _ =>
    f.kind.permOK = true ∧ (f.kind.ui_ruleArgs ∨ freeArgs params f = []) ∧ isId f.name = false ∧
    (∀ d ∈ freeArgs params f, isId d = false) ∧
    (f.kind.isPidSum = true → ∀ d, (freeArgs params f)[2]? = some d →
      ∀ k v, Dag.eval S D k d = .ok v → v.ints.Nodup) ∧
    (f.kind.isPidSum = true → ∀ d1 d2, (freeArgs params f)[1]? = some d1 →
      (freeArgs params f)[2]? = some d2 → ∀ k v1 v2, Dag.eval S D k d1 = .ok v1 →
        Dag.eval S D k d2 = .ok v2 → un_PtrsClosed nA v1.ints v2.ints)

/-- the step of the lift for a rule / time conversion / `sum_by_p_id` -/
theorem ui_step_plain {nA nB : Nat}
    (params : List (String × Val)) (specs : List (String × RSpec)) (isId : String → Bool)
    (S : Dag.Sys Col) (D : Dag.Data Col) (f : Fn) (hk : f.kind.permOK = true)
    (hr : f.kind.ui_ruleArgs ∨ freeArgs params f = []) (hga : f.kind.un_isGroupAgg = false)
    (hid : isId f.name = false) (hu : ∀ d ∈ freeArgs params f, isId d = false)
    (hpid : f.kind.isPidSum = true → ∀ d, (freeArgs params f)[2]? = some d →
      ∀ k v, Dag.eval S D k d = .ok v → v.ints.Nodup)
    (hcl : f.kind.isPidSum = true → ∀ d1 d2, (freeArgs params f)[1]? = some d1 →
      (freeArgs params f)[2]? = some d2 → ∀ k v1 v2, Dag.eval S D k d1 = .ok v1 →
        Dag.eval S D k d2 = .ok v2 → un_PtrsClosed nA v1.ints v2.ints)
    {k : Nat} {args args' : List Col} {v : Col}
    (hF : List.Forall₂ (fun d a => Dag.eval S D k d = .ok a) (freeArgs params f) args)
    (hrel : Dag.ArgsRel (ui_Inv nA nB isId) (freeArgs params f) args args')
    (h : (nodeOf params specs f).op args = .ok v) :
    ∃ v', (nodeOf params specs f).op args' = .ok v' ∧ ui_Inv nA nB isId f.name v v' := by
  rw [ui_argsRel_unmarked hrel hu]
  have hok := ui_argsRel_colsOK hrel
  have hr' : f.kind.ui_ruleArgs ∨ ∀ c ∈ args, c.scalar = true := by
    rcases hr with hr | hr
    · exact Or.inl hr
    · right
      have hl := hF.length_eq
      rw [hr] at hl
      have : args = [] := List.eq_nil_of_length_eq_zero hl.symm
      rw [this]
      intro c hc
      cases hc
  obtain ⟨h1, h2⟩ := ui_nodeOf_take params specs f hk hr' hga hok
    (fun hp pid hpid2 => by
      obtain ⟨d, hd, hda⟩ := forall₂_getElem?_right hF hpid2
      exact hpid hp d hd k pid hda)
    (fun hp ptr pid hptr hpid2 _ _ => by
      obtain ⟨d1, hd1, hda1⟩ := forall₂_getElem?_right hF hptr
      obtain ⟨d2, hd2, hda2⟩ := forall₂_getElem?_right hF hpid2
      exact un_PtrClosed_take (hpid hp d2 hd2 k pid hda2)
        (hcl hp d1 d2 hd1 hd2 k ptr pid hda1 hda2)) h
  refine ⟨_, h1, h2, ?_⟩
  rw [if_neg (by simp [hid])]

/-- the step of the lift for a grouped aggregation -/
theorem ui_step_groupAgg {nA nB : Nat} (isId : String → Bool) (name : String) (a : Aggr)
    (ds : List String) (hid : isId name = false)
    (hm : ∀ i d, ds[i]? = some d → isId d = true → i + 1 = ds.length)
    {args args' : List Col} {v : Col}
    (hsepU : ∀ d c, ds.getLast? = some d → isId d = false → args.getLast? = some c →
      un_IdsSep nA c.ints)
    (hrel : Dag.ArgsRel (ui_Inv nA nB isId) ds args args')
    (h : groupAggOp a args = .ok v) :
    ∃ v', groupAggOp a args' = .ok v' ∧ ui_Inv nA nB isId name v v' := by
  have hok := ui_argsRel_colsOK hrel
  have fin : ∀ {v'}, v' = v.takeRows nA ∧ ColOK (nA + nB) v → ui_Inv nA nB isId name v v' := by
    intro v' hv
    refine ⟨hv.2, ?_⟩
    rw [if_neg (by simp [hid])]
    exact hv.1
  match ds, args, args', hrel, hsepU with
  | [], _, _, .nil, _ => simp [groupAggOp] at h
  | [d0], _, _, .cons (a := g) (a' := g') r0 .nil, hsepU =>
    cases hi : isId d0 with
    | true =>
      obtain ⟨hsp, hn, hn', _, hsI⟩ := r0.marked hi
      obtain ⟨h1, h2⟩ := ui_groupAggOp_one_take a hok hsI h
      rw [pi_groupAggOp_one_congr a hsp (ui_nonneg_takeRows hn) hn'] at h1
      exact ⟨_, h1, fin ⟨rfl, h2⟩⟩
    | false =>
      rw [r0.unmarked hi]
      obtain ⟨h1, h2⟩ := ui_groupAggOp_one_take a hok (hsepU d0 g rfl hi rfl) h
      exact ⟨_, h1, fin ⟨rfl, h2⟩⟩
  | [d0, d1], _, _, .cons (a := c) (a' := c') r0 (.cons (a := g) (a' := g') r1 .nil), hsepU =>
    have hi0 : isId d0 = false := by
      cases hi : isId d0 with
      | false => rfl
      | true => have := hm 0 d0 rfl hi; simp at this
    rw [r0.unmarked hi0]
    cases hi : isId d1 with
    | true =>
      obtain ⟨hsp, hn, hn', _, hsI⟩ := r1.marked hi
      obtain ⟨h1, h2⟩ := ui_groupAggOp_two_take a hok hsI h
      rw [pi_groupAggOp_two_congr a _ hsp (ui_nonneg_takeRows hn) hn'] at h1
      exact ⟨_, h1, fin ⟨rfl, h2⟩⟩
    | false =>
      rw [r1.unmarked hi]
      obtain ⟨h1, h2⟩ := ui_groupAggOp_two_take a hok (hsepU d1 g rfl hi rfl) h
      exact ⟨_, h1, fin ⟨rfl, h2⟩⟩
  | _ :: _ :: _ :: _, _, _, .cons _ (.cons _ (.cons _ _)), _ => simp [groupAggOp] at h

/-- the step of the lift for an id constructor -/
theorem ui_step_grouping {nA nB : Nat} (isId : String → Bool) (name : String) (g : Grouping)
    (ds : List String) (hid : isId name = (g != .wthh))
    (hm : ∀ i d, ds[i]? = some d → isId d = true → g = .bg ∧ i = 0)
    {args args' : List Col} {v : Col}
    (hrel : Dag.ArgsRel (ui_Inv nA nB isId) ds args args') (hv : pi_Valid g args)
    (hsep : ui_Sep g nA args)
    (hbg : g = .bg → ∀ c, args[0]? = some c → ∀ x ∈ c.ints, 0 ≤ x)
    (h : groupingOp g args = .ok v) :
    ∃ v', groupingOp g args' = .ok v' ∧ ui_Inv nA nB isId name v v' := by
  have hok := ui_argsRel_colsOK hrel
  have hns := pi_Valid_nonscalar hv
  obtain ⟨_, _, _, hokv⟩ :=
    pi_groupingOp_perm (List.Perm.refl (List.range (nA + nB))) g hok hv h
  by_cases hgb : g = .bg
  · subst hgb
    have hid' : isId name = true := by rw [hid]; rfl
    match args, hv, hsep, ds, args', hrel with
    | [fg, alter, eigen], ⟨h0, h1, h2, hs⟩, hsep, [d0, d1, d2], _,
        .cons (a' := fg') r0 (.cons (a' := alter') r1 (.cons (a' := eigen') r2 .nil)) =>
      have hi1 : isId d1 = false := by
        cases hi : isId d1 with
        | false => rfl
        | true => have := (hm 1 d1 rfl hi).2; simp at this
      have hi2 : isId d2 = false := by
        cases hi : isId d2 with
        | false => rfl
        | true => have := (hm 2 d2 rfl hi).2; simp at this
      rw [r1.unmarked hi1, r2.unmarked hi2]
      have hn : ∀ x ∈ fg.ints, 0 ≤ x := hbg rfl fg rfl
      have hchk := pi_groupingOp_colChk h0 (by simp [h1, h2]) h
      have hc0 : pi_colChk fg = false := by
        simp only [pi_intChk, List.any_cons, Bool.or_eq_false_iff] at hchk
        exact hchk.1
      have hfacts : Col.SamePart (fg.takeRows nA) fg' ∧ (∀ x ∈ fg'.ints, 0 ≤ x) ∧
          pi_colChk fg' = false := by
        cases hi : isId d0 with
        | true =>
          obtain ⟨hsp, _, hn', hc, _⟩ := r0.marked hi
          exact ⟨hsp, hn', hc⟩
        | false =>
          rw [r0.unmarked hi]
          exact ⟨Col.SamePart.refl _, ui_nonneg_takeRows hn, ui_colChk_take nA hc0⟩
      obtain ⟨hsp, hn', hc'⟩ := hfacts
      obtain ⟨hA1, hA2, hA3⟩ := ui_bg_union (nB := nB) hok ⟨h0, h1, h2, hs⟩ hsep h
      have hcA := ui_colsOK_take (nA := nA) hok
      simp only [List.map_cons, List.map_nil] at hA1 hA3 hcA
      obtain ⟨h0A, h1A, h2A, hsA⟩ := hA3
      obtain ⟨outA, hoA, hspA, _⟩ := pi_bg_congr hcA h0A h1A h2A hsp hc' hsA hA1
      have h0' : fg'.scalar = false := by rw [← hsp.scalar_eq]; exact h0A
      refine ⟨outA, hoA, hokv, ?_⟩
      rw [if_pos hid']
      refine ⟨hspA, pi_bg_out_nonneg h0 h1 h2 hn h, pi_bg_out_nonneg h0' h1A h2A hn' hoA, ?_, hA2⟩
      exact pi_groupingOp_out' (by
        intro c hc; simp at hc; rcases hc with rfl | rfl | rfl <;> assumption) hoA
  · have hu : ∀ d ∈ ds, isId d = false := by
      intro d hd
      obtain ⟨i, hi⟩ := List.getElem?_of_mem hd
      cases hd' : isId d with
      | false => rfl
      | true => exact absurd (hm i d hi hd').1 hgb
    rw [ui_argsRel_unmarked hrel hu]
    obtain ⟨outA, hA1, hA2, hA3, hA4, hA5⟩ := ui_groupingOp_union (nB := nB) g hok hv hsep h
    refine ⟨outA, hA1, hokv, ?_⟩
    by_cases hw : g = .wthh
    · subst hw
      rw [if_neg (by rw [hid]; decide)]
      exact hA5 (Or.inr rfl)
    · have hid' : isId name = true := by
        rw [hid]
        cases g <;> first | rfl | exact absurd rfl hw
      rw [if_pos hid']
      refine ⟨hA2, ui_grouping_nonneg g ⟨hgb, hw⟩ hok hv h,
        ui_grouping_nonneg g ⟨hgb, hw⟩ (ui_colsOK_take hok) hA4 hA1, ?_, hA3⟩
      exact pi_groupingOp_out' (fun c hc => by
        obtain ⟨c0, hc0, rfl⟩ := List.mem_map.1 hc
        rw [ui_scalar_takeRows]; exact hns c0 hc0) hA1

/-- one node of the system: related arguments give related results -/
theorem ui_step {nA nB : Nat}
    (params : List (String × Val)) (specs : List (String × RSpec)) (isId : String → Bool)
    (S : Dag.Sys Col) (D : Dag.Data Col) (f : Fn) (hf : ui_GoodFn params isId S D nA f)
    {k : Nat} {args args' : List Col} {v : Col}
    (hargs : Dag.evalAll (Dag.eval S D k) (freeArgs params f) = .ok args)
    (hrel : Dag.ArgsRel (ui_Inv nA nB isId) (freeArgs params f) args args')
    (h : (nodeOf params specs f).op args = .ok v) :
    ∃ v', (nodeOf params specs f).op args' = .ok v' ∧ ui_Inv nA nB isId f.name v v' := by
  have hF := (Dag.evalAll_ok_iff _ _ _).1 hargs
  obtain ⟨name, fargs, ann, kind⟩ := f
  cases kind with
  | rule fn ret key =>
    obtain ⟨hk, hr, hid, hu, hpid, hcl⟩ := hf
    exact ui_step_plain params specs isId S D _ hk hr rfl hid hu hpid hcl hF hrel h
  | pidSum src ptr =>
    obtain ⟨hk, hr, hid, hu, hpid, hcl⟩ := hf
    exact ui_step_plain params specs isId S D _ hk hr rfl hid hu hpid hcl hF hrel h
  | timeConv src u u2 =>
    obtain ⟨hk, hr, hid, hu, hpid, hcl⟩ := hf
    exact ui_step_plain params specs isId S D _ hk hr rfl hid hu hpid hcl hF hrel h
  | groupAgg a src gid =>
    obtain ⟨hid, hm, hsepU⟩ := hf
    refine ui_step_groupAgg isId name a _ hid hm ?_ hrel h
    intro d c hd hi hc
    obtain ⟨d', hd', hda⟩ := un_forall₂_getLast? hF hc
    rw [hd] at hd'
    cases hd'
    exact hsepU d hd hi k c hda
  | grouping g =>
    obtain ⟨hid, hm, hval⟩ := hf
    obtain ⟨hv, hsep, hbg⟩ := hval k args hargs
    exact ui_step_grouping isId name g _ hid hm hrel hv hsep hbg h

/-- the lift: every node evaluated on the joint table is evaluated on the first `nA` rows alone, and
the two values are related by the invariant -/
theorem ui_sys_eval_union_ids {nA nB : Nat}
    (params : List (String × Val)) (specs : List (String × RSpec)) (fns : List Fn)
    (isId : String → Bool) (D : Dag.Data Col)
    (hfns : ∀ f ∈ fns, ui_GoodFn params isId (sysOf params specs fns) D nA f)
    (hD : ColsOK (nA + nB) (D.map (·.2))) (hDid : ∀ p ∈ D, isId p.1 = false) :
    ∀ (k : Nat) (t : String) (v : Col), Dag.eval (sysOf params specs fns) D k t = .ok v →
      ∃ v', Dag.eval (sysOf params specs fns) (un_takeData nA D) k t = .ok v' ∧
        ui_Inv nA nB isId t v v' := by
  rw [← un_permData_take hD (Nat.le_add_right nA nB)]
  intro k
  induction k with
  | zero => intro t v h; simp [Dag.eval] at h
  | succ k ih =>
    intro t v h
    cases hDt : Dag.find? D t with
    | some c =>
      rw [Dag.eval_succ_of_data hDt] at h
      cases h
      have hD' : Dag.find? (permData (un_win 0 nA) D) t = some (v.permute (un_win 0 nA)) := by
        rw [find?_permData, hDt]; rfl
      have hmem := Dag.find?_mem D t v hDt
      have hcv := hD v (List.mem_map.2 ⟨(t, v), hmem, rfl⟩)
      refine ⟨_, Dag.eval_succ_of_data hD', hcv, ?_⟩
      rw [if_neg (by simp [hDid (t, v) hmem]), un_permute_take hcv (Nat.le_add_right nA nB)]
    | none =>
      have hD' : Dag.find? (permData (un_win 0 nA) D) t = none := by
        rw [find?_permData, hDt]; rfl
      cases hSt : Dag.find? (sysOf params specs fns) t with
      | none => rw [Dag.eval_succ_of_missing hDt hSt] at h; cases h
      | some node =>
        obtain ⟨f, hf, rfl, rfl⟩ := pi_sysOf_find? params specs fns t node hSt
        rw [Dag.eval_succ_of_node hDt hSt] at h
        rw [Dag.eval_succ_of_node hD' hSt]
        obtain ⟨args, hargs, h⟩ := bind_ok h
        obtain ⟨args', hargs', hrel⟩ := Dag.evalAll_rel_ok
          (R := ui_Inv nA nB isId) (fun d _ a ha => ih d a ha) hargs
        rw [hargs', ok_bind]
        exact ui_step params specs isId _ D f (hfns f hf) hargs hrel h

end GV.Simulate
