import GettsimVerif.Lemmas.SimPermIds
import GettsimVerif.Lemmas.SimUnion
/-
Helper lemmas for property C02 (separability) on the id constructors of `groupings.py` inside the
concrete model `Core/Simulate.lean`: the group ids COMPUTED on a joint table `A ++ B` (`nA + nB`
rows), restricted to the `A`-rows, induce the same partition as the ids computed on `A` alone, and
no id of an `A`-row is the id of a `B`-row.
-/
namespace GV.Simulate
open GV.VecDtype (R DT numOf)
open GV.Lang (Val FunDef)
open GV.Groupings

/-! ## lists -/

theorem ui_take_zip {α β : Type} (a : List α) (b : List β) (n : Nat) :
    (a.zip b).take n = (a.take n).zip (b.take n) := by
  simp only [List.zip, List.take_zipWith]

theorem ui_nodup_disj {α β : Type} {f : α → β} {A B : List α} (hn : ((A ++ B).map f).Nodup)
    {a b : α} (ha : a ∈ A) (hb : b ∈ B) : f a ≠ f b := by
  rw [List.map_append, List.nodup_append] at hn
  exact hn.2.2 (f a) (List.mem_map_of_mem ha) (f b) (List.mem_map_of_mem hb)

/-- index form of `un_IdsSep` -/
theorem ui_idsSep_of_ne {nA : Nat} {res : List Int}
    (h : ∀ i j (_ : i < nA) (_ : nA ≤ j) (hj' : j < res.length), res[i]'(by omega) ≠ res[j]) :
    un_IdsSep nA res := by
  intro g hg hg'
  obtain ⟨i, hi, rfl⟩ := List.getElem_of_mem hg
  obtain ⟨k, hk, e⟩ := List.getElem_of_mem hg'
  simp only [List.length_take, List.length_drop] at hi hk
  simp only [List.getElem_take, List.getElem_drop] at e
  exact h i (nA + k) (by omega) (by omega) (by omega) e.symm

theorem ui_idsSep_index {nA : Nat} {res : List Int} (h : un_IdsSep nA res) {i j : Nat}
    (hi : i < nA) (hj : nA ≤ j) (hj' : j < res.length) : res[i]'(by omega) ≠ res[j] := by
  intro e
  refine h (res[i]'(by omega)) ?_ ?_
  · exact List.mem_take_iff_getElem.mpr ⟨i, by omega, rfl⟩
  · rw [e]
    exact List.mem_drop_iff_getElem.mpr ⟨j - nA, by omega, by simp [Nat.add_sub_cancel' hj]⟩

/-- the generic step: an id list that is characterised, as a partition, by a relation on the rows -/
theorem ui_of_spec {ρ : Type} {A B : List ρ} {res resA : List Int} (Rel RelA : ρ → ρ → Prop)
    (hl : res.length = (A ++ B).length) (hlA : resA.length = A.length)
    (hs : ∀ i (hi : i < (A ++ B).length) j (hj : j < (A ++ B).length),
      res[i] = res[j] ↔ Rel (A ++ B)[i] (A ++ B)[j])
    (hsA : ∀ i (hi : i < A.length) j (hj : j < A.length), resA[i] = resA[j] ↔ RelA A[i] A[j])
    (hRA : ∀ a ∈ A, ∀ a' ∈ A, (Rel a a' ↔ RelA a a'))
    (hRB : ∀ a ∈ A, ∀ b ∈ B, ¬ Rel a b) :
    SamePartition (res.take A.length) resA ∧ un_IdsSep A.length res := by
  have hlen : (A ++ B).length = A.length + B.length := List.length_append
  constructor
  · apply SamePartition.of_getElem (by rw [List.length_take, hl, hlA, hlen]; omega)
    intro i j hi hj
    have hi' : i < A.length := by rw [List.length_take] at hi; omega
    have hj' : j < A.length := by rw [List.length_take] at hj; omega
    rw [List.getElem_take, List.getElem_take, hs i (by omega) j (by omega), hsA i hi' j hj',
      List.getElem_append_left hi', List.getElem_append_left hj']
    exact hRA _ (List.getElem_mem _) _ (List.getElem_mem _)
  · apply ui_idsSep_of_ne
    intro i j hi hj hj' e
    rw [hs i (by omega) j (by omega), List.getElem_append_left hi, List.getElem_append_right hj] at e
    exact hRB _ (List.getElem_mem _) _ (List.getElem_mem _) e

/-! ## the constructors on row lists `A ++ B` -/

theorem ui_pair_notSame {A B : List (Int × Int)} (hv : ValidRows (A ++ B)) (hc : PairClosed A B) :
    ∀ a ∈ A, ∀ b ∈ B, ¬ PairSame a b := by
  intro a ha b hb h
  rcases h with h | h
  · exact ui_nodup_disj hv.nodup ha hb h
  · exact hc a ha b hb h

theorem ui_pairIdRows_union {A B : List (Int × Int)} (hv : ValidRows (A ++ B))
    (hc : PairClosed A B) :
    SamePartition ((pairIdRows (A ++ B)).take A.length) (pairIdRows A) ∧
      un_IdsSep A.length (pairIdRows (A ++ B)) :=
  ui_of_spec PairSame PairSame (pairIdRows_length _) (pairIdRows_length _)
    (fun _ hi _ hj => pairIdRows_spec hv hi hj)
    (fun _ hi _ hj => pairIdRows_spec (hv.of_append_left hc) hi hj)
    (fun _ _ _ _ => Iff.rfl) (ui_pair_notSame hv hc)

theorem ui_sn_notSame {A B : List (Int × Int × Bool)} (hv : ValidRows3 (A ++ B))
    (hc : SnClosed A B) : ∀ a ∈ A, ∀ b ∈ B, ¬ SnSame a b := by
  intro a ha b hb h
  rcases h with h | h
  · exact ui_nodup_disj hv.nodup ha hb h
  · exact hc a ha b hb h.1

theorem ui_snIdRows_union {A B : List (Int × Int × Bool)} (hv : ValidRows3 (A ++ B))
    (hc : SnClosed A B) {res : List Int} (h : snIdRows (A ++ B) = .ok res) :
    ∃ resA, snIdRows A = .ok resA ∧ SamePartition (res.take A.length) resA ∧
      un_IdsSep A.length res := by
  have hag : SnAgree (A ++ B) := by
    by_contra hna
    rw [(snIdRows_error_iff hv).2 hna] at h
    cases h
  obtain ⟨res', hres, hl, hs⟩ := snIdRows_spec hv hag
  rw [h] at hres
  cases hres
  obtain ⟨resA, hresA, hlA, hsA⟩ := snIdRows_spec (hv.of_append_left hc) hag.of_append_left
  exact ⟨resA, hresA, ui_of_spec SnSame SnSame hl hlA hs hsA (fun _ _ _ _ => Iff.rfl)
    (ui_sn_notSame hv hc)⟩

theorem ui_not_coupled {A B : List Person} (hs : FgSeparated A B)
    (hn : ((A ++ B).map (·.pid)).Nodup) {a b : Person} (ha : a ∈ A) (hb : b ∈ B) :
    ¬ Coupled a b := by
  rintro (h | h)
  · exact ui_nodup_disj hn ha hb (by rw [h])
  · exact hs.partner a ha b hb h

theorem ui_fg_notSame {A B : List Person} (hs : FgSeparated A B) (hv : ValidPersons (A ++ B)) :
    ∀ a ∈ A, ∀ b ∈ B, ¬ FgSame (A ++ B) a b := by
  intro a ha b hb h
  have inA : ∀ {p : Person}, p ∈ A ++ B → IsParentPtr a p.pid → p ∈ A := by
    intro p hp h'
    rcases List.mem_append.mp hp with h1 | h1
    · exact h1
    · exact absurd h' (hs.parentAB a ha p h1)
  have inB : ∀ {p : Person}, p ∈ A ++ B → IsParentPtr b p.pid → p ∈ B := by
    intro p hp h'
    rcases List.mem_append.mp hp with h1 | h1
    · exact absurd h' (hs.parentBA p h1 b hb)
    · exact h1
  rcases h with h | ⟨p, hp, h1, h2⟩ | ⟨p, hp, h1, h2⟩ | ⟨p, hp, q, hq, h1, h2, h3⟩
  · exact ui_not_coupled hs hv.nodup ha hb h
  · exact ui_not_coupled hs hv.nodup (inA hp h1.2.1) hb h2
  · exact ui_not_coupled hs hv.nodup ha (inB hp h1.2.1)
      (coupled_symm hv hp (List.mem_append_left _ ha) h2)
  · exact ui_not_coupled hs hv.nodup (inA hp h1.2.1) (inB hq h2.2.1) h3

theorem ui_fgId_union {A B : List Person} (hsep : FgSeparated A B) (hv : ValidPersons (A ++ B))
    (h7 : ValidDependents (A ++ B)) {res : List Int} (h : fgId true (A ++ B) = .ok res) :
    ∃ resA, fgId true A = .ok resA ∧ SamePartition (res.take A.length) resA ∧
      un_IdsSep A.length res := by
  obtain ⟨res', hres, hl, hs⟩ := fg_spec hv h7
  rw [h] at hres
  cases hres
  obtain ⟨resA, hresA, hlA, hsA⟩ := fg_spec (hv.of_append_left hsep) (h7.of_append_left hsep)
  exact ⟨resA, hresA, ui_of_spec (FgSame (A ++ B)) (FgSame A) hl hlA hs hsA
    (fun _ ha _ ha' => fgSame_append_left hsep ha ha') (ui_fg_notSame hsep hv)⟩

theorem ui_bgSmall_left {A B : List (Int × Int × Bool)} (hs : BgSmall (A ++ B)) : BgSmall A := by
  intro r hr
  have := hs r (List.mem_append_left _ hr)
  rw [List.countP_append] at this
  omega

theorem ui_bgIdRows_union (A B : List (Int × Int × Bool)) (hs : BgSmall (A ++ B))
    (hd : ∀ a ∈ A, ∀ b ∈ B, b.1 ≠ a.1) :
    (bgIdRows (A ++ B)).take A.length = bgIdRows A ∧ un_IdsSep A.length (bgIdRows (A ++ B)) := by
  have hlen : (A ++ B).length = A.length + B.length := List.length_append
  constructor
  · apply List.ext_getElem
    · rw [List.length_take, bgIdRows_length, bgIdRows_length, hlen]; omega
    · intro i h1 h2
      rw [bgIdRows_length] at h2
      rw [List.getElem_take]
      exact bgIdRows_append_left A B h2
  · apply ui_idsSep_of_ne
    intro i j hi hj hj' e
    rw [bgIdRows_length] at hj'
    rw [bgIdRows_spec hs (by omega) hj', List.getElem_append_left hi,
      List.getElem_append_right hj] at e
    exact hd _ (List.getElem_mem _) _ (List.getElem_mem _) e.1.symm

theorem ui_wthhIdRows_union (A B : List (Int × Bool × Bool)) (hd : ∀ a ∈ A, ∀ b ∈ B, b.1 ≠ a.1) :
    (wthhIdRows (A ++ B)).take A.length = wthhIdRows A ∧
      un_IdsSep A.length (wthhIdRows (A ++ B)) := by
  have hlen : (A ++ B).length = A.length + B.length := List.length_append
  constructor
  · rw [wthhIdRows_eq_map, wthhIdRows_eq_map, List.map_append]
    exact List.take_left' (by simp)
  · apply ui_idsSep_of_ne
    intro i j hi hj hj' e
    rw [wthhIdRows_length] at hj'
    rw [wthhIdRows_spec (by omega) hj', List.getElem_append_left hi,
      List.getElem_append_right hj] at e
    exact hd _ (List.getElem_mem _) _ (List.getElem_mem _) e.1.symm

/-- first components: "no value of the first `nA` rows occurs among the remaining rows" -/
theorem ui_fst_disj {β : Type} {nA : Nat} {rows : List (Int × β)}
    (h : un_IdsSep nA (rows.map (·.1))) : ∀ a ∈ rows.take nA, ∀ b ∈ rows.drop nA, b.1 ≠ a.1 := by
  intro a ha b hb e
  refine h a.1 ?_ ?_
  · rw [← List.map_take]; exact List.mem_map_of_mem ha
  · rw [← List.map_drop, ← e]; exact List.mem_map_of_mem hb

/-! ## columns: restriction to the first `nA` rows -/

theorem ui_scalar_takeRows (n : Nat) (c : Col) : (c.takeRows n).scalar = c.scalar := by
  unfold Col.takeRows; split <;> rfl

theorem ui_dt_takeRows (n : Nat) (c : Col) : (c.takeRows n).dt = c.dt := by
  unfold Col.takeRows; split <;> rfl

theorem ui_shape_takeRows (n : Nat) (c : Col) : (c.takeRows n).shape = c.shape := by
  unfold Col.takeRows; split <;> rfl

theorem ui_bools_takeRows {n : Nat} {c : Col} (hs : c.scalar = false) :
    (c.takeRows n).bools = c.bools.take n := by
  simp [Col.takeRows, hs, Col.bools, List.map_take]

theorem ui_ints_take (vs : List Int) (dt : DT) (n : Nat) :
    (pi_ints vs dt).takeRows n = pi_ints (vs.take n) dt := by
  unfold Col.takeRows
  rw [pi_ints_scalar]
  simp [pi_ints, List.map_take]

theorem ui_colOK_take {nA nB : Nat} {c : Col} (hc : ColOK (nA + nB) c) : ColOK nA (c.takeRows nA) := by
  intro hs
  rw [ui_scalar_takeRows] at hs
  simp [Col.takeRows, hs, hc hs]

theorem ui_colsOK_take {nA nB : Nat} {cols : List Col} (hc : ColsOK (nA + nB) cols) :
    ColsOK nA (cols.map (Col.takeRows nA)) := by
  intro c hcm
  obtain ⟨c0, h0, rfl⟩ := List.mem_map.mp hcm
  exact ui_colOK_take (hc c0 h0)

theorem ui_colChk_take (n : Nat) {c : Col} (h : pi_colChk c = false) :
    pi_colChk (c.takeRows n) = false := by
  cases hs : c.scalar with
  | true => rw [Col.takeRows_of_scalar hs]; exact h
  | false =>
    simp only [pi_colChk, ui_dt_takeRows, Bool.and_eq_false_iff, Bool.not_eq_false',
      List.all_eq_true] at h ⊢
    rcases h with h | h
    · exact Or.inl h
    · right
      intro q hq
      have : (c.takeRows n).rats = c.rats.take n := by
        simp [Col.takeRows, hs, Col.rats, List.map_take]
      rw [this] at hq
      exact h q (List.mem_of_mem_take hq)

theorem ui_intChk_take (n : Nat) {cols : List Col} (h : pi_intChk cols = false) :
    pi_intChk (cols.map (Col.takeRows n)) = false := by
  simp only [pi_intChk, List.any_eq_false, List.mem_map, forall_exists_index, and_imp,
    forall_apply_eq_imp_iff₂] at h ⊢
  intro c hcm
  have := ui_colChk_take n (c := c) (by simpa using h c hcm)
  simp [this]

theorem ui_nonneg_takeRows {n : Nat} {c : Col} (h : ∀ x ∈ c.ints, 0 ≤ x) :
    ∀ x ∈ (c.takeRows n).ints, 0 ≤ x := by
  cases hs : c.scalar with
  | true => rw [Col.takeRows_of_scalar hs]; exact h
  | false =>
    rw [un_ints_takeRows hs]
    exact fun x hx => h x (List.mem_of_mem_take hx)

theorem ui_wthhId_rows (a : List Int) (b c : List Bool) (h : a.length = b.length)
    (h' : a.length = c.length) : wthhId a b c = wthhIdRows (a.zip (b.zip c)) := by
  obtain ⟨h1, h2, h3⟩ := pi_unzip3 a b c h h'
  unfold wthhIdRows
  rw [h1, h2, h3]

theorem ui_length_take_of {α : Type} {nA nB : Nat} {l : List α} (h : l.length = nA + nB) :
    (l.take nA).length = nA := by
  rw [List.length_take, h]; omega

/-! ## the separation hypotheses on the input columns -/

/-- `eg_id` / `ehe_id`: no pointer of one of the first `nA` rows is the p_id of a later row
(`PairClosed` of `pairId_union`) -/
def ui_SepPair (nA : Nat) : List Col → Prop
  | [pid, partner] =>
    PairClosed ((pid.ints.zip partner.ints).take nA) ((pid.ints.zip partner.ints).drop nA)
  | _ => False

/-- `sn_id`: `SnClosed` of `snId_union` -/
def ui_SepSn (nA : Nat) : List Col → Prop
  | [pid, partner, gv] =>
    SnClosed ((pid.ints.zip (partner.ints.zip gv.bools)).take nA)
      ((pid.ints.zip (partner.ints.zip gv.bools)).drop nA)
  | _ => False

/-- `fg_id`: `FgSeparated` of `fg_union` -/
def ui_SepFg (nA : Nat) : List Col → Prop
  | [pid, hh, alter, partner, e1, e2] =>
    FgSeparated ((pi_persons pid hh alter partner e1 e2).take nA)
      ((pi_persons pid hh alter partner e1 e2).drop nA)
  | _ => False

/-- `bg_id` / `wthh_id`: no value of the first column (`fg_id` resp. `hh_id`) of the first `nA` rows
occurs among the remaining rows -/
def ui_SepFst (nA : Nat) : List Col → Prop
  | [c0, _, _] => un_IdsSep nA c0.ints
  | _ => False

/-- the separation hypothesis of the C12Cor union theorem of the constructor `g`, on the columns -/
def ui_Sep (g : Grouping) (nA : Nat) (cols : List Col) : Prop :=
  match g with
  | .eg => ui_SepPair nA cols
  | .ehe => ui_SepPair nA cols
  | .sn => ui_SepSn nA cols
  | .fg => ui_SepFg nA cols
  | .bg => ui_SepFst nA cols
  | .wthh => ui_SepFst nA cols

/-! ## the constructors on columns -/

theorem ui_pair_union {nA nB : Nat} (g : Grouping) (hg : g = .eg ∨ g = .ehe) {cols : List Col}
    {out : Col} (hcols : ColsOK (nA + nB) cols) (hv : pi_ValidPair cols)
    (hsep : ui_SepPair nA cols) (h : groupingOp g cols = .ok out) :
    ∃ outA, groupingOp g (cols.map (Col.takeRows nA)) = .ok outA ∧
      Col.SamePart (out.takeRows nA) outA ∧ un_IdsSep nA out.ints ∧
      pi_ValidPair (cols.map (Col.takeRows nA)) := by
  match cols, hcols, hv, hsep, h with
  | [pid, partner], hcols, ⟨h0, h1, hval⟩, hsep, h =>
    have hpi : pid.ints.length = nA + nB := un_ints_length (hcols pid (by simp)) h0
    have hqi : partner.ints.length = nA + nB := un_ints_length (hcols partner (by simp)) h1
    rw [pi_groupingOp_eq g pid [partner] h0 (by simp [h1])] at h
    cases hchk : pi_intChk [pid, partner] with
    | true => rw [hchk] at h; simp at h
    | false =>
      have hchk' := ui_intChk_take nA hchk
      simp only [List.map_cons, List.map_nil] at hchk' ⊢
      rw [pi_groupingOp_eq g _ [partner.takeRows nA] (by rw [ui_scalar_takeRows]; exact h0)
        (by simp [ui_scalar_takeRows, h1]), hchk']
      rw [hchk] at h
      simp only [Bool.false_eq_true, if_false] at h ⊢
      have hb : ∀ a b : Col, pi_body g [a, b] = .ok (pi_ints (pairId a.ints b.ints)) := by
        rcases hg with rfl | rfl <;> intro a b <;> rfl
      rw [hb] at h ⊢
      cases h
      obtain ⟨rows, hrows⟩ : ∃ rows, rows = pid.ints.zip partner.ints := ⟨_, rfl⟩
      have hrl : rows.length = nA + nB := by rw [hrows]; simp [hpi, hqi]
      have hAl : (rows.take nA).length = nA := ui_length_take_of hrl
      have hz : (pid.takeRows nA).ints.zip (partner.takeRows nA).ints = rows.take nA := by
        rw [un_ints_takeRows h0, un_ints_takeRows h1, hrows, ui_take_zip]
      have hvAB : ValidRows (rows.take nA ++ rows.drop nA) := by
        rw [List.take_append_drop, hrows]; exact hval
      have hc : PairClosed (rows.take nA) (rows.drop nA) := by rw [hrows]; exact hsep
      have key := ui_pairIdRows_union hvAB hc
      rw [List.take_append_drop, hAl] at key
      have e1 : pairId pid.ints partner.ints = pairIdRows rows := by
        rw [hrows]; exact pi_pairId_rows _ _ (by rw [hpi, hqi])
      have e2 : pairId (pid.takeRows nA).ints (partner.takeRows nA).ints = pairIdRows (rows.take nA) := by
        rw [← hz]
        exact pi_pairId_rows _ _ (by rw [un_ints_takeRows h0, un_ints_takeRows h1]; simp [hpi, hqi])
      refine ⟨_, rfl, ?_, ?_, ⟨by rw [ui_scalar_takeRows]; exact h0,
        by rw [ui_scalar_takeRows]; exact h1, ?_⟩⟩
      · rw [ui_ints_take, e1, e2]
        exact pi_ints_samePart key.1 _
      · rw [pi_ints_ints, e1]; exact key.2
      · rw [hz]; exact hvAB.of_append_left hc

theorem ui_sn_union {nA nB : Nat} {cols : List Col} {out : Col}
    (hcols : ColsOK (nA + nB) cols) (hv : pi_ValidSn cols) (hsep : ui_SepSn nA cols)
    (h : groupingOp .sn cols = .ok out) :
    ∃ outA, groupingOp .sn (cols.map (Col.takeRows nA)) = .ok outA ∧
      Col.SamePart (out.takeRows nA) outA ∧ un_IdsSep nA out.ints ∧
      pi_ValidSn (cols.map (Col.takeRows nA)) := by
  match cols, hcols, hv, hsep, h with
  | [pid, partner, gv], hcols, ⟨h0, h1, h2, hval⟩, hsep, h =>
    have hpi : pid.ints.length = nA + nB := un_ints_length (hcols pid (by simp)) h0
    have hqi : partner.ints.length = nA + nB := un_ints_length (hcols partner (by simp)) h1
    have hgi : gv.bools.length = nA + nB := by
      rw [pi_bools_length, hcols gv (by simp) h2]
    rw [pi_groupingOp_eq .sn pid [partner, gv] h0 (by simp [h1, h2])] at h
    cases hchk : pi_intChk [pid, partner, gv] with
    | true => rw [hchk] at h; simp at h
    | false =>
      have hchk' := ui_intChk_take nA hchk
      simp only [List.map_cons, List.map_nil] at hchk' ⊢
      rw [pi_groupingOp_eq .sn _ [partner.takeRows nA, gv.takeRows nA]
        (by rw [ui_scalar_takeRows]; exact h0) (by simp [ui_scalar_takeRows, h1, h2]), hchk']
      rw [hchk] at h
      simp only [Bool.false_eq_true, if_false] at h ⊢
      rw [pi_body_sn] at h ⊢
      obtain ⟨res, hres, rfl⟩ := pi_bind_pure_ok h
      obtain ⟨rows, hrows⟩ : ∃ rows, rows = pid.ints.zip (partner.ints.zip gv.bools) := ⟨_, rfl⟩
      have hrl : rows.length = nA + nB := by rw [hrows]; simp [hpi, hqi, hgi]
      have hAl : (rows.take nA).length = nA := ui_length_take_of hrl
      have hz : (pid.takeRows nA).ints.zip ((partner.takeRows nA).ints.zip (gv.takeRows nA).bools) =
          rows.take nA := by
        rw [un_ints_takeRows h0, un_ints_takeRows h1, ui_bools_takeRows h2, hrows, ui_take_zip,
          ui_take_zip]
      have hvAB : ValidRows3 (rows.take nA ++ rows.drop nA) := by
        rw [List.take_append_drop, hrows]; exact hval
      have hc : SnClosed (rows.take nA) (rows.drop nA) := by rw [hrows]; exact hsep
      rw [pi_snId_rows _ _ _ (by rw [hpi, hqi]) (by rw [hpi, hgi]), ← hrows] at hres
      have hres' : snIdRows (rows.take nA ++ rows.drop nA) = .ok res := by
        rw [List.take_append_drop]; exact hres
      obtain ⟨resA, hresA, hsp, hids⟩ := ui_snIdRows_union hvAB hc hres'
      rw [hAl] at hsp hids
      have e2 : snId (pid.takeRows nA).ints (partner.takeRows nA).ints (gv.takeRows nA).bools =
          .ok resA := by
        rw [pi_snId_rows _ _ _
          (by rw [un_ints_takeRows h0, un_ints_takeRows h1]; simp [hpi, hqi])
          (by rw [un_ints_takeRows h0, ui_bools_takeRows h2]; simp [hpi, hgi]), hz]
        exact hresA
      rw [e2]
      refine ⟨_, rfl, ?_, ?_, ⟨by rw [ui_scalar_takeRows]; exact h0,
        by rw [ui_scalar_takeRows]; exact h1, by rw [ui_scalar_takeRows]; exact h2, ?_⟩⟩
      · rw [ui_ints_take]
        exact pi_ints_samePart hsp _
      · rw [pi_ints_ints]; exact hids
      · rw [hz]; exact hvAB.of_append_left hc

theorem ui_persons_take {n : Nat} {pid hh alter partner e1 e2 : Col}
    (h0 : pid.scalar = false) (h1 : hh.scalar = false) (h2 : alter.scalar = false)
    (h3 : partner.scalar = false) (h4 : e1.scalar = false) (h5 : e2.scalar = false) :
    pi_persons (pid.takeRows n) (hh.takeRows n) (alter.takeRows n) (partner.takeRows n)
      (e1.takeRows n) (e2.takeRows n) = (pi_persons pid hh alter partner e1 e2).take n := by
  simp only [pi_persons]
  rw [un_ints_takeRows h0, un_ints_takeRows h1, un_ints_takeRows h2, un_ints_takeRows h3,
    un_ints_takeRows h4, un_ints_takeRows h5, ← ui_take_zip, ← ui_take_zip, ← ui_take_zip,
    ← ui_take_zip, ← ui_take_zip, List.map_take]

theorem ui_fg_union {nA nB : Nat} {cols : List Col} {out : Col}
    (hcols : ColsOK (nA + nB) cols) (hv : pi_ValidFg cols) (hsep : ui_SepFg nA cols)
    (h : groupingOp .fg cols = .ok out) :
    ∃ outA, groupingOp .fg (cols.map (Col.takeRows nA)) = .ok outA ∧
      Col.SamePart (out.takeRows nA) outA ∧ un_IdsSep nA out.ints ∧
      pi_ValidFg (cols.map (Col.takeRows nA)) := by
  match cols, hcols, hv, hsep, h with
  | [pid, hh, alter, partner, e1, e2], hcols, ⟨h0, h1, h2, h3, h4, h5, hval, hdep⟩, hsep, h =>
    have l0 := hcols pid (by simp) h0
    have l1 := hcols hh (by simp) h1
    have l2 := hcols alter (by simp) h2
    have l3 := hcols partner (by simp) h3
    have l4 := hcols e1 (by simp) h4
    have l5 := hcols e2 (by simp) h5
    rw [pi_groupingOp_eq .fg pid _ h0 (by simp [h1, h2, h3, h4, h5])] at h
    cases hchk : pi_intChk [pid, hh, alter, partner, e1, e2] with
    | true => rw [hchk] at h; simp at h
    | false =>
      have hchk' := ui_intChk_take nA hchk
      simp only [List.map_cons, List.map_nil] at hchk' ⊢
      rw [pi_groupingOp_eq .fg _ _ (by rw [ui_scalar_takeRows]; exact h0)
        (by simp [ui_scalar_takeRows, h1, h2, h3, h4, h5]), hchk']
      rw [hchk] at h
      simp only [Bool.false_eq_true, if_false] at h ⊢
      rw [pi_body_fg] at h ⊢
      obtain ⟨res, hres, rfl⟩ := pi_bind_pure_ok h
      have hz := ui_persons_take (n := nA) h0 h1 h2 h3 h4 h5
      obtain ⟨ps, hps⟩ : ∃ ps, ps = pi_persons pid hh alter partner e1 e2 := ⟨_, rfl⟩
      have hpl : ps.length = nA + nB := by
        rw [hps]
        simp only [pi_persons, List.length_map, List.length_zip, pi_ints_length, l0, l1, l2, l3,
          l4, l5]
        omega
      have hAl : (ps.take nA).length = nA := ui_length_take_of hpl
      rw [← hps] at hz hres
      have hvAB : ValidPersons (ps.take nA ++ ps.drop nA) := by
        rw [List.take_append_drop, hps]; exact hval
      have hdAB : ValidDependents (ps.take nA ++ ps.drop nA) := by
        rw [List.take_append_drop, hps]; exact hdep
      have hc : FgSeparated (ps.take nA) (ps.drop nA) := by rw [hps]; exact hsep
      have hres' : fgId true (ps.take nA ++ ps.drop nA) = .ok res := by
        rw [List.take_append_drop]; exact hres
      obtain ⟨resA, hresA, hsp, hids⟩ := ui_fgId_union hc hvAB hdAB hres'
      rw [hAl] at hsp hids
      rw [hz, hresA]
      refine ⟨_, rfl, ?_, ?_, ⟨by rw [ui_scalar_takeRows]; exact h0,
        by rw [ui_scalar_takeRows]; exact h1, by rw [ui_scalar_takeRows]; exact h2,
        by rw [ui_scalar_takeRows]; exact h3, by rw [ui_scalar_takeRows]; exact h4,
        by rw [ui_scalar_takeRows]; exact h5, ?_, ?_⟩⟩
      · rw [ui_ints_take]
        exact pi_ints_samePart hsp _
      · rw [pi_ints_ints]; exact hids
      · rw [hz]; exact hvAB.of_append_left hc
      · rw [hz]; exact hdAB.of_append_left hc

theorem ui_bg_union {nA nB : Nat} {cols : List Col} {out : Col}
    (hcols : ColsOK (nA + nB) cols) (hv : pi_ValidBg cols) (hsep : ui_SepFst nA cols)
    (h : groupingOp .bg cols = .ok out) :
    groupingOp .bg (cols.map (Col.takeRows nA)) = .ok (out.takeRows nA) ∧
      un_IdsSep nA out.ints ∧ pi_ValidBg (cols.map (Col.takeRows nA)) := by
  match cols, hcols, hv, hsep, h with
  | [fg, alter, eigen], hcols, ⟨h0, h1, h2, hval⟩, hsep, h =>
    have hpi : fg.ints.length = nA + nB := un_ints_length (hcols fg (by simp)) h0
    have hqi : alter.ints.length = nA + nB := un_ints_length (hcols alter (by simp)) h1
    have hgi : eigen.bools.length = nA + nB := by
      rw [pi_bools_length, hcols eigen (by simp) h2]
    rw [pi_groupingOp_eq .bg fg [alter, eigen] h0 (by simp [h1, h2])] at h
    cases hchk : pi_intChk [fg, alter, eigen] with
    | true => rw [hchk] at h; simp at h
    | false =>
      have hchk' := ui_intChk_take nA hchk
      simp only [List.map_cons, List.map_nil] at hchk' ⊢
      rw [pi_groupingOp_eq .bg _ [alter.takeRows nA, eigen.takeRows nA]
        (by rw [ui_scalar_takeRows]; exact h0) (by simp [ui_scalar_takeRows, h1, h2]), hchk']
      rw [hchk] at h
      simp only [Bool.false_eq_true, if_false] at h ⊢
      rw [pi_body_bg] at h ⊢
      cases h
      obtain ⟨rows, hrows⟩ : ∃ rows, rows = fg.ints.zip (alter.ints.zip eigen.bools) := ⟨_, rfl⟩
      have hrl : rows.length = nA + nB := by rw [hrows]; simp [hpi, hqi, hgi]
      have hAl : (rows.take nA).length = nA := ui_length_take_of hrl
      have hz : (fg.takeRows nA).ints.zip ((alter.takeRows nA).ints.zip (eigen.takeRows nA).bools) =
          rows.take nA := by
        rw [un_ints_takeRows h0, un_ints_takeRows h1, ui_bools_takeRows h2, hrows, ui_take_zip,
          ui_take_zip]
      have hsAB : BgSmall (rows.take nA ++ rows.drop nA) := by
        rw [List.take_append_drop, hrows]; exact hval
      have hfst : rows.map (·.1) = fg.ints := by
        rw [hrows]; exact (pi_unzip3 _ _ _ (by rw [hpi, hqi]) (by rw [hpi, hgi])).1
      have hd : ∀ a ∈ rows.take nA, ∀ b ∈ rows.drop nA, b.1 ≠ a.1 :=
        ui_fst_disj (by rw [hfst]; exact hsep)
      have key := ui_bgIdRows_union _ _ hsAB hd
      rw [List.take_append_drop, hAl] at key
      have e1 : bgId fg.ints alter.ints eigen.bools = bgIdRows rows := by
        rw [hrows]; exact pi_bgId_rows _ _ _ (by rw [hpi, hqi]) (by rw [hpi, hgi])
      have e2 : bgId (fg.takeRows nA).ints (alter.takeRows nA).ints (eigen.takeRows nA).bools =
          bgIdRows (rows.take nA) := by
        rw [← hz]
        exact pi_bgId_rows _ _ _
          (by rw [un_ints_takeRows h0, un_ints_takeRows h1]; simp [hpi, hqi])
          (by rw [un_ints_takeRows h0, ui_bools_takeRows h2]; simp [hpi, hgi])
      refine ⟨?_, ?_, ⟨by rw [ui_scalar_takeRows]; exact h0,
        by rw [ui_scalar_takeRows]; exact h1, by rw [ui_scalar_takeRows]; exact h2, ?_⟩⟩
      · rw [ui_ints_take, e1, e2, key.1, ui_dt_takeRows]
      · rw [pi_ints_ints, e1]; exact key.2
      · rw [hz]; exact ui_bgSmall_left hsAB

theorem ui_wthh_union {nA nB : Nat} {cols : List Col} {out : Col}
    (hcols : ColsOK (nA + nB) cols) (hv : pi_ValidWthh cols) (hsep : ui_SepFst nA cols)
    (h : groupingOp .wthh cols = .ok out) :
    groupingOp .wthh (cols.map (Col.takeRows nA)) = .ok (out.takeRows nA) ∧
      un_IdsSep nA out.ints ∧ pi_ValidWthh (cols.map (Col.takeRows nA)) := by
  match cols, hcols, hv, hsep, h with
  | [hh, v1, v2], hcols, ⟨h0, h1, h2⟩, hsep, h =>
    have hpi : hh.ints.length = nA + nB := un_ints_length (hcols hh (by simp)) h0
    have hqi : v1.bools.length = nA + nB := by rw [pi_bools_length, hcols v1 (by simp) h1]
    have hgi : v2.bools.length = nA + nB := by rw [pi_bools_length, hcols v2 (by simp) h2]
    rw [pi_groupingOp_eq .wthh hh [v1, v2] h0 (by simp [h1, h2])] at h
    cases hchk : pi_intChk [hh, v1, v2] with
    | true => rw [hchk] at h; simp at h
    | false =>
      have hchk' := ui_intChk_take nA hchk
      simp only [List.map_cons, List.map_nil] at hchk' ⊢
      rw [pi_groupingOp_eq .wthh _ [v1.takeRows nA, v2.takeRows nA]
        (by rw [ui_scalar_takeRows]; exact h0) (by simp [ui_scalar_takeRows, h1, h2]), hchk']
      rw [hchk] at h
      simp only [Bool.false_eq_true, if_false] at h ⊢
      rw [pi_body_wthh] at h ⊢
      cases h
      obtain ⟨rows, hrows⟩ : ∃ rows, rows = hh.ints.zip (v1.bools.zip v2.bools) := ⟨_, rfl⟩
      have hrl : rows.length = nA + nB := by rw [hrows]; simp [hpi, hqi, hgi]
      have hAl : (rows.take nA).length = nA := ui_length_take_of hrl
      have hz : (hh.takeRows nA).ints.zip ((v1.takeRows nA).bools.zip (v2.takeRows nA).bools) =
          rows.take nA := by
        rw [un_ints_takeRows h0, ui_bools_takeRows h1, ui_bools_takeRows h2, hrows, ui_take_zip,
          ui_take_zip]
      have hfst : rows.map (·.1) = hh.ints := by
        rw [hrows]; exact (pi_unzip3 _ _ _ (by rw [hpi, hqi]) (by rw [hpi, hgi])).1
      have hd : ∀ a ∈ rows.take nA, ∀ b ∈ rows.drop nA, b.1 ≠ a.1 :=
        ui_fst_disj (by rw [hfst]; exact hsep)
      have key := ui_wthhIdRows_union _ _ hd
      rw [List.take_append_drop, hAl] at key
      have e1 : wthhId hh.ints v1.bools v2.bools = wthhIdRows rows := by
        rw [hrows]; exact ui_wthhId_rows _ _ _ (by rw [hpi, hqi]) (by rw [hpi, hgi])
      have e2 : wthhId (hh.takeRows nA).ints (v1.takeRows nA).bools (v2.takeRows nA).bools =
          wthhIdRows (rows.take nA) := by
        rw [← hz]
        exact ui_wthhId_rows _ _ _
          (by rw [un_ints_takeRows h0, ui_bools_takeRows h1]; simp [hpi, hqi])
          (by rw [un_ints_takeRows h0, ui_bools_takeRows h2]; simp [hpi, hgi])
      refine ⟨?_, ?_, ⟨by rw [ui_scalar_takeRows]; exact h0,
        by rw [ui_scalar_takeRows]; exact h1, by rw [ui_scalar_takeRows]; exact h2⟩⟩
      · rw [ui_ints_take, e1, e2, key.1, ui_dt_takeRows]
      · rw [pi_ints_ints, e1]; exact key.2

/-- all constructors together -/
theorem ui_groupingOp_union {nA nB : Nat} (g : Grouping) {cols : List Col} {out : Col}
    (hcols : ColsOK (nA + nB) cols) (hv : pi_Valid g cols) (hsep : ui_Sep g nA cols)
    (h : groupingOp g cols = .ok out) :
    ∃ outA, groupingOp g (cols.map (Col.takeRows nA)) = .ok outA ∧
      Col.SamePart (out.takeRows nA) outA ∧ un_IdsSep nA out.ints ∧
      pi_Valid g (cols.map (Col.takeRows nA)) ∧
      ((g = .bg ∨ g = .wthh) → outA = out.takeRows nA) := by
  cases g with
  | eg =>
    obtain ⟨o, a, b, c, d⟩ := ui_pair_union (nB := nB) .eg (Or.inl rfl) hcols hv hsep h
    exact ⟨o, a, b, c, d, fun hg => by rcases hg with hg | hg <;> cases hg⟩
  | ehe =>
    obtain ⟨o, a, b, c, d⟩ := ui_pair_union (nB := nB) .ehe (Or.inr rfl) hcols hv hsep h
    exact ⟨o, a, b, c, d, fun hg => by rcases hg with hg | hg <;> cases hg⟩
  | sn =>
    obtain ⟨o, a, b, c, d⟩ := ui_sn_union (nB := nB) hcols hv hsep h
    exact ⟨o, a, b, c, d, fun hg => by rcases hg with hg | hg <;> cases hg⟩
  | fg =>
    obtain ⟨o, a, b, c, d⟩ := ui_fg_union (nB := nB) hcols hv hsep h
    exact ⟨o, a, b, c, d, fun hg => by rcases hg with hg | hg <;> cases hg⟩
  | bg =>
    obtain ⟨a, c, d⟩ := ui_bg_union (nB := nB) hcols hv hsep h
    exact ⟨_, a, Col.SamePart.refl _, c, d, fun _ => rfl⟩
  | wthh =>
    obtain ⟨a, c, d⟩ := ui_wthh_union (nB := nB) hcols hv hsep h
    exact ⟨_, a, Col.SamePart.refl _, c, d, fun _ => rfl⟩

end GV.Simulate
